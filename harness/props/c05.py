"""C05 — linear resampling returns the piecewise-linear interpolant of the track
(tracklib/algo/interpolation.py: prepareTimeSampling, __resampleTemporal, __resampleSpatial, resample;
 tracklib/core/track.py: Track.resample)."""
import bisect, calendar, datetime, itertools, math
from fractions import Fraction
from engine import Prop, fbits, bitsf, ratstr, close

EPOCH = datetime.datetime(1970, 1, 1)
G = 1 + 1e-8                       # the guard constant of Track.resample, as the double Python computes

# integer-length 2D steps (axis-parallel and Pythagorean), used to build lattice tracks whose legs are exact
VECS = [(3, 4), (4, 3), (-3, 4), (3, -4), (-4, -3), (6, 8), (-8, 6), (5, 12), (12, -5), (8, 15),
        (5, 0), (0, 5), (-5, 0), (0, -5), (1, 0), (0, 1), (2, 0), (0, -3), (7, 0), (0, 0)]


def fields_of_ms(ms):
    dt = EPOCH + datetime.timedelta(milliseconds=ms)
    return [dt.year, dt.month, dt.day, dt.hour, dt.minute, dt.second, dt.microsecond // 1000]


def leap(y):
    return y % 4 == 0 and (y % 100 != 0 or y % 400 == 0)


def wellformed(f):
    y, mo, d, h, mi, s, ms = f
    md = [31, 29 if leap(y) else 28, 31, 30, 31, 30, 31, 31, 30, 31, 30, 31]
    return (1 <= mo <= 12 and 1 <= d <= md[mo - 1] and 0 <= h <= 23 and 0 <= mi <= 59
            and 0 <= s <= 59 and 0 <= ms <= 999)


def ms_of_fields(f):
    return calendar.timegm((f[0], f[1], f[2], f[3], f[4], f[5])) * 1000 + f[6]


def abs_time(ms):
    """the float ObsTime.toAbsTime() yields for an instant given in integer milliseconds"""
    return (ms // 1000) + (ms % 1000) / 1000.0


def is_sq(fr):
    fr = Fraction(fr)
    if fr < 0:
        return False
    a, b = math.isqrt(fr.numerator), math.isqrt(fr.denominator)
    return a * a == fr.numerator and b * b == fr.denominator


def fsqrt(fr):
    fr = Fraction(fr)
    return Fraction(math.isqrt(fr.numerator), math.isqrt(fr.denominator))


def dyadic8(x):
    return Fraction(x) * 8 == int(Fraction(x) * 8)


# ---------------------------------------------------------------- histories applied to the track before resampling
# A case may carry "pre": a list of operations performed on the real Track object between its construction and the
# call to resample(). The model and the oracle are given the FINAL geometry (computed here, independently, from the
# same list): nothing the track remembers from before (cached abs_curv / ds / speed features, user features with
# those names, uid, base, ...) may influence the result. Indices are taken modulo the current size.
FEATURE_NAMES = ["abs_curv", "ds", "speed", "heading", "s", "curv"]


def feat_values(seed, n):
    return [((seed * 7919 + i * 104729) % 2000) / 8.0 - 50.0 for i in range(n)]


def apply_pre_pts(pts, pre):
    """the geometry after the history (list of [x, y, z, t_ms])"""
    pts = [list(p) for p in pts]
    for op in pre or []:
        n = len(pts)
        k = op[0]
        if k in ("setx", "sety", "setz") and n:
            pts[op[1] % n]["xyz".index(k[3])] = float(op[2])
        elif k == "scale":
            for q in pts:
                q[0] *= op[1]; q[1] *= op[1]
        elif k == "translate":
            for q in pts:
                q[0] += op[1]; q[1] += op[2]; q[2] += op[3]
        elif k == "remove" and n >= 2:
            del pts[op[1] % n]
    return pts


class P(Prop):
    id = "C05"
    design_ref = "DESIGN.md section 5, C05"
    M = "TracklibVerif.Props.C05"
    theorems = [
        (M, "TV.C05.temporal_count", "T1: for a chronological list of instants __resampleTemporal returns, without raising, exactly one observation per instant in (tini, tfin], in order, stamped with it"),
        (M, "TV.C05.temporal_count_any_order", "T1': on a track whose stamps never decrease, instants requested in ANY order (repetitions included) each get exactly one observation when in (tini, tfin], in request order, stamped with the instant (fix ee0419b)"),
        (M, "TV.C05.temporal_bracket", "T2: with strictly increasing stamps the sample at t uses the unique leg r>=1 with T[r-1] < t <= T[r] (positive denominator) and is P[r-1] + ((t-T[r-1])/(T[r]-T[r-1]))(P[r]-P[r-1]) in x, y, z"),
        (M, "TV.C05.temporal_repeated_stamps", "T2': stamps that never decrease but may repeat, any track length: the sample at t in (tini, tfin] is interpolated between two fixes CONSECUTIVE in the order of the track, P[r-1] and P[r], the unique leg with T[r-1] < t <= T[r] (never of zero duration); every fix before P[r] is stamped < t and every fix from P[r] on is stamped > T[r-1] (the leg ends at the first fix stamped >= t and starts at the last fix carrying T[r-1]: the track is never re-ordered); an instant that is a stamp of the track gets the position of the first fix carrying it"),
        (M, "TV.C05.temporal_number_step", "T1/T2 for a numeric step d>0: prepareTimeSampling + the loop return exactly the samples at tini+d, ..., tini+Kd with tini+Kd <= tfin < tini+(K+1)d"),
        (M, "TV.C05.temporal_outside", "D1: requested instants all outside (tini, tfin] yield no observation and no exception, for every non-empty track, any order"),
        (M, "TV.C05.temporal_degenerate", "D2: empty list / reference track without observation / argument of another type return the empty track; a reference Track is read through its stamps only (one observation = the one-instant list); a one-fix track answers every list with the empty track"),
        (M, "TV.C05.temporal_repeated", "D3: an instant requested n times is answered n times (same sample) when in (tini, tfin], not at all otherwise"),
        (M, "TV.C05.frontend_empty_request", "D4: through Track.resample an empty list / empty reference track in temporal mode returns the empty track whatever npts and factor: an empty request is not `delta is None`"),
        (M, "TV.C05.temporal_stamps", "S1: instants requested as whole milliseconds m (any order): the outputs carry exactly the stamps ObsTime.readUnixTime(m/1000) = C03's readUnixMs m of the requested instants in (tini, tfin], each a well-formed calendar stamp reading back as m ms exactly (exact arithmetic)"),
        (M, "TV.C05.spatial_samples", "T3a: __resampleSpatial returns the first fix followed by the samples at abscissas ds, ..., N ds with N ds <= L < (N+1) ds"),
        (M, "TV.C05.spatial_on_polyline", "T3: the sample at abscissa s in (0,L] lies on the unique leg r with S[r-1] < s <= S[r], of positive length, at fraction f in (0,1], at curvilinear abscissa s; x, y, z, t interpolated with f"),
        (M, "TV.C05.spatial_pause", "T3d: pauses (repeated positions): the leg used ends at the FIRST fix at or beyond s (a sample on a pause is the fix where the pause begins, with its z and t) and starts at the LAST fix of its start abscissa (a sample beyond a pause is interpolated in z and t from the fix that ends the pause); never a zero-length leg"),
        (M, "TV.C05.spatial_time_monotone", "T4: with non-decreasing stamps the timestamps of the spatially resampled track never decrease"),
        (M, "TV.C05.spatial_equal_stamp_leg", "T3e: a spatial sample taken on a leg whose two fixes carry the same timestamp is stamped with exactly that timestamp (exact arithmetic; in any arithmetic since the fix commit 20ed89f, see T4')"),
        (M, "TV.C05.spatial_clamp_exact", "T4c: the clamp T = min(max(T, t_bwd), t_fwd) of the fix commit 20ed89f is a no-op in exact arithmetic (stamps t_bwd <= t_fwd): the weighted mean already lies between the two stamps and equals the linear interpolation, so T3a/T3/T3d/T3e/T4/S2 describe the repaired code"),
        (M, "TV.C05.spatial_time_clamped", "T4': WITHOUT exact arithmetic (any linearly ordered scalar type with four arbitrary operations, e.g. rounding doubles): with stamps that never decrease every time handed to readUnixTime by __resampleSpatial lies between the stamps of the two fixes of its leg, the legs never go backwards, outputs on different legs are in chronological order, an output on a leg travelled in no time carries exactly its stamp, none is earlier than the first fix; only two samples of one leg of positive duration are not ordered by the clamp alone (T4, exact)"),
        (M, "TV.C05.spatial_stamps_monotone", "S2: spatial mode, stamps that never decrease (repeats allowed), not before 1970: the outputs carry the calendar stamps readUnixMs(m) with m = floor(1000 t) the millisecond of the interpolated time; these m never decrease along the output and each stamp is well formed and reads back as m ms: the stamps actually carried never decrease (exact arithmetic)"),
        (M, "TV.C05.stamp_is_readUnixTime", "S3: for EVERY instant t >= 0 (whole millisecond or not, e.g. an interpolated time) ObsTime.readUnixTime(t) mirrored operation for operation on the fractional seconds (stampG = C03's readUnixG: year loop with its fuel, month loop, truncated divisions, ms = int((t - int(t)) * 1000)) ends and returns the calendar fields of C03's integer reader on the millisecond floor(1000 t): stampG = stampOf, a theorem instead of a definition (exact arithmetic, exact int())"),
        (M, "TV.C05.spatial_stamps_readUnixTime", "S2': spatial mode, stamps that never decrease, not before 1970: the timestamps the mirrored code attaches (readUnixTime run on each interpolated, generally non-integral time) are exactly stampOf = readUnixMs(floor(1000 t)), and these milliseconds never decrease along the output (exact arithmetic)"),
        (M, "TV.C05.spatial_first_stamp_carried", "S2'': the first output of __resampleSpatial is getFirstObs().copy() and carries the first fix's own ObsTime (spatialStampsG) instead of readUnixTime of its time; for a well-formed stamp this is the same list of timestamps as re-reading every output (stampG), so S2' describes the stamps the track really holds (exact arithmetic: C03's round trip; in doubles the carried stamp may be 1 ms later -- the harness compares output 0 with the first fix's own stamp)"),
        (M, "TV.C05.temporal_stamps_readUnixTime", "S1': S1 for instants that are NOT whole milliseconds: the observation returned for each requested t in (tini, tfin] (any order, first fix not before 1970) carries readUnixTime(t) as the mirrored code computes it = the calendar stamp of the millisecond floor(1000 t) the instant falls in (exact arithmetic)"),
        (M, "TV.C05.spatial_legs", "T3b: the accumulated leg lengths are the non-negative 2D distances (square = dx^2+dy^2) for any sqrt meeting math.sqrt's contract"),
        (M, "TV.C05.spatial_distance_along_leg", "T3c: the point at fraction f of a leg is at planimetric distance f|ab| from its start, so with T3 the sample k lies at distance k ds along the original 2D polyline"),
        (M, "TV.C05.frontend", "Track.resample: feature table reset to empty (the dispatcher interpolation.resample alone leaves it as it was); explicit delta = the private routine (spatial + non-numeric step = TypeError); delta=None = the call with step (1+1e-8) D/npts"),
        (M, "TV.C05.npts_exhibits_step", "T5: the forms that give a number of points instead of a step (npts= / factor= / track ** n / track * k; delta is None): whatever g > 0 and npts != 0, Track.resample returns the property's answer for SOME positive constant step -- spatial (3D length > 0): first fix + the N samples at ds, ..., N ds of the 2D polyline, N ds <= L2D < (N+1) ds; temporal (duration > 0): the K samples at tini+d, ..., tini+Kd <= tfin < tini+(K+1)d; which step (g D/npts, D = 3D length / duration) is `frontend` (c), outside the property"),
        (M, "TV.C05.operators", "O1: track // ref = one observation per stamp of ref in (tini, tfin], in ref's order, each the specification sample (ref empty / one observation / unsorted / outside included); track ** n = Track.resample(npts=n, temporal); track * k = Track.resample(factor=k) in spatial mode"),
        (M, "TV.C05.sample_spec", "O2: interpolation.sample(track, t) = the specification sample when t in (tini, tfin], IndexError otherwise"),
        (M, "TV.C05.synchronize_spec", "O3: synchronize(t1, t2) leaves both tracks with exactly the same timestamps: the stamps of either track strictly inside the common time range, in chronological order, each track holding its own specification sample at each; none inside = both empty"),
        (M, "TV.C05.collection_resample", "O4: TrackCollection.resample = Track.resample on every track in order (returns iff every track's resampling returns)"),
        (M, "TV.C05.collection_floordiv", "O5: collection // ref (fix ea8666e) returns, for every track in order, that track's own temporal resampling at ref's stamps (= track // ref): one observation per stamp of ref in the track's (tini, tfin], in ref's order, each the specification sample, feature table empty"),
    ]
    partial = []
    open_statements = [
        "IEEE rounding is outside the theorems (ordered field): float overshoot int(L/ds)*ds > L (repaired by the fix commits 6fb91a5 + 3031a33: bounded scan and abscissa clamped to L, both mirrored by the model and proved to be no-ops in exact arithmetic; their effect in floats is covered by the Float-model correspondence and the oracle), loss of the (1+1e-8) guard on epoch-scale stamps and the truncation int((t - int(t))*1000) of the millisecond field to m-1 for some whole-millisecond instants are not covered by theorems: they are sampled by the transfer check (the Float model runs the same operations, readUnixTime included -- stampG -- and must reproduce the calendar fields exactly; the Rat model and the oracle allow 1 ms)",
        "spatial mode: the stamp of an output is readUnixTime of an interpolated, generally non-integral number of milliseconds; that this is the calendar stamp of floor(1000 t) (stampOf) is now a THEOREM about C03's operation-for-operation reader (S3 stamp_is_readUnixTime, S2', S1') in exact arithmetic, and S2 proves that these stamps never decrease and read back as floor(1000 t) ms; in floats the truncation int((t - int(t))*1000) is no theorem, but it is inside the model: the Float stream stamps with the same reader at IEEE doubles (stampG) and the seven calendar fields of every output are compared EXACTLY with the real code's (no millisecond of tolerance); the former finding spatial-equal-stamp-leg-ms-decrease (on a leg travelled in no time wbwd*t + wfwd*t fell one ulp below t and the output stamps read m, m-1, m) is repaired by 20ed89f and T4' proves, for any arithmetic, that times on different legs or on a no-time leg never decrease; the order of two samples of ONE leg of positive duration in floats (monotonicity of the rounded weighted mean) is only sampled by the oracle",
    ]
    modelled = ("tracklib/algo/interpolation.py prepareTimeSampling (number / list / Track / other argument), __resampleTemporal, __resampleSpatial (bounded scan, clamped abscissa, interpolated time clamped to the two stamps of its leg -- 20ed89f), "
                "the ALGO_LINEAR branches of the dispatcher resample() (including that it leaves the feature table untouched), sample(), synchronize() "
                "(common range with Python's max/min, argsort as a sort of values, the de-duplication loop as written); tracklib/core/track.py Track.resample "
                "(`delta is None` -> npts/factor with the (1+1e-8) guard, SRID read, dispatcher call, reset of the feature table), Track.__floordiv__, __pow__, "
                "__mul__ (number); tracklib/core/track_collection.py TrackCollection.resample and __floordiv__ (temporal mode since the fix commit ea8666e); ENUCoords.distance2DTo/distanceTo as sqrt parameters; "
                "ObsTime.readUnixTime on the float handed to it by the two loops = C03's operation-for-operation reader readUnixG (Model/ObsTimeG.lean) composed as stampG, emitted by both streams "
                "(Float: compared field for field with the real observation; Rat: equal to stampOf, theorem S3); stampOf = C03's integer reader on floor(1000 t)")
    trusted = ["C05: for the forms that give a number of points instead of a step (npts= / factor= / track ** n / track * k) the oracle does not assume which step the "
               "library derives: it recovers the constant step from the output (position of one observation on the original polyline; the stamps alone on a track that "
               "does not move) and demands the property's full answer -- count included -- for that step (`spec_derived`; theorem npts_exhibits_step); the derived step "
               "itself, (1+1e-8) x (3D length | duration) / npts, is checked by the correspondence with the model only",
               "C05: the Rat instantiation of the model runs on inputs whose leg lengths are exact square roots (else the Float instantiation only); "
               "the stamp of an output is C03's readUnixG on the model's time (stampG; bit-exactness of that reader at Float with CPython is C03's correspondence), proved equal to the C03 integer model applied to floor(1000 t) (stampOf) in exact arithmetic",
               "C05: for synchronize() the oracle holds each track against the property for the request that track actually received, recorded at the door of "
               "Track.resample (which instants synchronize chooses is checked by the correspondence with the model, theorem synchronize_spec)"]
    rule = ("ENU tracks of 1..8 fixes on an integer/dyadic lattice (3-4-5 and axis-parallel legs, repeated positions), strictly increasing "
            "irregular timestamps on a 1/8 s grid from 1970 on (year ends included); LONG tracks of 17..200 fixes (sizes around 16/17, 32/33, 64/65, 128/129 and random) whose "
            "consecutive fixes share a timestamp (one pair at every position, a quarter of the pairs, every stamp doubled = 2 Hz on a 1 s clock, runs of up to 5) and/or a position "
            "(independently, exactly the same pairs = doubled records, or only the others), lattice and float, requested at one instant inside EVERY leg (list / reference track, "
            "in order or shuffled; Track.resample, interpolation.resample, //, sample, synchronize, collection //), by numeric step, npts, and in spatial mode; the oracle "
            "interpolates in the ORIGINAL order of the fixes (stamps that never decrease are inside the oracle; at a repeated stamp any value of the jump is admissible); steps as number (int or float, dividing or not), list of instants "
            "(before/at/after the ends, duplicates, any order), reference track, npts/factor; temporal and spatial; degenerate requests (empty list, empty / one-observation / "
            "unsorted reference track, all instants outside the range, one instant repeated, the track itself as reference, its own stamps, a tuple, a list in spatial mode, "
            "delta together with npts/factor, a step >= the whole range); every entry point that delegates to linear resampling (Track.resample, interpolation.resample, "
            "track // ref, track ** n, track * k, interpolation.sample, synchronize of two tracks whose time ranges meet in every way incl. shared stamps and no common fix, "
            "synchronize(t, t), TrackCollection.resample and collection // ref on 1..3 tracks; operators must leave their operand unchanged); plus a float stream (arbitrary "
            "coordinates, arbitrary ms), a history stream (abs_curv / ds / speed / heading computed or user features with those names, uid/base/no_data/zone set, "
            "copy, then in-place edits setX/setY/setZ/scale/translate/removeObs, then resample; model and oracle see the final geometry) and an error/edge stream (ds<=0, npts=0, other mode, duplicate stamps, empty track). "
            "npts / factor / ** / * are generated on tracks whose height varies (3D length > 2D length) in both modes; "
            "A call that does not return within 6 s of CPU time is reported as raising TimeoutError. non-trivial = at least 3 fixes and at least 2 expected output observations")
    rel_tol = 1e-9
    include_unsorted = True     # stream of unsorted instant lists (former finding `unsorted-request-list`, repaired by ee0419b; theorem T1')

    # ------------------------------------------------------------------ setup
    def setup(self):
        from tracklib.core import Obs, ENUCoords, ObsTime
        from tracklib.core.track import Track
        from tracklib.core.track_collection import TrackCollection
        import tracklib.algo.interpolation as I
        self.Obs, self.ENU, self.T, self.Track, self.I, self.Coll = Obs, ENUCoords, ObsTime, Track, I, TrackCollection
        assert I.MODE_SPATIAL == 1 and I.MODE_TEMPORAL == 2 and I.ALGO_LINEAR == 1

    # ------------------------------------------------------------------ generators
    def exhaustive_scopes(self, tier):
        return ["temporal: every strictly increasing stamp triple in {0..5} s x step in {1/2,1,3/2,2,3,5,7} and x every single instant of the half-second grid -1..6 s",
                "temporal: every sorted pair of instants of the half-second grid -1..6 s on the stamps (0,2,3,5)",
                "histories: on one 5-fix lattice track, abs_curv cached (or a user feature abs_curv / ds) followed by every single edit of {scale 1/2,2,3; remove i; setx i; sety i} x ds in {1, 5/2} spatial and step 3/2 temporal",
                "spatial: every sequence of 2..3 legs from {0, 2 (axis), 5 (3-4-5), 10 (6-8-10)} x ds in {1/2,1,2,5/2,5,7,20}",
                "degenerate requests: on the stamps (0,2,3,5) every reference of 0, 1 or 2 instants of the half-second grid -1..6 s x {list (with and without npts), reference Track, track // ref, interpolation.resample with a feature table}",
                "long tracks: zigzag 1 Hz tracks of 17, 20, 30 fixes (thorough: 12 sizes up to 100) in which fixes d-1 and d share a timestamp, for EVERY d (a third of them also as an identical doubled record), requested a quarter of a second inside every leg and at the repeated stamp; 2 Hz tracks with a 1 s clock of every size 17..40 (thorough: ..100) requested at every half second (list, track // ref, step 1/4 s)",
                "synchronize: every pair of stamp sets of 2..3 whole seconds from {0..5} (all ways two time ranges can meet: disjoint, touching, one fix or none inside the common range, shared stamps, identical)"]

    def mk_case(self, kind, pts, mode, delta=None, npts=None, factor=1, feat=False, via=None, others=None):
        c = {"kind": kind, "pts": pts, "mode": mode, "delta": delta, "npts": npts, "factor": factor, "feat": feat}
        if via is not None:
            c["via"] = via
        if others is not None:
            c["others"] = others
        return c

    # ---- degenerate requests: "every requested instant", also when there is none, one, the same one many times, none inside
    def degenerate_exhaustive(self):
        out = []
        base = 86400000 * 365
        pos = [(0.0, 0.0, 0.0), (3.0, 4.0, 10.0), (3.0, 4.0, 10.0), (9.0, 12.0, -2.0)]
        pts = [[pos[i][0], pos[i][1], pos[i][2], base + 1000 * t] for i, t in enumerate((0, 2, 3, 5))]
        grid = [base + 500 * h for h in range(-2, 13)]
        refs = [[]] + [[a] for a in grid] + [list(ab) for ab in itertools.combinations_with_replacement(grid, 2)]
        for r in refs:
            out.append(self.mk_case("x-deg-list", pts, 2, {"list": r}, npts=(3 if len(r) % 2 == 0 else None)))
            out.append(self.mk_case("x-deg-track", pts, 2, {"track": r}))
            out.append(self.mk_case("x-deg-floordiv", pts, 2, {"track": r}, via="floordiv"))
            out.append(self.mk_case("x-deg-interp", pts, 2, {"list": r}, feat=True, via="interp"))
        return out

    def sync_exhaustive(self):
        out = []
        base = 86400000 * 365
        sets = [T for k in (2, 3) for T in itertools.combinations(range(6), k)]
        pa = [(0.0, 0.0, 0.0), (3.0, 4.0, 10.0), (9.0, 12.0, -2.0)]
        pb = [(1.0, 1.0, 5.0), (1.0, 7.0, 5.0), (-7.0, 13.0, 0.0)]
        for A in sets:
            for B in sets:
                a = [[pa[i][0], pa[i][1], pa[i][2], base + 1000 * t] for i, t in enumerate(A)]
                b = [[pb[i][0], pb[i][1], pb[i][2], base + 1000 * t] for i, t in enumerate(B)]
                out.append(self.mk_case("x-sync", a, 2, None, via="sync", others=[b]))
        return out

    def rand_degenerate(self, rng):
        pts = self.rand_track(rng, n=rng.choice([1, 2, 2, 3, 3, 4, 5, 6]))
        t0, t1 = pts[0][3], pts[-1][3]
        before = lambda: max(0, t0 - rng.randrange(0, 6) * 125)
        after = lambda: t1 + rng.randrange(1, 6) * 125
        inside = lambda: t0 + rng.randrange(1, max(2, (t1 - t0) // 125 + 1)) * 125 if t1 > t0 else t0
        form = rng.choice(["list", "list", "track"])
        npts, factor = rng.choice([(None, 1), (None, 1), (3, 1), (7, 1), (None, 2), (0, 1)])
        c = rng.randrange(12)
        if c == 0:      # nothing requested
            via = rng.choice(["resample", "resample", "interp"] if form == "list" else ["resample", "floordiv"])
            return self.mk_case("deg-empty", pts, 2, {form: []}, npts, factor, rng.random() < 0.3, via=via)
        if c == 1:      # one instant (a reference track with one observation)
            t = rng.choice([before, after, inside, lambda: t0, lambda: t1])()
            via = rng.choice(["resample", "floordiv"]) if form == "track" else rng.choice(["resample", "interp"])
            return self.mk_case("deg-one", pts, 2, {form: [t]}, npts, factor, via=via)
        if c == 2:      # every instant outside (tini, tfin], in any order
            l = [rng.choice([before, after, lambda: t0])() for _ in range(rng.choice([1, 2, 3, 6]))]
            return self.mk_case("deg-outside", pts, 2, {form: l}, npts, factor)
        if c == 3:      # the same instant several times (a list; the stamps of a Track cannot repeat... they can: no check)
            t = rng.choice([inside, inside, lambda: t1, lambda: t0, after])()
            l = [t] * rng.choice([2, 3, 5])
            if rng.random() < 0.4:
                l.insert(rng.randrange(len(l) + 1), inside())
            return self.mk_case("deg-repeated", pts, 2, {form: l}, npts, factor)
        if c == 4:      # the reference is the track itself
            return self.mk_case("deg-self", pts, 2, {"self": True}, npts, factor, via=rng.choice(["resample", "floordiv", "interp"]))
        if c == 5:      # the track's own stamps as a list of ObsTime
            return self.mk_case("deg-own-stamps", pts, 2, {"list": [p[3] for p in pts]}, npts, factor)
        if c == 6:      # neither a number, a list nor a Track (a tuple of ObsTime): no isinstance branch of prepareTimeSampling
            return self.mk_case("deg-other", pts, 2, {"other": [inside() for _ in range(rng.choice([0, 1, 3]))]}, npts, factor)
        if c == 7:      # the step as a Python int
            mode = rng.choice([1, 2])
            span = (t1 - t0) / 1000.0 if mode == 2 else float(self.len2d(pts))
            return self.mk_case("deg-int-step", pts, mode, {"num": max(rng.choice([1, 2, 3, 5, 10, 60]), int(span / 500) + 1)}, npts, factor, rng.random() < 0.3)
        if c == 8:      # spatial mode with a step that is not a number: TypeError
            return self.mk_case("deg-spatial-list", pts, 1, {form: [inside()]}, npts, factor)
        if c == 9:      # both delta and npts / factor given: priority to delta
            return self.mk_case("deg-delta-and-npts", pts, 2, {form: sorted(inside() for _ in range(3))}, rng.choice([1, 4, 9]), rng.choice([1, 2]))
        if c == 10:     # a reference track in any order, with repetitions
            l = self.rand_instants(rng, pts)
            rng.shuffle(l)
            return self.mk_case("deg-track-unsorted", pts, 2, {"track": l}, via=rng.choice(["resample", "floordiv"]))
        # the step spans exactly / more than the whole duration or length: the last fix alone, or nothing
        if rng.random() < 0.5:
            dur = (t1 - t0) / 1000.0
            return self.mk_case("deg-step-ge-range", pts, 2, {"num": max(0.125, dur * rng.choice([1, 1, 2, 1.5]))})
        L = float(self.len2d(pts))
        return self.mk_case("deg-step-ge-range", pts, 1, {"num": max(0.125, L * rng.choice([1, 1, 2, 1.5]))})

    def rand_second_track(self, rng, a, lattice=True):
        """a second track whose time range meets the first one's in every possible way (shared stamps included)"""
        b = self.rand_track(rng, n=rng.choice([1, 2, 2, 3, 3, 4, 5]), lattice=lattice)
        c = rng.random()
        if c < 0.12:        # the same stamps
            b = [[q[0], q[1], q[2], p[3]] for p, q in zip(a, (b * 8)[:len(a)])]
            return b
        if c < 0.2:         # disjoint in time
            sh = a[-1][3] + rng.choice([125, 1000, 86400000]) - b[0][3]
        else:               # one stamp of b placed near (or on) one stamp of a
            sh = rng.choice(a)[3] + rng.choice([-5, -2, -1, 0, 0, 0, 1, 2, 5]) * (125 if lattice else 1) - rng.choice(b)[3]
        if b[0][3] + sh < 0:
            sh = -b[0][3]
        return [[q[0], q[1], q[2], q[3] + sh] for q in b]

    def rand_via(self, rng):
        lattice = rng.random() < 0.7
        pre = "via-" if lattice else "f-via-"
        pts = self.rand_track(rng, lattice=lattice)
        feat = rng.random() < 0.3
        g = 125 if lattice else 1
        c = rng.randrange(11)
        if c == 0:
            mode = rng.choice([1, 2, 2])
            if mode == 1:
                d = {"num": self.rand_step_s(rng, pts) if lattice else max(0.5, rng.uniform(0.03, 1.1) * float(self.len2d(pts)))}
            else:
                d = rng.choice([{"num": self.rand_step_t(rng, pts)}, {"list": self.rand_instants(rng, pts, g)}, {"track": self.rand_instants(rng, pts, g)}])
            return self.mk_case(pre + "interp", pts, mode, d, feat=feat, via="interp")
        if c == 1:
            l = self.rand_instants(rng, pts, g)
            if rng.random() < 0.3:
                rng.shuffle(l)
            return self.mk_case(pre + "floordiv", pts, 2, {"track": l}, feat=feat, via="floordiv")
        if c == 2:
            return self.mk_case(pre + "pow", pts, 2, None, rng.choice([1, 2, 3, 4, 5, 7, 10, 16]), 1, feat, via="pow")
        if c == 3:
            return self.mk_case(pre + "mul", pts, 1, None, None, rng.choice([1, 2, 3]), feat, via="mul")
        if c == 4:
            return self.mk_case(pre + "sample", pts, 2, {"list": self.rand_instants(rng, pts, g)[:1]}, feat=feat, via="sample")
        if c in (5, 6, 7) or (c == 8 and not lattice):     # (syncself chains two resamplings through the millisecond
            # truncation of the stamps: exact on the 1/8 s lattice only)
            return self.mk_case(pre + "sync", pts, 2, None, feat=feat, via="sync", others=[self.rand_second_track(rng, pts, lattice)])
        if c == 8:
            return self.mk_case(pre + "syncself", pts, 2, None, feat=feat, via="syncself")
        others = [self.rand_second_track(rng, pts, lattice) for _ in range(rng.choice([0, 1, 2]))]
        mode = rng.choice([1, 2, 2])
        if mode == 1:
            d = {"num": self.rand_step_s(rng, pts) if lattice else max(0.5, rng.uniform(0.03, 1.1) * float(self.len2d(pts)))}
            span = max(float(self.len2d(q)) for q in [pts] + others)
        else:
            d = rng.choice([{"num": self.rand_step_t(rng, pts)}, {"list": self.rand_instants(rng, pts, g)}, {"track": self.rand_instants(rng, pts, g)}])
            span = max((q[-1][3] - q[0][3]) / 1000.0 for q in [pts] + others)
        if "num" in d and span / d["num"] > 2000:      # the same step serves every track of the collection: keep the longest one affordable
            d = {"num": float(Fraction(span / 2000).limit_denominator(8)) + 0.125}
        if c == 9:
            return self.mk_case(pre + "coll", pts, mode, d, feat=feat, via="coll", others=others)
        return self.mk_case(pre + "collfloordiv", pts, 2, {"track": self.rand_instants(rng, pts, g)}, feat=feat, via="collfloordiv", others=others)

    def rand_pre(self, rng, pts):
        """a history on the track object before resample(): cached / user features, in-place edits, bookkeeping fields"""
        n = len(pts)
        i = rng.randrange(max(n, 1))
        edit = lambda: rng.choice([["setx", i, pts[i][0] + rng.choice([-7.0, -2.5, 1.0, 4.0, 12.0])],
                                   ["sety", i, pts[i][1] + rng.choice([-6.0, -1.5, 2.0, 9.0])],
                                   ["setz", i, pts[i][2] + rng.choice([-3.0, 5.0])],
                                   ["scale", rng.choice([0.5, 2.0, 3.0, 0.25])],
                                   ["remove", i],
                                   ["translate", rng.choice([-5.0, 3.0]), rng.choice([0.0, 8.0]), rng.choice([0.0, 2.0])]])
        cache = lambda: rng.choice([["abscurv"], ["abscurv"], ["abscurv"], ["speed"], ["heading"],
                                    ["feat", rng.choice(FEATURE_NAMES), rng.randrange(1000)],
                                    ["feat", "abs_curv", rng.randrange(1000)], ["feat", "ds", rng.randrange(1000)]])
        misc = lambda: rng.choice([["uid", rng.choice(["u1", 7])], ["base", 650000.0, 6860000.0], ["nodata", rng.choice([0, -1, 99999])],
                                   ["zone", rng.choice([0, 1, -3])], ["copy"]])
        c = rng.random()
        if c < 0.45:
            pre = [cache(), edit()]
        elif c < 0.6:
            pre = [cache(), edit(), edit()]
        elif c < 0.7:
            pre = [cache()]
        elif c < 0.8:
            pre = [cache(), misc(), edit()]
        elif c < 0.9:
            pre = [edit(), cache()]
        else:
            pre = [misc(), misc()]
        return pre

    def pre_exhaustive(self):
        """one lattice track, abs_curv cached, then every single in-place edit of a small menu; both modes"""
        out = []
        base = 86400000 * 400
        pts = [[0.0, 0.0, 0.0, base], [3.0, 4.0, 2.0, base + 4000], [3.0, 4.0, 2.0, base + 6000],
               [9.0, 12.0, -1.0, base + 11000], [9.0, 2.0, 4.0, base + 21000]]
        edits = [["scale", k] for k in (0.5, 2.0, 3.0)] + [["remove", i] for i in range(5)]
        edits += [[op, i, v] for i in range(5) for op, v in (("setx", 15.0), ("sety", -3.0))]
        for cache in (["abscurv"], ["feat", "abs_curv", 3], ["feat", "ds", 5]):
            for e in [None] + edits:
                pre = [cache] + ([e] if e else [])
                for ds in (1.0, 2.5):
                    c = self.mk_case("x-pre-spatial", pts, 1, {"num": ds}); c["pre"] = pre; out.append(c)
                c = self.mk_case("x-pre-temporal", pts, 2, {"num": 1.5}); c["pre"] = pre; out.append(c)
        return out

    def exhaustive(self):
        out = []
        base = 86400000 * 365  # 1971-01-01
        pos = [(0.0, 0.0, 0.0), (3.0, 4.0, 10.0), (3.0, 4.0, 10.0), (9.0, 12.0, -2.0)]
        for T in itertools.combinations(range(6), 3):
            pts = [[pos[i][0], pos[i][1], pos[i][2], base + 1000 * T[i]] for i in range(3)]
            for d in (0.5, 1.0, 1.5, 2.0, 3.0, 5.0, 7.0):
                out.append(self.mk_case("x-temporal-num", pts, 2, {"num": d}))
            for h in range(-2, 13):
                out.append(self.mk_case("x-temporal-list", pts, 2, {"list": [base + 500 * h]}))
        pts = [[pos[i][0], pos[i][1], pos[i][2], base + 1000 * t] for i, t in enumerate((0, 2, 3, 5))]
        grid = [base + 500 * h for h in range(-2, 13)]
        for a, b in itertools.combinations_with_replacement(grid, 2):
            out.append(self.mk_case("x-temporal-list", pts, 2, {"list": [a, b]}))
        legv = {0: (0, 0), 2: (0, 2), 5: (3, 4), 10: (-8, 6)}
        for n in (2, 3):
            for legs in itertools.product((0, 2, 5, 10), repeat=n):
                x, y = 1.0, -2.0
                pts = [[x, y, 0.0, base]]
                for i, l in enumerate(legs):
                    x += legv[l][0]; y += legv[l][1]
                    pts.append([x, y, float(3 * (i + 1) * (-1) ** i), base + 1000 * (i + 1) * (i + 2)])
                for ds in (0.5, 1.0, 2.0, 2.5, 5.0, 7.0, 20.0):
                    out.append(self.mk_case("x-spatial-num", pts, 1, {"num": ds}))
        return out

    def rand_base(self, rng):
        c = rng.random()
        if c < 0.3:
            return rng.randrange(0, 4102444800) * 1000
        if c < 0.6:   # close to a year boundary
            y = rng.randrange(1971, 2100)
            return (calendar.timegm((y, 1, 1, 0, 0, 0)) - rng.choice([1, 5, 30, 600, 86400])) * 1000
        return rng.choice([0, 1000, 86400000 * 365, 951782400000, 1709164800000])  # 1970, 1971, 2000-02-29, 2024-02-29

    def rand_track(self, rng, n=None, lattice=True, grid_ms=125):
        n = n or rng.choice([2, 2, 3, 3, 4, 4, 5, 6, 7, 8])
        t = self.rand_base(rng)
        if lattice:
            sc = rng.choice([0.5, 1.0, 1.0, 2.0])
            x, y = float(rng.randrange(-20, 21)), float(rng.randrange(-20, 21))
            z = float(rng.randrange(-8, 9))
            pts = []
            for i in range(n):
                pts.append([x, y, z, t])
                vx, vy = rng.choice(VECS)
                if rng.random() < 0.15:
                    vx, vy = 0, 0
                x += sc * vx; y += sc * vy
                z = z if rng.random() < 0.3 else float(rng.randrange(-16, 17)) / rng.choice([1, 2, 4])
                t += rng.choice([1, 2, 4, 8, 12, 20, 28, 56, 80, 480, 28800]) * grid_ms
            return pts
        pts = []
        for i in range(n):
            pts.append([rng.uniform(-1000, 1000), rng.uniform(-1000, 1000), rng.uniform(-50, 50), t])
            if rng.random() < 0.15 and i > 0:
                pts[-1][0:2] = pts[-2][0:2]
            t += rng.randrange(1, 60000)
        return pts

    # ---- long tracks (17..200 fixes): repeated timestamps / repeated positions / both, at every position.
    # Nothing in the property depends on the size of the track, but library routines a resampling may lean on do (numpy's sorts
    # change algorithm above 16 elements and are then not stable, buffers grow, ...): sizes beyond every small-case threshold,
    # with the repeats placed everywhere, and requests that visit EVERY leg of the track.
    LONG_N_QUICK = [17, 17, 18, 19, 20, 24, 30, 33, 40, 48, 64, 65, 100, 129, 200]
    TPATS = ["strict", "one", "one", "some", "some", "all2", "runs"]
    PPATS = ["distinct", "distinct", "pauses", "twin", "anti"]

    def long_track(self, rng, n, lattice=True, tpat="some", ppat="distinct", base=None):
        """n fixes in chronological order. tpat: which consecutive fixes share a timestamp (strict: none; one: a single pair, anywhere;
        some: each pair with probability 1/4; all2: every stamp carried by two fixes -- a 2 Hz receiver with a 1 s clock; runs: runs of
        1..5 equal stamps). ppat: which consecutive fixes share a position (distinct: none; pauses: each pair with probability 1/5,
        independently of the stamps; twin: exactly the pairs that share a stamp -- a doubled record; anti: only pairs that do not)."""
        t = self.rand_base(rng) if base is None else base
        if tpat == "strict":
            same = [False] * n
        elif tpat == "one":
            d = rng.randrange(1, n)
            same = [i == d for i in range(n)]
        elif tpat == "all2":
            same = [i % 2 == 1 for i in range(n)]
        elif tpat == "runs":
            same, i = [], 0
            while len(same) < n:
                same += [False] + [True] * rng.choice([0, 0, 1, 1, 2, 4])
            same = same[:n]
        else:
            same = [i > 0 and rng.random() < 0.25 for i in range(n)]
        same[0] = False
        if lattice:
            sc = rng.choice([0.5, 1.0, 1.0, 2.0])
            x, y = float(rng.randrange(-20, 21)), float(rng.randrange(-20, 21))
            z = float(rng.randrange(-8, 9))
            moves = [v for v in VECS if v != (0, 0)]
        else:
            x, y, z = rng.uniform(-1000, 1000), rng.uniform(-1000, 1000), rng.uniform(-50, 50)
        pts = []
        for i in range(n):
            if i > 0:
                if not same[i]:
                    t += (rng.choice([1, 2, 4, 8, 12, 20, 28, 56, 80]) * 125) if lattice else rng.randrange(1, 60000)
                still = {"distinct": False, "pauses": rng.random() < 0.2, "twin": same[i],
                         "anti": (not same[i]) and rng.random() < 0.25}[ppat]
                if not still:
                    if lattice:
                        vx, vy = rng.choice(moves)
                        x += sc * vx; y += sc * vy
                    else:
                        x += rng.uniform(-60, 60) or 1.0; y += rng.uniform(-60, 60)
                if not (still and ppat == "twin" and rng.random() < 0.5):     # (half of the doubled records are identical in z too)
                    z = (float(rng.randrange(-16, 17)) / rng.choice([1, 2, 4])) if lattice else rng.uniform(-50, 50)
            pts.append([x, y, z, t])
        return pts

    def every_leg_instants(self, rng, pts, grid_ms=125):
        """one instant strictly inside every leg of positive duration (or its end when the leg lasts one grid step), plus some stamps"""
        out = []
        for a, b in zip(pts, pts[1:]):
            gap = b[3] - a[3]
            if gap <= 0:
                continue
            k = gap // grid_ms
            out.append(a[3] + (rng.randrange(1, k) if k >= 2 else 1) * grid_ms if k >= 1 else b[3])
        for _ in range(rng.choice([0, 2, 5])):
            out.append(rng.choice(pts)[3])
        return sorted(out)

    def rand_long(self, rng, tier):
        lattice = rng.random() < 0.75
        n = rng.choice(self.LONG_N_QUICK) if tier == "quick" or rng.random() < 0.5 else rng.randrange(17, 201)
        tpat, ppat = rng.choice(self.TPATS), rng.choice(self.PPATS)
        pts = self.long_track(rng, n, lattice, tpat, ppat)
        pre = "long-" if lattice else "f-long-"
        g = 125 if lattice else 1
        dur = Fraction(pts[-1][3] - pts[0][3], 1000)
        c = rng.randrange(12)
        if c <= 2:      # every leg visited, in chronological order or not, as a list or as a reference track
            l = self.every_leg_instants(rng, pts, g)
            if rng.random() < 0.3:
                rng.shuffle(l)
            form = rng.choice(["list", "list", "track"])
            via = rng.choice(["resample", "resample", "interp"] + (["floordiv"] if form == "track" else []))
            return self.mk_case(pre + "legs", pts, 2, {form: l}, feat=rng.random() < 0.2, via=None if via == "resample" else via)
        if c == 3:      # a numeric step of about half the mean sampling interval
            step = max(Fraction(1, 8), Fraction(dur / (2 * n)).limit_denominator(8)) if dur > 0 else Fraction(1)
            return self.mk_case(pre + "temporal-num", pts, 2, {"num": float(step)})
        if c == 4:
            return self.mk_case(pre + "temporal-list", pts, 2, {"list": self.rand_instants(rng, pts, g)})
        if c == 5:      # a single instant, through sample()
            l = self.every_leg_instants(rng, pts, g)
            return self.mk_case(pre + "sample", pts, 2, {"list": [rng.choice(l)] if l else [pts[0][3]]}, via="sample")
        if c == 6:
            if rng.random() < 0.5:
                return self.mk_case(pre + "pow", pts, 2, None, rng.choice([n, 2 * n, n // 2, 16, 17]), 1, via="pow")
            return self.mk_case(pre + "npts", pts, rng.choice([1, 2]), None, rng.choice([None, n, 2 * n + 1, 17]), rng.choice([1, 2]))
        if c == 7:      # synchronize with another long track whose range overlaps
            m = rng.choice([17, 18, 24, 40])
            other = self.long_track(rng, m, lattice, rng.choice(self.TPATS), rng.choice(self.PPATS), base=pts[rng.randrange(n)][3])
            return self.mk_case(pre + "sync", pts, 2, None, via="sync", others=[other])
        if c == 8:      # collection // reference: each long track at the stamps of the first one's legs
            m = rng.choice([17, 20, 33])
            other = self.long_track(rng, m, lattice, rng.choice(self.TPATS), rng.choice(self.PPATS), base=pts[rng.randrange(n)][3])
            return self.mk_case(pre + "collfloordiv", pts, 2, {"track": self.every_leg_instants(rng, pts, g)}, via="collfloordiv", others=[other])
        # spatial: a step of about half the mean leg (so that every leg of positive length is visited), or a dividing one
        L = self.len2d(pts)
        if L == 0:
            return self.mk_case(pre + "spatial-num", pts, 1, {"num": 1.0})
        if lattice:
            step = float(L / rng.choice([n, 2 * n, 3 * n - 1])) if c == 9 else float(max(Fraction(1, 8), Fraction(L / (2 * n)).limit_denominator(8)))
        else:
            step = float(L) / rng.choice([n, 2 * n, 3 * n - 1]) if c == 9 else max(0.5, rng.uniform(0.3, 1.5) * float(L) / n)
        return self.mk_case(pre + "spatial-num", pts, 1, {"num": step}, feat=rng.random() < 0.2)

    def long_exhaustive(self, tier):
        """1 Hz zigzag tracks (legs 3-4-5, every fix distinct in x, y and z) of n fixes in which the fixes d and d+1 share a timestamp, for EVERY
        position d; and 2 Hz tracks with a 1 s clock (every stamp carried by two fixes), every n. Temporal: one instant a quarter of a second
        inside every leg, plus the repeated stamp itself; spatial: two samples per leg."""
        out = []
        base = 86400000 * 366
        sizes = (17, 20, 30) if tier == "quick" else (17, 18, 19, 20, 24, 30, 33, 40, 60, 64, 65, 100)

        def zig(secs, twin_at=None):
            pts, x, y = [], 0.0, 0.0
            for i, sec in enumerate(secs):
                if i > 0 and i != twin_at:
                    x += 3.0; y += (4.0 if i % 3 else -4.0)
                pts.append([x, y, float(i % 7) - 2.0 if i != twin_at else pts[-1][2], base + 1000 * sec])
            return pts
        for n in sizes:
            for d in range(1, n):
                secs = [i if i < d else i - 1 for i in range(n)]
                for twin in ((None, d) if (d % 3 == 0) else (None,)):
                    pts = zig(secs, twin)
                    inst = sorted(set([pts[i][3] + 250 for i in range(n - 1) if pts[i + 1][3] > pts[i][3]] + [pts[d][3]]))
                    out.append(self.mk_case("x-long-onedup-temporal", pts, 2, {"list": inst}))
                    if d % 3 != 1 or tier != "quick":
                        out.append(self.mk_case("x-long-onedup-spatial", pts, 1, {"num": 2.5}))
        for n in (range(17, 41) if tier == "quick" else range(17, 101)):
            pts = zig([i // 2 for i in range(n)])
            last = pts[-1][3]
            inst = [v for v in range(base + 500, last + 1, 500)]
            out.append(self.mk_case("x-long-2hz-temporal", pts, 2, {"list": inst}))
            out.append(self.mk_case("x-long-2hz-floordiv", pts, 2, {"track": inst[::2]}, via="floordiv"))
            out.append(self.mk_case("x-long-2hz-num", pts, 2, {"num": 0.25}))
        return out

    def rand_instants(self, rng, pts, grid_ms=125):
        t0, t1 = pts[0][3], pts[-1][3]
        span = max(t1 - t0, grid_ms)
        k = rng.choice([1, 2, 3, 5, 8, 12])
        out = []
        for _ in range(k):
            c = rng.random()
            if c < 0.25:
                out.append(rng.choice(pts)[3])                       # at an original stamp (incl. both ends)
            elif c < 0.35:
                out.append(t0 - rng.randrange(0, 5) * grid_ms)       # before / at the start
            elif c < 0.45:
                out.append(t1 + rng.randrange(0, 5) * grid_ms)       # at / after the end
            else:
                out.append(t0 + rng.randrange(0, span // grid_ms + 1) * grid_ms)
        out = [max(0, v) for v in out]
        out.sort()
        return out

    def rand_step_t(self, rng, pts):
        dur = Fraction(pts[-1][3] - pts[0][3], 1000)
        c = rng.random()
        if c < 0.35 and dur > 0:        # divides the duration
            return float(dur / rng.choice([1, 2, 2, 3, 4, 4, 5, 8]))
        if c < 0.5:
            return float(dur) + rng.choice([0.0, 0.125, 1.0])
        lo = max(dur / 40, Fraction(1, 8))
        v = lo + Fraction(rng.randrange(0, 64), 8) * max(1, int(dur / 60))
        return float(v)

    def rand_step_s(self, rng, pts):
        L = self.len2d(pts)
        c = rng.random()
        if L == 0:
            return rng.choice([0.5, 1.0, 3.0])
        if c < 0.35 and isinstance(L, Fraction):
            return float(L / rng.choice([1, 2, 4, 5, 8, 10]))
        if c < 0.45:
            return float(L) + rng.choice([0.0, 0.5, 3.0])
        lo = max(float(L) / 40, 0.125)
        return float(Fraction(lo).limit_denominator(8) + Fraction(rng.randrange(0, 48), 8)) or 0.5

    def cases(self, rng, tier):
        out = self.exhaustive()
        n = 900 if tier == "quick" else 12000
        for _ in range(n):
            pts = self.rand_track(rng)
            out.append(self.mk_case("temporal-num", pts, 2, {"num": self.rand_step_t(rng, pts)}, feat=rng.random() < 0.2))
            out.append(self.mk_case("temporal-list", pts, 2, {"list": self.rand_instants(rng, pts)}))
            ref = self.rand_instants(rng, pts)
            out.append(self.mk_case("temporal-track", pts, 2, {"track": sorted(set(ref))}))
            out.append(self.mk_case("spatial-num", pts, 1, {"num": self.rand_step_s(rng, pts)}, feat=rng.random() < 0.2))
        for _ in range(n // 3):
            pts = self.rand_track(rng)
            mode = rng.choice([1, 2])
            if rng.random() < 0.5:
                out.append(self.mk_case("npts", pts, mode, None, rng.choice([1, 2, 3, 4, 5, 7, 10, 16]), 1))
            else:
                out.append(self.mk_case("factor", pts, mode, None, None, rng.choice([1, 2, 3])))
        # float stream: arbitrary coordinates and millisecond stamps (Float instantiation of the model only)
        for _ in range(n // 2):
            pts = self.rand_track(rng, lattice=False)
            dur = (pts[-1][3] - pts[0][3]) / 1000.0
            c = rng.random()
            if c < 0.3:
                out.append(self.mk_case("f-temporal-num", pts, 2, {"num": max(0.05, rng.uniform(dur / 30, dur * 1.1))}))
            elif c < 0.5:
                out.append(self.mk_case("f-temporal-list", pts, 2, {"list": self.rand_instants(rng, pts, 1)}))
            elif c < 0.8:
                L = float(self.len2d(pts))
                out.append(self.mk_case("f-spatial-num", pts, 1, {"num": max(0.5, rng.uniform(L / 30, L * 1.1))}))
            else:
                out.append(self.mk_case("f-npts", pts, rng.choice([1, 2]), None, rng.choice([None, 2, 3, 6, 11]), rng.choice([1, 2])))
        # steps obtained by dividing the computed length / duration by a whole number (the everyday way of asking for n segments)
        for _ in range(n // 3):
            pts = self.rand_track(rng, lattice=rng.random() < 0.7)
            k = rng.randrange(1, 400)
            if rng.random() < 0.6:
                L = self.float_len2d(pts)
                if L > 0:
                    out.append(self.mk_case("spatial-div", pts, 1, {"num": L / k}))
            else:
                out.append(self.mk_case("temporal-div", pts, 2, {"num": (abs_time(pts[-1][3]) - abs_time(pts[0][3])) / min(k, 60)}))
        # histories: something cached or stored on the track object, then in-place edits, then resample()
        out += self.pre_exhaustive()
        for _ in range(n // 2):
            pts = self.rand_track(rng, n=rng.choice([2, 3, 4, 4, 5, 6, 8]))
            c = rng.random()
            if c < 0.6:
                pre = self.rand_pre(rng, pts)
                fin = apply_pre_pts(pts, pre)
                cs = self.mk_case("pre-spatial", pts, 1, {"num": self.rand_step_s(rng, fin)})
            elif c < 0.85:
                pre = self.rand_pre(rng, pts)
                fin = apply_pre_pts(pts, pre)
                cs = self.mk_case("pre-temporal", pts, 2, rng.choice([{"num": self.rand_step_t(rng, fin)}, {"list": self.rand_instants(rng, fin)}]))
            else:
                pre = self.rand_pre(rng, pts)
                cs = self.mk_case("pre-npts", pts, rng.choice([1, 2]), None, rng.choice([None, 2, 3, 5, 9]), rng.choice([1, 2]))
            cs["pre"] = pre
            out.append(cs)
        # edges and errors (the model mirrors them; the oracle applies only where the property's preconditions hold)
        for _ in range(n // 6):
            pts = self.rand_track(rng, n=rng.choice([1, 1, 2, 3, 4]))
            c = rng.randrange(7)
            if c == 0:
                out.append(self.mk_case("edge-ds<=0", pts, 1, {"num": rng.choice([0.0, -1.0, -0.5])}))
            elif c == 1:
                out.append(self.mk_case("edge-npts0", pts, rng.choice([1, 2]), None, 0, 1))
            elif c == 2:
                out.append(self.mk_case("edge-mode3", pts, 3, rng.choice([None, {"num": 1.0}]), rng.choice([None, 2]), 1, feat=True))
            elif c == 3:
                out.append(self.mk_case("edge-empty", [], rng.choice([1, 2]), rng.choice([None, {"num": 1.0}]), rng.choice([None, 0, 2]), 1))
            elif c == 4:   # duplicate stamps
                q = [list(p) for p in pts]
                if len(q) >= 2:
                    q[rng.randrange(1, len(q))][3] = q[0][3] if len(q) == 2 else q[1][3]
                    q.sort(key=lambda p: p[3])
                out.append(self.mk_case("edge-dupstamp", q, rng.choice([1, 2]), {"num": rng.choice([0.5, 1.0, 2.0])}))
            elif c == 5:
                out.append(self.mk_case("edge-one-fix", pts[:1], rng.choice([1, 2]), rng.choice([{"num": 1.0}, None]), None, 2))
            else:
                out.append(self.mk_case("edge-factor0", pts, rng.choice([1, 2]), None, None, 0))
        # degenerate requests and the other entry points that delegate to linear resampling
        out += self.degenerate_exhaustive()
        out += self.sync_exhaustive()
        for _ in range(n // 2):
            out.append(self.rand_degenerate(rng))
        for _ in range(n):
            out.append(self.rand_via(rng))
        # long tracks: sizes beyond every small-case threshold, repeated stamps / positions everywhere
        out += self.long_exhaustive(tier)
        for _ in range(n if tier == "quick" else n // 3):
            out.append(self.rand_long(rng, tier))
        if self.include_unsorted:
            for _ in range(n // 10):
                pts = self.rand_track(rng, n=rng.choice([3, 4, 5]))
                l = self.rand_instants(rng, pts)
                rng.shuffle(l)
                out.append(self.mk_case("temporal-list-unsorted", pts, 2, {"list": l}))
        return out

    # ------------------------------------------------------------------ helpers on cases
    def len2d(self, pts):
        """2D length: exact Fraction when every leg is an exact square root, else float"""
        tot, exact = Fraction(0), True
        for a, b in zip(pts, pts[1:]):
            r = Fraction(b[0] - a[0]) ** 2 + Fraction(b[1] - a[1]) ** 2
            if exact and is_sq(r):
                tot += fsqrt(r)
            else:
                exact = False
        if exact:
            return tot
        return sum(math.hypot(b[0] - a[0], b[1] - a[1]) for a, b in zip(pts, pts[1:]))

    def float_len2d(self, pts):
        """the 2D length as the code accumulates it in floats (S[i] = S[i-1] + sqrt(dx^2 + dy^2))"""
        tot = 0
        for a, b in zip(pts, pts[1:]):
            tot = tot + math.sqrt((b[0] - a[0]) ** 2 + (b[1] - a[1]) ** 2)
        return float(tot)

    def overshoots(self, case):
        """spatial mode, numeric step: the last abscissa int(L/ds)*ds, computed in floats, exceeds the float length L"""
        case = self.eff(case)
        d = case["delta"]
        if case["mode"] != 1 or d is None or "num" not in d or not d["num"] > 0:
            return False
        L = self.float_len2d(case["pts"])
        return int(L / d["num"]) * d["num"] > L

    def eff(self, case):
        """the case as the model and the oracle see it: final geometry, no history"""
        if not case.get("pre"):
            return case
        c = getattr(self, "_eff_cache", None)
        if c is not None and c[0] is case:
            return c[1]
        e = dict(case, pts=apply_pre_pts(case["pts"], case["pre"]))
        del e["pre"]
        self._eff_cache = (case, e)
        return e

    def apply_pre_track(self, tr, pre):
        """the same history on the real Track object"""
        from tracklib.algo import cinematics as C
        for op in pre or []:
            n = len(tr)
            k = op[0]
            if k == "abscurv" and n:
                C.computeAbsCurv(tr)
            elif k == "speed" and n >= 3:
                C.estimate_speed(tr)
            elif k == "heading" and n >= 2:
                C.estimate_heading(tr)
            elif k == "feat" and n:
                tr.createAnalyticalFeature(op[1], feat_values(op[2], n))
            elif k in ("setx", "sety", "setz") and n:
                pos = tr.getObs(op[1] % n).position
                {"setx": pos.setX, "sety": pos.setY, "setz": pos.setZ}[k](float(op[2]))
            elif k == "scale":
                tr.scale(op[1])
            elif k == "translate":
                tr.translate(op[1], op[2], op[3])
            elif k == "remove" and n >= 2:
                tr.removeObs(op[1] % n)
            elif k == "uid":
                tr.uid = op[1]; tr.tid = op[1]
            elif k == "base":
                tr.base = self.ENU(op[1], op[2], 0.0)
            elif k == "nodata":
                tr.no_data_value = op[1]
            elif k == "zone" and n:
                tr.setTimeZone(op[1])
            elif k == "copy":
                tr = tr.copy()
        return tr

    def len3d_exact(self, pts):
        return all(is_sq(Fraction(b[0] - a[0]) ** 2 + Fraction(b[1] - a[1]) ** 2 + Fraction(b[2] - a[2]) ** 2) for a, b in zip(pts, pts[1:]))

    def all_pts(self, case):
        return [case["pts"]] + list(case.get("others") or [])

    def rat_ok(self, case):
        """may the Rat instantiation be run on this case? (everything dyadic, square roots exact)"""
        if case["kind"].startswith("f-"):
            return False
        for pts in self.all_pts(case):
            if any(p[3] % 125 for p in pts):
                return False
            if not all(is_sq(Fraction(b[0] - a[0]) ** 2 + Fraction(b[1] - a[1]) ** 2) for a, b in zip(pts, pts[1:])):
                return False
        if case.get("via") in ("sync", "syncself"):
            return True
        d = case["delta"]
        if d is None:
            return False            # delta = (1+1e-8)*L/npts is not dyadic: Float instantiation only
        if "num" in d:
            return dyadic8(d["num"])
        return all(v % 125 == 0 for v in (self.instants(case) or []))

    def instants(self, case):
        """the instants of a list / reference-track / other request (None for a number or no delta)"""
        d = case["delta"]
        if not d or "num" in d:
            return None
        if "self" in d:
            return [p[3] for p in case["pts"]]
        return d.get("list", d.get("track", d.get("other")))

    # ------------------------------------------------------------------ what a call asks of each track
    def sync_request(self, a, b):
        """the instants synchronize(a, b) has to request: the stamps of either track lying strictly inside the common
        time range (max of the first stamps, min of the last stamps), in chronological order, with multiplicity"""
        if not a or not b:
            return None
        lo, hi = max(a[0][3], b[0][3]), min(a[-1][3], b[-1][3])
        return sorted(p[3] for p in a + b if lo < p[3] < hi)

    def subcases(self, case):
        """[(label, plain Track.resample case)] — one per track the call resamples: what the property's oracle is asked"""
        c = getattr(self, "_sub_cache", None)
        if c is not None and c[0] is case:
            return c[1]
        r = self._subcases(case)
        self._sub_cache = (case, r)
        return r

    def _subcases(self, case):
        via = case.get("via", "resample")
        d = case["delta"]

        def one(pts, mode, delta, npts=None, factor=1, **kw):
            return dict({"kind": case["kind"], "pts": pts, "mode": mode, "delta": delta, "npts": npts, "factor": factor,
                         "feat": case["feat"]}, **kw)
        if via == "resample":
            e = self.eff(case)
            if d is not None and "self" in d:
                e = dict(e, delta={"track": [p[3] for p in e["pts"]]})
            return [("", e)]
        if d is not None and "self" in d:
            d = {"track": [p[3] for p in case["pts"]]}
        if via == "interp":
            return [("", one(case["pts"], case["mode"], d))]
        if via in ("floordiv", "sample"):
            return [("", one(case["pts"], 2, d))]
        if via == "pow":
            return [("", one(case["pts"], 2, None, npts=case["npts"]))]
        if via == "mul":
            return [("", one(case["pts"], 1, None, factor=case["factor"]))]
        if via == "sync":
            a, b = case["pts"], case["others"][0]
            L = self.sync_request(a, b)
            if L is None:
                return [("track 1: ", one(a, 3, None)), ("track 2: ", one(b, 3, None))]      # IndexError: no demand
            return [("track %d: " % (k + 1), one(q, 2, {"list": sorted(set(L))}, sync_mult=L)) for k, q in enumerate((a, b))]
        if via == "syncself":
            return []       # the same object twice: the second resampling reads the result of the first (model only)
        if via == "coll":
            return [("track %d: " % (k + 1), one(q, case["mode"], d)) for k, q in enumerate(self.all_pts(case))]
        if via == "collfloordiv":
            return [("track %d: " % (k + 1), one(q, 2, d)) for k, q in enumerate(self.all_pts(case))]
        raise ValueError("unknown via %r" % via)

    def describe(self, case):
        pre = case.get("pre")
        subs = self.subcases(case)
        t = self._describe(subs[0][1]) if subs else {"kind": case["kind"], "n": len(case["pts"]), "mode": 2}
        t["kind"] = case["kind"]
        t["scalar"] = "rat+float" if self.rat_ok(self.eff(case)) else "float"
        t["via"] = case.get("via", "resample")
        if pre is not None:
            t["pre"] = "+".join(op[0] if op[0] != "feat" else "feat:" + op[1] for op in pre) or "-"
        return t

    def _describe(self, case):
        pts = case["pts"]
        n = len(pts)
        t = {"kind": case["kind"], "n": n if n <= 8 else "9-16" if n <= 16 else "17-32" if n <= 32 else "33-64" if n <= 64 else "65-200",
             "mode": case["mode"]}
        nt = sum(1 for a, b in zip(pts, pts[1:]) if a[3] == b[3])
        np_ = sum(1 for a, b in zip(pts, pts[1:]) if a[:2] == b[:2])
        nb = sum(1 for a, b in zip(pts, pts[1:]) if a[3] == b[3] and a[:2] == b[:2])
        t["same_stamp_pairs"] = "0" if nt == 0 else "1" if nt == 1 else "2+" if 2 * nt < n - 1 else "half+"
        t["same_position_pairs"] = "0" if np_ == 0 else "1" if np_ == 1 else "2+"
        if nb:
            t["same_stamp_and_position"] = "yes"
        e = self.expected(case)
        if e is not None:
            t["expected_len"] = min(len(e["req"]), 12)
        return t

    def nontrivial(self, case):
        for _, sc in self.subcases(case):
            e = self.expected(sc)
            if e is not None and len(sc["pts"]) >= 3 and len(e["req"]) >= 2:
                return True
        return False

    # ------------------------------------------------------------------ implementation
    def build(self, pts, feat=False):
        tr = self.Track([])
        for (x, y, z, ms) in pts:
            f = fields_of_ms(ms)
            tr.addObs(self.Obs(self.ENU(x, y, z), self.T(f[0], f[1], f[2], f[3], f[4], f[5], f[6])))
        if feat and len(pts) > 0:
            tr.createAnalyticalFeature("speedlike", [float(i) for i in range(len(pts))])
        return tr

    def hangs(self, case):
        """prepareTimeSampling loops forever on a non-positive step (`while 1` ... `if time > tfin: break`): never call it"""
        if case["mode"] != 2:
            return False
        d = case["delta"]
        if d is not None:
            if not ("num" in d and not d["num"] > 0):
                return False
            if not case["pts"]:
                return False                     # `T[0]` raises IndexError before the loop is reached
            # a non-positive step whose FIRST round already passes the last stamp ends the loop at once (a track whose last
            # stamp is before its first): `time = tini; time += step; if time > tfin: break`
            tini = self.T(*fields_of_ms(case["pts"][0][3])).toAbsTime()
            tfin = self.T(*fields_of_ms(case["pts"][-1][3])).toAbsTime()
            return not (tini + d["num"] > tfin)
        if not case["pts"]:
            return False
        n = case["npts"] if case["npts"] is not None else len(case["pts"]) * case["factor"]
        return n != 0 and not (case["pts"][-1][3] - case["pts"][0][3]) / n > 0

    def make_delta(self, d, tr):
        """the `delta` argument as Python receives it"""
        if d is None:
            return None
        if "num" in d:
            return d["num"]                     # int or float, as stored in the case
        if "list" in d:
            return [self.T(*fields_of_ms(ms)) for ms in d["list"]]
        if "track" in d:
            return self.build([[float(i), 0.0, 0.0, ms] for i, ms in enumerate(d["track"])])
        if "self" in d:
            return tr                           # the reference is the track itself
        return tuple(self.T(*fields_of_ms(ms)) for ms in d["other"])     # neither a number, a list nor a Track

    def snapshot_delta(self, delta):
        """a `delta` argument seen at the door of Track.resample, as a case's "delta" """
        stamp = lambda t: ms_of_fields([t.year, t.month, t.day, t.hour, t.min, t.sec, t.ms])
        try:
            if delta is None:
                return None
            if isinstance(delta, (int, float)):
                return {"num": delta}
            if isinstance(delta, list):
                return {"list": [stamp(t) for t in delta]}
            if isinstance(delta, self.Track):
                return {"track": [stamp(delta.getObs(i).timestamp) for i in range(len(delta))]}
        except Exception:
            pass
        return {"other": []}

    def spy_resample(self, tracks, call):
        """run `call()` and return, per track of `tracks`, the outermost Track.resample request it received:
        [delta, mode, npts, factor] or None when Track.resample was not called on it"""
        orig = self.Track.resample
        seen = {}

        def spy(this, delta=None, algo=1, mode=1, npts=None, factor=1):
            if id(this) not in seen:
                seen[id(this)] = [self.snapshot_delta(delta), mode, npts, factor]
            return orig(this, delta, algo, mode, npts, factor)
        self.Track.resample = spy
        try:
            call()
        finally:
            self.Track.resample = orig
        return [seen.get(id(t)) for t in tracks]

    def dump(self, tr):
        pts = []
        for i in range(len(tr)):
            pts.append(self.dump_obs(tr.getObs(i)))
        return {"pts": pts, "feat": sorted(tr.getListAnalyticalFeatures())}

    def dump_obs(self, o):
        ts = o.timestamp
        f = [ts.year, ts.month, ts.day, ts.hour, ts.min, ts.sec, ts.ms]
        ok = all(isinstance(v, int) for v in f) and wellformed(f)
        return [float(o.position.getX()), float(o.position.getY()), float(o.position.getZ()), ms_of_fields(f) if ok else None, f]

    CALL_LIMIT_S = 6        # seconds of CPU time (not wall: immune to machine load) a call may take ...
    CALL_LIMIT_KB = 1 << 20  # ... and growth of the resident set (1 GiB) it may cause, before it is reported as raising TimeoutError
    # (the heaviest generated call -- some 60 000 output observations -- needs about 2 s and a few tens of MB)

    def impl(self, case):
        if any(self.hangs(sc) for _, sc in self.subcases(case)):
            return {"err": "err:nonterm"}
        # the known infinite loop (non-positive step) is never entered; any other call that does not come back -- e.g. a changed
        # front end that turns an empty request into a zero step -- must not hang the check: it is interrupted and reported
        import signal, threading, resource
        if threading.current_thread() is not threading.main_thread():
            return self._impl(case)
        rss0 = resource.getrusage(resource.RUSAGE_SELF).ru_maxrss
        ticks = [0]

        def on_alarm(signum, frame):
            ticks[0] += 1
            if ticks[0] * 0.25 >= self.CALL_LIMIT_S:
                raise TimeoutError("the call did not return within %d s of CPU time" % self.CALL_LIMIT_S)
            if resource.getrusage(resource.RUSAGE_SELF).ru_maxrss - rss0 > self.CALL_LIMIT_KB:
                raise TimeoutError("the call did not return and has allocated more than %d MB" % (self.CALL_LIMIT_KB >> 10))
        old = signal.signal(signal.SIGVTALRM, on_alarm)
        signal.setitimer(signal.ITIMER_VIRTUAL, 0.25, 0.25)
        try:
            return self._impl(case)
        finally:
            signal.setitimer(signal.ITIMER_VIRTUAL, 0, 0)
            signal.signal(signal.SIGVTALRM, old)

    def _impl(self, case):
        via = case.get("via", "resample")
        tr = self.build(case["pts"], case["feat"])
        others = [self.build(q, k % 2 == 1) for k, q in enumerate(case.get("others") or [])]
        geom_ok = True
        if case.get("pre"):
            tr = self.apply_pre_track(tr, case["pre"])
            want = self.eff(case)["pts"]
            have = [[float(tr.getX(i)), float(tr.getY(i)), float(tr.getZ(i))] for i in range(len(tr))]
            geom_ok = len(have) == len(want) and all(close(h, w[:3], 1e-12) for h, w in zip(have, want))
        delta = self.make_delta(case["delta"], tr)
        if via == "resample":
            tr.resample(delta=delta, algo=self.I.ALGO_LINEAR, mode=case["mode"], npts=case["npts"], factor=case["factor"])
            out = self.dump(tr)
        elif via == "interp":           # the module-level dispatcher, called directly
            self.I.resample(tr, delta, self.I.ALGO_LINEAR, case["mode"])
            out = self.dump(tr)
        elif via in ("floordiv", "pow", "mul", "sample"):       # these return a new object and must leave the track alone
            before = self.dump(tr)
            if via == "floordiv":
                out = self.dump(tr // delta)
            elif via == "pow":
                out = self.dump(tr ** case["npts"])
            elif via == "mul":
                out = self.dump(tr * case["factor"])
            else:
                out = {"pts": [self.dump_obs(self.I.sample(tr, delta[0]))], "feat": []}
            if self.dump(tr) != before:
                out["orig_changed"] = True
        elif via == "sync":
            # what synchronize() asks of each track is recorded at the door of Track.resample, so that the oracle can hold the
            # result against the property for exactly that request (which instants synchronize chooses is not C05's business)
            reqs = self.spy_resample([tr, others[0]], lambda: self.I.synchronize(tr, others[0]))
            out = {"tracks": [self.dump(tr), self.dump(others[0])], "requests": reqs}
        elif via == "syncself":
            self.I.synchronize(tr, tr)
            out = self.dump(tr)
        elif via == "coll":
            coll = self.Coll([tr] + others)
            coll.resample(delta, self.I.ALGO_LINEAR, case["mode"])
            out = {"tracks": [self.dump(t) for t in coll]}
        elif via == "collfloordiv":
            coll = self.Coll([tr] + others)
            before = [self.dump(t) for t in coll]
            res = coll // delta
            out = {"tracks": [self.dump(t) for t in res]}
            if [self.dump(t) for t in coll] != before:
                out["orig_changed"] = True
        else:
            raise ValueError("unknown via %r" % via)
        if not geom_ok:
            out["geom_mismatch"] = True     # the harness's own replay of the history disagrees with the track: harness bug
        return out

    # ------------------------------------------------------------------ model
    MULTI = ("sync", "coll", "collfloordiv")       # calls that resample several tracks

    def req_line(self, case, sc):
        num = (lambda v: ratstr(Fraction(v))) if sc == "q" else fbits
        tnum = (lambda ms: ratstr(Fraction(ms, 1000))) if sc == "q" else (lambda ms: fbits(abs_time(ms)))
        via = case.get("via", "resample")
        e = self.eff(case)

        def track(pts, feat):
            return (";".join(",".join([num(p[0]), num(p[1]), num(p[2]), tnum(p[3])]) for p in pts) or "_") + "^" + (
                "speedlike" if feat and pts else "_")
        tracks = [track(e["pts"], case["feat"])] + [track(q, k % 2 == 1) for k, q in enumerate(case.get("others") or [])]
        d = case["delta"]
        if d is None:
            ds = "none"
        elif "num" in d:
            ds = "num:" + num(d["num"])
        elif "other" in d:
            ds = "other"
        else:
            ds = ("list:" if "list" in d else "track:") + (",".join(tnum(ms) for ms in self.instants(e)) or "_")
        return "C05.call %s %s %s %s %d %s %s %d" % (sc, via, num(G), "|".join(tracks), case["mode"], ds,
                                                    "none" if case["npts"] is None else case["npts"], case["factor"])

    def requests(self, case):
        ls = [self.req_line(case, "f")]
        if self.rat_ok(self.eff(case)):
            ls.append(self.req_line(case, "q"))
        return ls

    def decode_one(self, case, reply, sc):
        if reply.startswith("err:"):
            return {"err": reply}
        if not reply.startswith("ok "):
            raise ValueError("driver replied %r" % reply[:80])
        num = (lambda s: float(Fraction(s))) if sc == "q" else bitsf
        tracks = []
        for t in reply[3:].split("#"):
            body, feats = t.split("|")
            pts = []
            for tok in ([] if body == "_" else body.split(";")):
                v = tok.split(",")
                # v[4:] = <stampOf> (7 fields | neg) then <stampG> (7 fields | nofuel): ObsTime.readUnixTime mirrored on the scalar t
                rest = v[5:] if v[4] == "neg" else v[11:]
                if rest == ["nofuel"]:
                    g = None
                elif len(rest) == 7:
                    g = list(map(int, rest))
                else:
                    raise ValueError("driver replied the point %r" % tok[:80])
                if v[4] == "neg":
                    pts.append([num(v[0]), num(v[1]), num(v[2]), None, num(v[3]), g, None])
                else:
                    f = list(map(int, v[4:11]))
                    pts.append([num(v[0]), num(v[1]), num(v[2]), ms_of_fields(f), num(v[3]), g, f])
            tracks.append({"pts": pts, "feat": [] if feats == "_" else feats.split(",")})
        if case.get("via") in self.MULTI:
            return {"tracks": tracks}
        if len(tracks) != 1:
            raise ValueError("driver replied %d tracks" % len(tracks))
        return tracks[0]

    def decode(self, case, replies):
        out = {"f": self.decode_one(case, replies[0], "f")}
        if len(replies) > 1:
            out["q"] = self.decode_one(case, replies[1], "q")
        return out

    def compare(self, case, impl_out, model_out):
        if isinstance(impl_out, dict) and impl_out.get("geom_mismatch"):
            return "harness: geometry after the history differs from the harness's own computation"
        if isinstance(impl_out, dict) and impl_out.get("orig_changed"):
            return "the operator modified the track it was applied to (the model returns a new track and leaves the operand as it is)"
        for sc, m in model_out.items():
            self._sc = sc
            msg = self.compare_one(case, impl_out, m)
            if msg:
                return "[%s model] %s" % ("Rat" if sc == "q" else "Float", msg)
        return None

    def compare_one(self, case, a, m):
        if "err" in a or "err" in m:
            if a.get("err") != m.get("err"):
                return "impl=%s model=%s" % (str(a)[:300], str(m)[:300])
            return None
        if ("tracks" in a) != ("tracks" in m):
            return "impl=%s model=%s" % (str(a)[:300], str(m)[:300])
        if "tracks" in a:
            if len(a["tracks"]) != len(m["tracks"]):
                return "number of tracks: impl=%d model=%d" % (len(a["tracks"]), len(m["tracks"]))
            for k, (x, y) in enumerate(zip(a["tracks"], m["tracks"])):
                msg = self.compare_track(x, y, self.carried_first(case, k))
                if msg:
                    return "track %d: %s" % (k + 1, msg)
            return None
        return self.compare_track(a, m, self.carried_first(case, 0))

    def carried_first(self, case, k):
        """spatial mode: the first output is `track.getFirstObs().copy()` -- it CARRIES the ObsTime object of the first fix, it is
        not re-read by readUnixTime (in floats readUnixTime(toAbsTime()) of a stamp with ms = 991 may be ...990; found by the exact
        comparison of the fields). Returns the calendar fields of the first fix of input track k in spatial mode, else None.
        (In exact arithmetic both are the same stamp: C03 readUnixG_toAbsG, so S2' holds as stated.)"""
        via = case.get("via")
        if not (via == "mul" or (case.get("mode") == 1 and via in (None, "resample", "interp", "coll"))):
            return None
        e = self.eff(case)
        inputs = [e["pts"]] + list(e.get("others") or [])
        if k >= len(inputs) or not inputs[k]:
            return None
        return fields_of_ms(inputs[k][0][3])

    def compare_track(self, a, m, first=None):
        if a["feat"] != m["feat"]:
            return "feature table: impl=%s model=%s" % (a["feat"], m["feat"])
        if len(a["pts"]) != len(m["pts"]):
            return "lengths: impl=%d model=%d" % (len(a["pts"]), len(m["pts"]))
        for i, (p, q) in enumerate(zip(a["pts"], m["pts"])):
            for c in range(3):
                if not close(p[c], q[c], self.rel_tol, 1e-9):
                    return "point %d coordinate %d: impl=%r model=%r" % (i, c, p[c], q[c])
            if p[3] is None or q[3] is None or abs(p[3] - q[3]) > 1:
                return "point %d stamp: impl=%r (%s) model=%r" % (i, p[3], p[4], q[3])
            # the stamp the mirrored ObsTime.readUnixTime computes on the model's own time (stampG = C03's readUnixG):
            # Float model: the same doubles, the same operations -> the seven fields of the real observation EXACTLY
            # (no millisecond of tolerance); Rat model: theorem stamp_is_readUnixTime (S3) -> the fields of stampOf exactly
            if getattr(self, "_sc", "f") == "f":
                if (first if (i == 0 and first is not None) else q[5]) != p[4]:
                    return "point %d stamp fields: impl=%s model readUnixTime(%r)=%s" % (i, p[4], q[4], q[5])
            elif q[5] != q[6]:
                return "point %d: model stampG=%s differs from model stampOf=%s at t=%r (theorem S3)" % (i, q[5], q[6], q[4])
        return None

    # ------------------------------------------------------------------ oracle
    def expected(self, case):
        """what the property demands, computed independently (exact rational arithmetic + bisect):
        {"req": samples that must be present, "opt": at most one further sample whose presence is decided by
        floating-point rounding at the end of the range}; a sample is a list of four admissible intervals
        [lo, hi] for x, y, z, t_ms. None where the property's preconditions do not hold (then only the
        correspondence is checked).

        Declared tolerances: 1e-9 x (largest coordinate) on positions, 1 ms on stamps, plus -- on inputs where Python's
        float arithmetic on the abscissas is not exact -- the image of the rounding budget `tau` of the abscissa
        (instant or curvilinear abscissa) through the interpolant. Where the track pauses (repeated position) the
        spatial interpolant is multi-valued in z and t at that abscissa: any value of the pause is admissible."""
        c = getattr(self, "_exp_cache", None)
        if c is not None and c[0] is case:
            return c[1]
        e = self._expected(case)
        self._exp_cache = (case, e)
        return e

    @staticmethod
    def _param_lo(V, w):
        r = bisect.bisect_left(V, w)                 # first r with V[r] >= w
        if r == 0:
            return Fraction(0)
        if r == len(V):
            return Fraction(len(V) - 1)
        return (r - 1) + (w - V[r - 1]) / (V[r] - V[r - 1])      # V[r-1] < w <= V[r]

    @staticmethod
    def _param_hi(V, w):
        r = bisect.bisect_right(V, w)                # first r with V[r] > w
        if r == len(V):
            return Fraction(len(V) - 1)
        if r == 0:
            return Fraction(0)
        return (r - 1) + (w - V[r - 1]) / (V[r] - V[r - 1])      # V[r-1] <= w < V[r]

    @staticmethod
    def _value(A, p):
        i = int(p)
        if i >= len(A) - 1:
            return A[-1]
        return A[i] + (p - i) * (A[i + 1] - A[i])

    def _expected(self, case):
        """`delta is None` (npts / factor): the property does not say which step the library derives from a number of points.
        The expectation returned here assumes the step this tree derives, (1+1e-8) x (duration | 3D length) / npts, and is marked
        "derived": it serves the input histogram (`describe`, `nontrivial`) and says whether the property's preconditions hold
        (an exception is then judged); the OUTPUT of such a call is judged by `spec_derived`, for whatever constant step it exhibits."""
        pts, mode, d = case["pts"], case["mode"], case["delta"]
        if d is not None or mode not in (1, 2) or len(pts) < 2:
            return self._expected_d(case, d)
        n = case["npts"] if case["npts"] is not None else len(pts) * case["factor"]
        if n <= 0:
            return None
        if mode == 2:
            d = {"num": float(Fraction(G) * Fraction(pts[-1][3] - pts[0][3], 1000) / n)}
        else:
            if all(a[:2] == b[:2] for a, b in zip(pts, pts[1:])):
                return None     # a 2D polyline of zero length exhibits no step: no demand
            L3 = sum(math.sqrt((b[0] - a[0]) ** 2 + (b[1] - a[1]) ** 2 + (b[2] - a[2]) ** 2) for a, b in zip(pts, pts[1:]))
            d = {"num": G * L3 / n}
        e = self._expected_d(case, d)
        if e is not None:
            e["derived"] = True
        return e

    def _expected_d(self, case, d, kerr=Fraction(0)):
        """the expectation for the explicit request `d` (`kerr`: further rounding budget of the abscissa of sample k, per unit of k:
        the uncertainty of a step recovered from the output)"""
        pts, mode = case["pts"], case["mode"]
        if mode not in (1, 2) or len(pts) < 2:
            return None
        T = [Fraction(p[3], 1000) for p in pts]
        if any(b < a for a, b in zip(T, T[1:])):
            return None         # not chronological: outside the property
        # Stamps that never decrease but repeat (a receiver logging faster than its clock resolution, a doubled record) keep
        # the piecewise-linear interpolant well defined IN THE ORDER OF THE FIXES: an instant t with T[j-1] < t <= T[j] lies
        # between the fixes j-1 and j of the track as given. At an instant that IS a repeated stamp the interpolant jumps
        # (from the first to the last fix carrying that stamp): any value of the jump is admissible (validated, not compared).
        if d is None:
            return None
        if "other" in d:
            return None         # neither a number, a list nor a Track: outside the forms the property quantifies over
        cols = [[Fraction(p[c]) for p in pts] for c in range(3)] + [[t * 1000 for t in T]]
        exact = self.rat_ok(case) and case["delta"] is d      # Python's float arithmetic on the abscissas (instants / curvilinear) is exact
        scale = max([1.0] + [abs(v) for p in pts for v in p[:3]])
        num_step = True
        if mode == 2:
            V = T
            ulp = math.ulp(float(T[-1]))
            if "num" in d:
                step = Fraction(d["num"])
                if step <= 0:
                    return None
                K = int((T[-1] - T[0]) / step)
                tau = Fraction(0) if exact else Fraction((K + 3) * ulp)     # K+1 rounded additions
                req = [T[0] + k * step for k in range(1, K + 2)]
            else:
                tau = Fraction(0) if exact else Fraction(2 * ulp)           # toAbsTime rounds sec + ms/1000.0
                req = [Fraction(ms, 1000) for ms in self.instants(case)]
                num_step = False
        else:
            if "num" not in d:
                return None
            ds = Fraction(d["num"])
            if ds <= 0:
                return None
            V = [Fraction(0)]
            for a, b in zip(pts, pts[1:]):
                r = Fraction(b[0] - a[0]) ** 2 + Fraction(b[1] - a[1]) ** 2
                V.append(V[-1] + (fsqrt(r) if is_sq(r) else Fraction(math.sqrt(r))))
            N = int(V[-1] / ds)
            tau = Fraction(0) if exact else Fraction(4 * len(pts) * math.ulp(float(V[-1])))
            req = [k * ds for k in range(1, N + 2)]
        base = [1e-9 * scale] * 3 + [1.001]
        out = {"req": [], "opt": []}
        if mode == 1:
            out["req"].append([[float(cols[c][0]) - base[c], float(cols[c][0]) + base[c]] for c in range(4)])
        tau0 = tau
        for k, v in enumerate(req, 1):
            tau = tau0 + k * kerr
            optional = False
            if not num_step:
                # instants of a list are read from stamps exactly as the track's own: no rounding at the two ends
                if not (V[0] < v <= V[-1]):
                    continue
            else:
                if v > V[-1] + tau:
                    continue
                if v > V[-1] or (tau > 0 and v > V[-1] - tau):
                    optional = True
            plo = self._param_lo(V, max(V[0], v - tau))
            phi = self._param_hi(V, min(V[-1], v + tau))     # = plo unless v (+- tau) meets a vertex / a repeated abscissa
            if phi < plo:
                phi = plo
            params = [plo, phi] + [Fraction(i) for i in range(int(plo) + 1, int(phi) + 1)]
            smp = []
            for c in range(4):
                if mode == 2 and c == 3:
                    smp.append([float((v - tau) * 1000) - base[3], float((v + tau) * 1000) + base[3]])   # stamped with the instant
                    continue
                vals = [self._value(cols[c], p) for p in params]
                smp.append([float(min(vals)) - base[c], float(max(vals)) + base[c]])
            (out["opt"] if optional else out["req"]).append(smp)
        return out

    def spec(self, case, out):
        """the property's oracle, asked once per track the call resamples (see `subcases`)"""
        subs = self.subcases(case)
        via = case.get("via", "resample")
        if "err" in out:
            exps = [self.expected(sc) for _, sc in subs]
            if not subs or any(e is None for e in exps):
                return None             # some track is outside the property's preconditions: no demand on the call
            if via == "sample" and not exps[0]["req"]:
                return None             # sample() at an instant outside (tini, tfin]: the property does not say what it returns
            return "raised %s (%s) on %s whose stamps never decrease" % (
                out["err"], out.get("detail", ""), "tracks" if len(subs) > 1 else "a track")
        outs = out["tracks"] if "tracks" in out else [out]
        if via == "sync" and out.get("requests"):
            # the property, for the request each track actually received (with its multiplicities)
            subs = [(label, dict(sc, mode=r[1], delta=r[0], npts=r[2], factor=r[3], sync_mult=None) if r is not None else sc)
                    for (label, sc), r in zip(subs, out["requests"])]
        if not subs:
            return None
        if len(outs) != len(subs):
            return "the call returned %d tracks for %d" % (len(outs), len(subs))
        for (label, sc), o in zip(subs, outs):
            msg = self.spec_one(sc, o)
            if msg:
                return label + msg
        return None

    @staticmethod
    def check_sample(what, i, g, e):
        for c in range(3):
            if not (e[c][0] <= g[c] <= e[c][1]):
                return "%s sample %d: %s = %r, the interpolant gives %r" % (what, i, "xyz"[c], g[c], (e[c][0] + e[c][1]) / 2)
        if g[3] is None:
            return "%s sample %d carries the malformed stamp %s" % (what, i, g[4])
        if not (e[3][0] <= g[3] <= e[3][1]):
            return "%s sample %d is stamped %d ms, expected %s ms" % (what, i, g[3], (e[3][0] + e[3][1]) / 2)
        return None

    def spec_one(self, case, out):
        exp = self.expected(case)
        if exp is None:
            return None
        got = out["pts"]
        what = "temporal" if case["mode"] == 2 else "spatial"
        want = exp["req"]
        mult = case.get("sync_mult")
        if mult is not None:
            # synchronize(): an instant that is a stamp of both tracks may be requested -- hence answered -- once or twice
            # (the property leaves that to synchronize); every other instant exactly once, in chronological order
            uniq = sorted(set(mult))
            assert len(uniq) == len(want) and not exp["opt"]
            cnt = [mult.count(v) for v in uniq]

            def match(i, k):
                if k == len(want):
                    return None if i == len(got) else "synchronize: %d observations for %d instants strictly inside the common time range" % (len(got), len(want))
                if i >= len(got):
                    return "synchronize: %d observations for %d instants strictly inside the common time range" % (len(got), len(want))
                err = self.check_sample(what, i, got[i], want[k])
                if err:
                    return err
                r = match(i + 1, k + 1)
                if r is not None and cnt[k] >= 2 and i + 1 < len(got) and self.check_sample(what, i + 1, got[i + 1], want[k]) is None:
                    if match(i + 2, k + 1) is None:
                        return None
                return r
            return match(0, 0)
        if exp.get("derived"):
            return self.spec_derived(case, got)
        return self.judge(case, got, exp)

    def judge(self, case, got, exp):
        """the observations `got` against the expectation `exp` of an explicit request"""
        what = "temporal" if case["mode"] == 2 else "spatial"
        want = exp["req"]
        if len(got) != len(want):
            if len(got) == len(want) + len(exp["opt"]):
                want = want + exp["opt"]
            else:
                return "%s resampling returned %d observations, the property demands %d%s%s" % (
                    what, len(got), len(want), " (or %d: the last one is within rounding of the end)" % (len(want) + 1) if exp["opt"] else "",
                    " (no requested instant lies after the first and not after the last original timestamp)" if not want and case["mode"] == 2 else "")
        for i, (g, e) in enumerate(zip(got, want)):
            err = self.check_sample(what, i, g, e)
            if err:
                return err
        if case["mode"] == 1:
            st = [g[3] for g in got]
            if any(b < a for a, b in zip(st, st[1:])):
                return "spatial resampling: timestamps decrease: %s" % st
        return None

    # ---- `delta is None` (npts= / factor= / track ** n / track * k): the statement fixes the result FOR A STEP; how a step is derived
    # from a number of points is the library's choice (3D or 2D length, with or without a guard factor, ...). The output is held
    # against the statement for the constant step it exhibits itself: the step is recovered from one output observation (its
    # position on the original polyline) and the WHOLE output -- count included -- must then be the property's answer for that
    # step. Which step the library derives is the business of the correspondence with the model (theorem `frontend`).
    def spec_derived(self, case, got):
        pts, mode = case["pts"], case["mode"]
        what = "temporal" if mode == 2 else "spatial"
        scale = max([1.0] + [abs(v) for p in pts for v in p[:3]])
        tol2 = Fraction(4e-9 * scale) ** 2
        if mode == 1 and not got:
            return "spatial resampling by number of points returned no observation: the first fix is demanded"
        for i, g in enumerate(got):
            if g[3] is None:
                return "%s sample %d carries the malformed stamp %s" % (what, i, g[4])
        if mode == 1 and len(got) == 1:
            # a step longer than the 2D polyline: the first fix alone
            return self.judge(case, got, self._expected_d(case, {"num": 2 * float(self.len2d(pts)) + 1.0}))
        if mode == 2 and not got:
            return None         # a step longer than the duration: no instant is requested inside (tini, tfin]
        P = [[Fraction(v) for v in p[:3]] for p in pts]
        T = [Fraction(p[3], 1000) for p in pts]
        cands, kerr = [], Fraction(16 * math.ulp(scale))

        def project(g, a, b, dims):
            """(fraction in [0, 1] of the closest point of the leg a-b to g, is g within tolerance of the leg) in the first `dims` coordinates"""
            dv = [b[c] - a[c] for c in range(dims)]
            d2 = sum(x * x for x in dv)
            if d2 == 0:
                return None, False
            f = sum((Fraction(g[c]) - a[c]) * dv[c] for c in range(dims)) / d2
            f = min(max(f, Fraction(0)), Fraction(1))
            off = sum((Fraction(g[c]) - a[c] - f * dv[c]) ** 2 for c in range(dims))
            return f, off <= tol2
        if mode == 1:
            # the abscissa of output 1 on the 2D polyline = ds (one candidate per leg it lies on: a polyline may pass there twice)
            V = [Fraction(0)]
            for a, b in zip(pts, pts[1:]):
                r = Fraction(b[0] - a[0]) ** 2 + Fraction(b[1] - a[1]) ** 2
                V.append(V[-1] + (fsqrt(r) if is_sq(r) else Fraction(math.sqrt(r))))
            for r in range(1, len(pts)):
                f, on = project(got[1], P[r - 1], P[r], 2)
                if on:
                    s = V[r - 1] + f * (V[r] - V[r - 1])
                    if s > 0 and all(abs(s - c) > kerr for c in cands):
                        cands.append(s)
            if not cands:
                return "spatial resampling by number of points: sample 1 = (%r, %r) does not lie on the original 2D polyline" % (got[1][0], got[1][1])
        else:
            # the instant of the last output taken on a leg along which the position changes, read from its position on that leg
            # (among the legs its millisecond stamp allows), divided by its rank = the step
            ulp = Fraction(math.ulp(float(T[-1])))
            kerr = kerr + 4 * ulp
            for k in range(len(got), 0, -1):
                g = got[k - 1]
                lo, hi = Fraction(g[3], 1000) - Fraction(2, 1000) - (k + 3) * ulp, Fraction(g[3], 1000) + Fraction(2, 1000) + (k + 3) * ulp
                for r in range(1, len(pts)):
                    if not (T[r - 1] < T[r] and T[r - 1] <= hi and lo <= T[r]):
                        continue
                    f, on = project(g, P[r - 1], P[r], 3)
                    if on:
                        t = T[r - 1] + f * (T[r] - T[r - 1])
                        st = (t - T[0]) / k
                        if lo <= t <= hi and st > 0 and all(abs(st - c) > kerr for c in cands):
                            cands.append(st)
                if cands:
                    break
            if not cands:
                # no output lies on a leg along which the position changes (or none lies on the track at all): the stamps alone,
                # T0 + k step to the millisecond for k = 1.., bound the step
                lo, hi = None, None
                for k, g in enumerate(got, 1):
                    a = (Fraction(g[3] * 1000 - 1001, 10 ** 6) - (k + 3) * ulp - T[0]) / k
                    b = (Fraction(g[3] * 1000 + 1001, 10 ** 6) + (k + 3) * ulp - T[0]) / k
                    lo, hi = (a if lo is None else max(lo, a)), (b if hi is None else min(hi, b))
                lo = max(lo, Fraction(1, 10 ** 9))
                if hi < lo:
                    return ("temporal resampling by number of points: the stamps %s are not tini + k x step (k = 1, 2, ...) to the millisecond "
                            "for any constant step" % [g[3] for g in got][:12])
                # among the steps the stamps allow, one that yields this number of observations, if any: K step <= duration < (K+1) step
                K, dur = len(got), T[-1] - T[0]
                lo2, hi2 = max(lo, dur / (K + 1)), min(hi, dur / K)
                if lo2 <= hi2:
                    lo, hi = lo2, hi2
                cands, kerr = [(lo + hi) / 2], (hi - lo) / 2 + kerr
        first = None
        span = (T[-1] - T[0]) if mode == 2 else V[-1]
        have = len(got) - (1 if mode == 1 else 0)
        for st in cands[:8]:
            if int(span / st) > have + 2:       # (far more multiples of this step than observations: not worth enumerating them)
                first = first or "%s resampling returned %d observations, the property demands %d (for the step %.12g the output exhibits)" % (
                    what, len(got), int(span / st) + (1 if mode == 1 else 0), float(st))
                continue
            msg = self.judge(case, got, self._expected_d(case, {"num": st}, kerr))
            if msg is None:
                return None
            first = first or "%s (for the step %.12g the output exhibits)" % (msg, float(st))
        return first

    def classify(self, case, impl_out, msg):
        return None

    # ------------------------------------------------------------------ shrinking / search
    def shrink(self, case):
        pre = case.get("pre")
        if pre:
            for i in range(len(pre)):
                yield dict(case, pre=pre[:i] + pre[i + 1:])
        pts = case["pts"]
        others = case.get("others") or []
        via = case.get("via", "resample")
        if via in ("coll", "collfloordiv"):
            for k in range(len(others)):
                yield dict(case, others=others[:k] + others[k + 1:])
        if via in ("interp", "floordiv") and case["delta"] and "self" not in case["delta"]:
            c2 = {k: v for k, v in case.items() if k != "via"}      # the same request through Track.resample
            yield dict(c2, mode=2 if via == "floordiv" else case["mode"])
        if len(pts) > 2:
            for i in range(len(pts)):
                yield dict(case, pts=pts[:i] + pts[i + 1:])
        for k, q in enumerate(others):
            if len(q) > 2:
                for i in range(len(q)):
                    yield dict(case, others=others[:k] + [q[:i] + q[i + 1:]] + others[k + 1:])
        d = case["delta"]
        key = next((k for k in ("list", "track", "other") if d and k in d), None)
        l = d[key] if key else None
        if l is not None and len(l) > 1:
            for i in range(len(l)):
                yield dict(case, delta={key: l[:i] + l[i + 1:]})
        if case["feat"]:
            yield dict(case, feat=False)
        if d is not None and via == "resample" and (case["npts"] is not None or case["factor"] != 1):
            yield dict(case, npts=None, factor=1)
        allp = [pts] + others
        if pts and pts[0][3] >= 86400000:
            sh = pts[0][3] // 86400000 * 86400000
            if all(p[3] - sh >= 0 for q in allp for p in q) and all(v - sh >= 0 for v in (l or [])):
                c2 = dict(case, pts=[[p[0], p[1], p[2], p[3] - sh] for p in pts])
                if others:
                    c2["others"] = [[[p[0], p[1], p[2], p[3] - sh] for p in q] for q in others]
                if l is not None:
                    c2["delta"] = {key: [v - sh for v in l]}
                yield c2
        if any(p[2] != 0.0 for q in allp for p in q):
            c2 = dict(case, pts=[[p[0], p[1], 0.0, p[3]] for p in pts])
            if others:
                c2["others"] = [[[p[0], p[1], 0.0, p[3]] for p in q] for q in others]
            yield c2

    def mutate(self, case, rng):
        for _ in range(20):
            pts = [list(p) for p in case["pts"]]
            if not pts:
                return
            d = case["delta"]
            case = {k: v for k, v in case.items() if k not in ("via", "others")}
            if case["mode"] not in (1, 2):
                case["mode"] = 2
            if d and "num" in d:
                yield dict(case, delta={"num": rng.choice([0.5, 1.0, 2.0, d["num"] / 2, d["num"] * 2])})
            else:
                yield dict(case, delta={"num": rng.choice([0.5, 1.0, 2.0])}, npts=None)
                yield dict(case, delta={"list": []}, npts=rng.choice([None, 3]))
            if d is None:       # the forms that derive the step from a number of points, both modes, heights varied
                yield dict(case, npts=rng.choice([1, 2, 3, 5, 9]), factor=1, mode=rng.choice([1, 2]))
                q = [[p[0], p[1], p[2] + rng.choice([-6.0, 0.0, 2.5, 9.0]), p[3]] for p in pts]
                yield dict(case, pts=q, npts=None, factor=rng.choice([1, 2, 3]), mode=rng.choice([1, 2]))


# ---- tie to the source by translation (tools/py2lean.py -> lean/TracklibVerif/Gen/Interpolation.lean, regenerated on every run)
P.tie_modules = ["TracklibVerif.Tie.C05", "TracklibVerif.Tie.C05Spatial"]
P.theorems = P.theorems + [
    ("TracklibVerif.Tie.C05", "TV.Tie.C05.tie_prepareTimeSampling_list", "the Lean translation of the CURRENT source of prepareTimeSampling, input a list of ObsTime (seen through toAbsTime), equals the model's prepareTimes (.instants l) on every argument"),
    ("TracklibVerif.Tie.C05", "TV.Tie.C05.tie_prepareTimeSampling_track", "the translated prepareTimeSampling, input a Track, equals the model's prepareTimes (.track Q) on every argument"),
    ("TracklibVerif.Tie.C05", "TV.Tie.C05.tie_prepareTimeSampling_number_fuel", "the translated prepareTimeSampling, input a number (the while-1 loop with break), run with fuel f returns the list of the model's prepareNumber run with the SAME fuel and is out of fuel exactly when the model's loop is; no hypothesis"),
    ("TracklibVerif.Tie.C05", "TV.Tie.C05.tie_prepareTimeSampling_number", "whenever the model's prepareTimes (.number d) does not say nonterm (positive step with enough model fuel, or a non-positive step whose first round already ends the loop), the translated prepareTimeSampling returns its list for EVERY fuel >= int((tfin-tini)/d)+2"),
    ("TracklibVerif.Tie.C05", "TV.Tie.C05.tie_prepareTimeSampling_number_nonpos", "a step that is not positive: for EVERY fuel >= 1 the translated prepareTimeSampling equals the model's prepareTimes ([tini] when tini + d > tfin, else out of fuel for every fuel = the model's nonterm), when the step never carries an instant past tfin"),
    ("TracklibVerif.Tie.C05", "TV.Tie.C05.prepareTimeSampling_number_first_round", "whatever the sign of the step, when tini + d > tfin the translated prepareTimeSampling returns [tini] after the first round (as the model's prepareTimes now does)"),
    ("TracklibVerif.Tie.C05", "TV.Tie.C05.temporalLoop_tie", "the for-k-in-range(len(REF)) loop of __resampleTemporal (skip tests, rewind join, while scan, bracket reads with Python's index -1, two divisions, appended observation) equals the model's temporalLoop, for an arbitrary body satisfying the pointwise equation proved of the generated body"),
    ("TracklibVerif.Tie.C05", "TV.Tie.C05.tie_resampleTemporal_list", "the Lean translation of the CURRENT source of __resampleTemporal, reference a list of ObsTime, equals lift (resampleTemporal (.instants l)) on EVERY track and list for every fuel > len(track), errors included (IndexError, ZeroDivisionError); hypothesis: den < 0 or 0 < den is the negation of den == 0 on differences of two stamps"),
    ("TracklibVerif.Tie.C05", "TV.Tie.C05.tie_resampleTemporal_track", "the translated __resampleTemporal, reference a Track, equals lift (resampleTemporal (.track Q)) on EVERY track and reference for every fuel > len(track); same hypothesis"),
    ("TracklibVerif.Tie.C05", "TV.Tie.C05.tie_resampleTemporal_number_fuel", "the translated __resampleTemporal, reference a number, for every fuel > len(track): IndexError on an empty track, out of fuel exactly when the model's prepareNumber with the SAME fuel is, else lift of the model's temporalLoop on prepareNumber's list; no hypothesis on the step"),
    ("TracklibVerif.Tie.C05", "TV.Tie.C05.tie_resampleTemporal_number", "whenever the model's resampleTemporal (.number d) does not say nonterm, the translated __resampleTemporal returns lift of the model's result for EVERY fuel > len(track) and >= int((tfin-tini)/d)+2"),
    ("TracklibVerif.Tie.C05", "TV.Tie.C05.tie_resampleTemporal_number_nonpos", "a step that is not positive: on EVERY track (empty, or last stamp before the first, included) the translated __resampleTemporal equals lift of the model's result for every fuel > len(track) (nonterm = out of fuel for every fuel), when the step never carries an instant past the last stamp; Tri hypothesis as for the list variant"),
]
P.theorems = P.theorems + [
    ("TracklibVerif.Tie.C05Spatial", "TV.Tie.C05Spatial.tie_resampleSpatial", "__resampleSpatial translated from the CURRENT source = the model's resampleSpatial (cum/legs2D, scanB, bracket, spatialLoop), exceptions included, on EVERY track (the empty one too) and step, for every fuel >= len(track); hypotheses: x**2 = x*x, IntCast = NatCast, the zero test of ds and of abscissa differences is the model's (no NaN divisor)"),
    ("TracklibVerif.Tie.C05Spatial", "TV.Tie.C05Spatial.tie_resampleSpatial_of_zeroTest", "the same with the zero-test hypothesis for every scalar (ordered fields)"),
    ("TracklibVerif.Tie.C05Spatial", "TV.Tie.C05Spatial.resampleSpatial_empty_zero", "an empty track with ds == 0: ZeroDivisionError on both sides (the division precedes getFirstObs; former model deviation, corrected in the model)"),
]
