"""C02 — algebraic feature expressions evaluate to ordinary arithmetic on the features
(tracklib/core/track.py __evaluate / __evaluateRPN / __applyOperation / operate, utils.makeRPN, core/operators.py)."""
import math, json, itertools, sys, os
from engine import Prop, fbits, bitsf, tok_list, untok, close, err_kind

NAN = float("nan")

# ------------------------------------------------------------------------------------------
# expression trees:  ["num","0.5"] ["var","a"] ["bin","+",l,r] ["neg",e] ["call","D",e] ["par",e] ["prime","a"]
# ------------------------------------------------------------------------------------------
LEVEL = {"=": 0, "<": 1, ">": 1, "+": 2, "-": 2, "*": 4, "/": 4, "^": 6}
BINOPS = ["+", "-", "*", "/", "^", "<", ">"]
VOIDF = ["I", "D", "D2", "ABS", "SQRT", "LOG", "DIODE", "SIGN", "EXP", "COS", "SIN", "TAN"]
AGGF = ["SUM", "AVG", "VAR", "STD", "MSE", "RMSE", "MAD", "MIN", "MAX", "MEDIAN", "ARGMIN", "ARGMAX"]
FUNCS = VOIDF + AGGF
NAMES = ["a", "b", "x", "t", "idx"]
LITS = ["0", "1", "2", "0.5"]


def lv(t):
    return LEVEL[t[1]] if t[0] == "bin" else 9


def show(t, lead=True, bare=False):
    """the string of a tree with the parentheses required by precedence and left associativity.
    `lead`: the position is one where a unary sign is rewritten (`-…` at the start, after `=`, `(`, `{`);
    `bare`: use those positions (and `+-`, `--`) instead of `(-…)` where the grammar allows it."""
    k = t[0]
    if k == "num" or k == "var" or k == "ext":
        return t[1]
    if k == "prime":
        return t[1] + "'"
    if k == "par":
        return "(" + show(t[1], True, bare) + ")"
    if k == "call":
        return t[1] + "{" + show(t[2], True, bare) + "}"
    if k == "neg":
        e = t[1]
        inner = show(e, False, bare) if lv(e) > 2 else "(" + show(e, True, bare) + ")"
        if bare and lead:
            return "-" + inner
        return "(-" + inner + ")"
    o, l, r = t[1], t[2], t[3]
    wl = lv(l) < LEVEL[o]
    wr = lv(r) <= LEVEL[o]
    # a bare leading sign binds the whole product to its right: only under operators looser than * / ^
    sl = "(" + show(l, True, bare) + ")" if wl else show(l, lead and LEVEL[o] <= 2, bare)
    if wr:
        sr = "(" + show(r, True, bare) + ")"
    elif bare and o in "+-" and r[0] == "neg" and lv(r[1]) > 2:
        sr = "-" + show(r[1], False, bare)       # a+-b, a--b (rewritten to a-b, a+b)
    else:
        sr = show(r, False, bare)
    return sl + o + sr


def show_pre(t):
    """the string as it reaches makeRPN (after the rewriting): unary minus is `(0-e)`, a call is `f@(e)`"""
    k = t[0]
    if k in ("num", "var", "ext"):
        return t[1]
    if k == "prime":
        return t[1] + "'"
    if k == "par":
        return "(" + show_pre(t[1]) + ")"
    if k == "call":
        return t[1] + "@(" + show_pre(t[2]) + ")"
    if k == "neg":
        e = t[1]
        return "(0-" + (show_pre(e) if lv(e) > 2 else "(" + show_pre(e) + ")") + ")"
    o, l, r = t[1], t[2], t[3]
    sl = "(" + show_pre(l) + ")" if lv(l) < LEVEL[o] else show_pre(l)
    sr = "(" + show_pre(r) + ")" if lv(r) <= LEVEL[o] else show_pre(r)
    return sl + o + sr


def postfix(t):
    """the postfix token list the parser must produce for the string `show(t)` (after the rewriting)"""
    k = t[0]
    if k in ("num", "var", "ext"):
        return [t[1]]
    if k == "par":
        return postfix(t[1])
    if k == "call":
        return [t[1]] + postfix(t[2]) + ["@"]
    if k == "neg":
        return ["0"] + postfix(t[1]) + ["-"]
    if k == "prime":
        return [t[1] + "'"]
    return postfix(t[2]) + postfix(t[3]) + [t[1]]


def names_of(t):
    if t[0] in ("var", "prime"):
        return {t[1]} | ({"t"} if t[0] == "prime" else set())
    if t[0] in ("num", "ext"):
        return set()             # an external is a number given by name
    out = set()
    for c in t[1:]:
        if isinstance(c, list):
            out |= names_of(c)
    return out


def names_of_env(env):
    return {k for k, _ in env["feats"]} | {"x", "y", "z", "t", "idx", "timestamp"}


def subtrees(t):
    for c in t[1:]:
        if isinstance(c, list):
            yield c


def depth(t):
    return 1 + max([depth(c) for c in subtrees(t)] or [0])


def has_call_of_constant(t):
    if t[0] == "call" and not names_of(t[2]):
        return True
    return any(has_call_of_constant(c) for c in subtrees(t))


def tree_tokens(t):
    """prefix encoding for the Lean `denote` request (neg and par desugared as the rewriting does)"""
    k = t[0]
    if k == "num":
        return ["n:" + enc(t[1])]
    if k == "var":
        return ["v:" + enc(t[1])]
    if k == "par":
        return tree_tokens(t[1])
    if k == "neg":
        return ["b:%d" % ord("-"), "n:" + enc("0")] + tree_tokens(t[1])
    if k == "call":
        return ["c:" + enc(t[1])] + tree_tokens(t[2])
    if k == "prime":
        return ["b:%d" % ord("/"), "c:" + enc("D"), "v:" + enc(t[1]), "c:" + enc("D"), "v:" + enc("t")]
    return ["b:%d" % ord(t[1])] + tree_tokens(t[2]) + tree_tokens(t[3])


def enc(s):
    return ".".join(str(ord(c)) for c in s) if s else "_"


def dec(tok):
    return "" if tok == "_" else "".join(chr(int(x)) for x in tok.split("."))


# ------------------------------------------------------------------------------------------
# the oracle: direct evaluation of the tree (independent of tracklib and of the Lean model)
#
# Every documented definition is evaluated with Python's own IEEE-754 double arithmetic, and every value
# carries a rigorous bound `err` on its distance to the real number the definitions give (running error
# analysis: leaves are exact, each operation adds its rounding error `U*|result|` - plus one subnormal step
# `ETA` where a product / quotient / power can underflow - and propagates the operands' bounds with the
# operation's derivative). The implementation is judged against  |got - value| <= 1e-9*|value| + 8*err :
# a RELATIVE tolerance at every magnitude (3e-20 vs 1.5e-20 is as wrong as 3 vs 1.5); the `err` term is
# what cancellation leaves (a/3-a/3, STD of equal values) and scales with the operands, never a constant.
# Where the real value is not pinned down by the definitions (0/0 of SIGN, LOG of a non-positive, a
# comparison or a zero test whose operands are equal up to their bounds, a finite result beyond the double
# range, an aggregate of no value) the observation is `any` (not judged); where Python itself raises
# (0 ** negative, negative ** fractional, ** / EXP overflow, SQRT of a negative, COS of inf) the whole case
# is outside the domain and is not generated as an `expr` case.
# ------------------------------------------------------------------------------------------
INF = math.inf
U = 2.0 ** -52
ETA = 5e-324
MAXF = sys.float_info.max


class OutOfDomain(Exception):
    """the expression has no value in ordinary arithmetic on this input and Python raises / leaves the reals
    (negative base with a fractional exponent, 0 to a negative power, square root of a negative, overflow of
    ** or EXP, a trigonometric function of an infinity)"""


class V:
    """a value at one observation: the double `v`, the bound `err` on |v - real value| (0 = exact; always 0
    for NaN and the infinities, which only arise exactly), `any` when the definitions leave the value open"""
    __slots__ = ("v", "err", "any")

    def __init__(self, v, err=0.0, any_=False):
        self.v, self.any = float(v), any_
        self.err = 0.0 if (self.v != self.v or self.v in (INF, -INF)) else (err if err == err else INF)


ANYV = V(NAN, 0.0, True)


def mk(r, e):
    """a computed finite value with its bound; not judged when the bound reaches the end of the double range (an
    evaluation within the tolerance may overflow where this one does not, or the other way round)"""
    if abs(r) * (1 + 1e-9) + 8 * e >= MAXF:
        return ANYV
    return V(r, e)
ZERO, TWO, HALF = V(0.0), V(2.0), V(0.5)


def isnan(x):
    return x != x


def isinf(x):
    return x == INF or x == -INF


def fuzzy0(p):
    """the value may be zero"""
    return p.err > 0 and abs(p.v) <= p.err


class Oracle:
    def __init__(self, env, ext=()):
        self.env = env
        self.ext = {k: float(v) for k, v in ext}
        self.n = env["n"]
        self.divzero = False      # a division by zero happened: the evaluator may raise ZeroDivisionError instead of giving NaN
        self.undef = False        # an aggregate of no valid value: anything goes

    def col(self, name):
        e = self.env
        lift = lambda c: [v if isinstance(v, V) else V(v) for v in c]
        if name in ("x", "y", "z", "t"):
            return lift(e[name])
        if name == "idx":
            return [V(i) for i in range(self.n)]
        for k, c in e["feats"]:
            if k == name:
                return lift(c)
        raise KeyError(name)

    # ---- one observation, two operands
    def add(self, p, q, sgn=1.0):
        if p.any or q.any:
            return ANYV
        x, y = p.v, sgn * q.v
        if isnan(x) or isnan(y):
            return V(NAN)
        r = x + y
        if isinf(x) or isinf(y):
            return V(r)                       # exact: inf + finite, inf - inf = NaN
        if isinf(r):
            return ANYV                       # finite operands, sum beyond the double range
        return mk(r, p.err + q.err + U * abs(r))

    def sub(self, p, q):
        return self.add(p, q, -1.0)

    def mul(self, p, q):
        if p.any or q.any:
            return ANYV
        x, y = p.v, q.v
        if isnan(x) or isnan(y):
            return V(NAN)
        if isinf(x) or isinf(y):
            if (isinf(x) and fuzzy0(q)) or (isinf(y) and fuzzy0(p)):
                return ANYV                   # sign / NaN-ness of inf * (0 up to rounding) is open
            return V(x * y)
        r = x * y
        if isinf(r):
            return ANYV
        e = abs(x) * q.err + abs(y) * p.err + p.err * q.err + U * abs(r)
        if x != 0 and y != 0:
            e += ETA
        return mk(r, e)

    def div(self, p, q):
        """x / y (feature/feature, feature/number and number/feature alike: one correctly rounded quotient)"""
        if q.any or fuzzy0(q):
            self.divzero = True               # zero up to rounding: NaN, a huge value or ZeroDivisionError
            return ANYV
        x, y = p.v, q.v
        if y == 0:
            self.divzero = True
            return V(NAN)                     # documented: NaN where the denominator is 0 (the scalar forms raise)
        if p.any:
            return ANYV
        if isnan(x) or isnan(y):
            return V(NAN)
        if isinf(x) or isinf(y):
            return V(x / y)
        r = x / y
        if isinf(r):
            return ANYV
        ay = abs(y) - q.err
        return mk(r, (p.err + abs(r) * q.err) / ay + U * abs(r) + ETA)

    def power(self, p, q):
        """Python's float ** float (the documented definition of POWER is x1(t) ** x2(t))"""
        if p.any or q.any:
            raise OutOfDomain("operand of ^ left open by the definitions")
        x, y = p.v, q.v
        try:
            r = x ** y
        except (ZeroDivisionError, OverflowError):
            raise OutOfDomain("0 ** negative / overflow")
        if isinstance(r, complex):
            raise OutOfDomain("negative ** fractional")
        if p.err == 0 and q.err == 0:
            if isnan(r) or isinf(r):
                return V(r)
            return V(r, 2 * U * abs(r) + ETA)
        # operands known up to a bound
        if isnan(x) or isnan(y):
            if (isnan(x) and y == 0 and q.err > 0) or (isnan(y) and abs(x - 1) <= p.err):
                raise OutOfDomain("nan ** 0 / 1 ** nan up to rounding")
            return V(r)
        if isinf(r) or isinf(x) or isinf(y):
            raise OutOfDomain("operand known up to rounding at an infinity")
        if q.err == 0 and y == 0:
            return V(1.0)
        if q.err == 0 and y == math.floor(y) and 0 < y <= 64:
            try:                              # positive integer exponent: a polynomial, continuous everywhere
                d = y * (abs(x) + p.err) ** (y - 1) * p.err
            except OverflowError:
                raise OutOfDomain("overflow")
            if isinf(d) or abs(r) + d > MAXF / 4:
                raise OutOfDomain("too close to overflow to decide")
            return V(r, d + 2 * U * abs(r) + ETA)
        if abs(x) <= 2 * p.err:
            raise OutOfDomain("base too close to 0 to decide")
        if x < 0 and not (q.err == 0 and y == math.floor(y)):
            raise OutOfDomain("negative base, exponent known up to rounding")
        rel = abs(y) * p.err / (abs(x) - p.err) + abs(math.log(abs(x))) * q.err
        if rel > 1e-3 or abs(r) > MAXF / 4:
            raise OutOfDomain("power too ill-conditioned / too close to overflow to decide")
        return V(r, 2.1 * abs(r) * rel + 2 * U * abs(r) + ETA)

    def cmp(self, o, p, q):
        if p.any or q.any:
            # NaN compares false with everything
            if (not p.any and isnan(p.v)) or (not q.any and isnan(q.v)):
                return V(0.0)
            return ANYV
        x, y = p.v, q.v
        if isnan(x) or isnan(y):
            return V(0.0)
        d = 0.0 if x == y else (INF if isinf(x) or isinf(y) else abs(x - y))
        if p.err + q.err > 0 and d <= p.err + q.err:
            return ANYV
        return V(1.0 if (x < y if o == "<" else x > y) else 0.0)

    def lift(self, f, a, b):
        return [f(p, q) for p, q in zip(a, b)]

    def binop(self, o, a, b):
        if o == "+":
            return self.lift(self.add, a, b)
        if o == "-":
            return self.lift(self.sub, a, b)
        if o == "*":
            return self.lift(self.mul, a, b)
        if o == "/":
            return self.lift(self.div, a, b)
        if o == "^":
            return self.lift(self.power, a, b)
        if o in "<>":
            return self.lift(lambda p, q: self.cmp(o, p, q), a, b)
        raise ValueError(o)

    # ---- functions of one observation
    def sqrt_nonneg(self, p):
        """square root of a quantity that is a sum of squares (never negative in any evaluation order)"""
        if p.any:
            return ANYV
        x = p.v
        if isnan(x) or isinf(x):
            return V(x)
        r = math.sqrt(max(x, 0.0))
        hi = math.sqrt(max(x, 0.0) + p.err) if p.err < INF else INF
        lo = math.sqrt(max(x - p.err, 0.0))
        return V(r, max(hi - r, r - lo) + U * r)

    def pointwise(self, f, p):
        if p.any:
            if f in ("SQRT", "EXP", "COS", "SIN", "TAN"):
                raise OutOfDomain("argument of %s left open" % f)
            return ANYV
        x, e = p.v, p.err
        if f == "ABS":                        # |x(t)|
            return V(abs(x), e)
        if f == "SQRT":                       # x(t) ** (1/2)
            if isnan(x):
                return V(NAN)
            if x < 0 or x - e < 0:
                raise OutOfDomain("sqrt of a negative (or of 0 up to rounding)")
            if isinf(x):
                return V(x)
            r = math.sqrt(x)
            return V(r, (e / (math.sqrt(x - e) + r) if e > 0 else 0.0) + U * r)
        if f == "LOG":                        # log(x(t)): no value at x <= 0 (the code writes 0 there, NaN included)
            if isnan(x) or x - e <= 0:
                return ANYV
            if isinf(x):
                return V(x)
            r = math.log(x)
            return V(r, e / (x - e) + 2 * U * abs(r) + (U if e > 0 else 0.0))
        if f == "EXP":
            if isnan(x):
                return V(NAN)
            try:
                r = math.exp(x)
                if e > 0:
                    math.exp(x + e)
            except OverflowError:
                raise OutOfDomain("exp overflow")
            if isinf(x):
                return V(r)
            if e > 1e-3:
                return ANYV
            return mk(r, 1.01 * r * e + 2 * U * r + ETA)
        if f in ("COS", "SIN", "TAN"):
            if isnan(x):
                return V(NAN)
            if isinf(x):
                raise OutOfDomain("trigonometric function of an infinity")
            r = {"COS": math.cos, "SIN": math.sin, "TAN": math.tan}[f](x)
            if f == "TAN":
                if e * (1 + r * r) > 1e-3 * (1 + abs(r)):
                    return ANYV
                return mk(r, 1.01 * e * (1 + r * r) + 4 * U * abs(r) + ETA)
            return V(r, e + 4 * U * abs(r) + (U if e > 0 else 0.0))
        if f == "DIODE":                      # 1[x>0] * x(t)
            if isnan(x):
                return V(NAN)
            if x == -INF:
                return ANYV                   # 0 * (-inf)
            return V(x if x > 0 else 0.0, e)
        if f == "SIGN":                       # x(t) / |x(t)|: no value at 0, NaN, the infinities
            if isnan(x) or isinf(x) or x == 0 or abs(x) <= e:
                return ANYV
            return V(1.0 if x > 0 else -1.0)
        raise ValueError(f)

    # ---- aggregates (NaN is skipped, as the property's quantifier says the vectors contain NaN)
    def total(self, vals):
        acc = ZERO
        for v in vals:
            acc = self.add(acc, v)
        return acc

    def median(self, vals):
        vals = sorted(vals, key=lambda p: p.v)
        e = max(p.err for p in vals)
        n = len(vals)
        if n % 2:
            return V(vals[n // 2].v, e)
        m = self.mul(HALF, self.add(vals[n // 2 - 1], vals[n // 2]))
        return m if m.any else mk(m.v, e + U * abs(m.v) + ETA)

    def agg(self, f, a):
        if any(p.any for p in a):
            self.undef = True
            return ANYV
        vals = [p for p in a if not isnan(p.v)]
        n = len(vals)
        if f == "SUM":
            return self.total(vals)
        if f == "MEDIAN":
            if n != len(a) or not n:
                self.undef = True
                return ANYV
            return self.median(vals)
        if not vals:
            self.undef = True
            return ANYV
        cnt = V(float(n))
        if f == "AVG":
            return self.div(self.total(vals), cnt)
        if f in ("VAR", "STD"):
            m = self.div(self.total(vals), cnt)
            if m.any:
                raise OutOfDomain("mean at the end of the double range: the squares may overflow (** raises)")
            var = self.div(self.total([self.power(self.sub(p, m), TWO) for p in vals]), cnt)
            return var if f == "VAR" else self.sqrt_nonneg(var)
        if f in ("MSE", "RMSE"):
            mse = self.div(self.total([self.power(p, TWO) for p in vals]), cnt)
            return mse if f == "MSE" else self.sqrt_nonneg(mse)
        if f in ("MIN", "MAX", "ARGMIN", "ARGMAX"):
            lo = f in ("MIN", "ARGMIN")
            best = min(p.v for p in vals) if lo else max(p.v for p in vals)
            if f in ("MIN", "MAX"):
                return V(best, max(p.err for p in vals))
            first = next(i for i, p in enumerate(a) if p.v == best)
            eb = a[first].err
            for i, p in enumerate(a):
                if not isnan(p.v) and i != first and p.v != best and abs(p.v - best) <= p.err + eb and p.err + eb > 0:
                    return ANYV               # which observation attains the extremum is decided by rounding
                if not isnan(p.v) and i > first and p.v == best and p.err + eb > 0:
                    return ANYV
            return V(float(first))
        if f == "MAD":
            return self.median([V(abs(p.v), p.err) for p in vals])
        raise ValueError(f)

    def fn(self, f, a):
        n = self.n
        if f in AGGF:
            r = self.agg(f, a)
            return [r] * n
        if f == "D":       # y(t) = x(t) - x(t-1), undefined (NaN) at the first observation
            return [V(NAN)] + [self.sub(a[i], a[i - 1]) for i in range(1, n)]
        if f == "I":       # y(0) = 0, y(t) = y(t-1) + x(t)
            out = [ZERO]
            for i in range(1, n):
                out.append(self.add(out[-1], a[i]))
            return out
        if f == "D2":      # y(t) = x(t+1) - 2 x(t) + x(t-1), NaN at both ends
            out = [V(NAN)] * n
            for i in range(1, n - 1):
                out[i] = self.add(self.sub(a[i + 1], self.mul(TWO, a[i])), a[i - 1])
            return out
        return [self.pointwise(f, p) for p in a]

    def ev(self, t):
        k = t[0]
        if k == "num":
            return [V(float(t[1]))] * self.n
        if k == "ext":
            return [V(self.ext[t[1]])] * self.n
        if k == "var":
            return self.col(t[1])
        if k == "par":
            return self.ev(t[1])
        if k == "neg":
            return self.binop("-", [ZERO] * self.n, self.ev(t[1]))
        if k == "call":
            return self.fn(t[1], self.ev(t[2]))
        if k == "prime":
            return self.binop("/", self.fn("D", self.col(t[1])), self.fn("D", self.col("t")))
        return self.binop(t[1], self.ev(t[2]), self.ev(t[3]))


def pre_env(case):
    """the track as the statements run BEFORE the judged one leave it (columns become lists of V): the property applied
    to each earlier statement ('lhs=e' stores the value under lhs, nothing else changes; without '=' nothing changes).
    None when one of them has no value in ordinary arithmetic or may raise."""
    env = case["env"]
    for pre in case.get("pre", ()):
        o = Oracle(env, case.get("ext", ()))
        try:
            vals = o.ev(pre["tree"])
        except (OutOfDomain, KeyError):
            return None
        if o.divzero or o.undef:
            return None
        lhs = pre.get("lhs")
        if lhs:
            env = dict(env)
            if lhs in ("x", "y", "z"):
                if any(p.any or isnan(p.v) for p in vals):
                    return None
                env[lhs] = vals
            else:
                feats = [[k, c] for k, c in env["feats"] if k != lhs]
                if len(feats) == len(env["feats"]):
                    feats.append([lhs, vals])
                else:
                    feats = [[k, (vals if k == lhs else c)] for k, c in env["feats"]]
                env["feats"] = feats
    return env


def oracle(case):
    """(values | None when out of domain, divzero, undef)"""
    env = pre_env(case)
    if env is None:
        return None, False, False
    o = Oracle(env, case.get("ext", ()))
    try:
        vals = o.ev(case["tree"])
    except (OutOfDomain, KeyError):
        return None, o.divzero, o.undef
    return vals, o.divzero, o.undef


def num_matches(g, w):
    if w.any:
        return True
    if isinstance(g, bool) or not isinstance(g, (int, float)):
        return False
    g = float(g)
    if isnan(w.v) or isnan(g):
        return isnan(w.v) and isnan(g)
    if isinf(w.v) or isinf(g):
        return g == w.v
    return abs(g - w.v) <= 1e-9 * abs(w.v) + 8 * w.err


def vec_matches(got, want, what):
    if not isinstance(got, list) or len(got) != len(want):
        return "%s = %s, expected %d values" % (what, got, len(want))
    for i, (g, w) in enumerate(zip(got, want)):
        if not num_matches(g, w):
            return "%s[%d] = %r, ordinary arithmetic on the tree gives %r (bound on its rounding error %.3g; whole vector %s, expected %s)" % (
                what, i, g, w.v, w.err, got, [("any" if x.any else x.v) for x in want])
    return None


# ------------------------------------------------------------------------------------------
# canonical values
# ------------------------------------------------------------------------------------------
def canon(v):
    if isinstance(v, bool):
        return 1.0 if v else 0.0
    if isinstance(v, complex):
        return "complex"
    if isinstance(v, (int, float)):
        try:
            return float(v)
        except OverflowError:
            return "big"
    try:
        return float(v)          # numpy scalars
    except Exception:
        return "obj:" + type(v).__name__


def canon_list(l):
    return [canon(v) for v in l]


def same(a, b, rel=1e-12):
    """deep equality of canonical outputs; numbers up to a RELATIVE 1e-12 (4 subnormal steps), NaN == NaN"""
    if isinstance(a, bool) or isinstance(b, bool):
        return a == b
    if isinstance(a, (int, float)) and isinstance(b, (int, float)):
        fa, fb = float(a), float(b)
        if fa != fa or fb != fb:
            return fa != fa and fb != fb
        if isinf(fa) or isinf(fb):
            return fa == fb
        return abs(fa - fb) <= rel * max(abs(fa), abs(fb)) + 4 * ETA
    if isinstance(a, (list, tuple)) and isinstance(b, (list, tuple)):
        return len(a) == len(b) and all(same(x, y, rel) for x, y in zip(a, b))
    if isinstance(a, dict) and isinstance(b, dict):
        return a.keys() == b.keys() and all(same(a[k], b[k], rel) for k in a)
    return a == b


VALUE_POOL = [0.0, 1.0, -1.0, 2.0, -2.0, 0.5, -0.5, 4.0, 3.0, NAN]
# the whole double range: subnormals, the smallest normal, values below machine epsilon, huge values, integers beyond 2**53
TINY = [5e-324, 1.5e-323, 2.5e-310, 5.5e-309, 2.2250738585072014e-308, 1e-300, 2.5e-300, 1e-200, 1e-155, 2e-20, 3e-20, 2.0 ** -60,
        1e-17, 1.1e-16, 2.220446049250313e-16, 1e-9]
HUGE = [1.7976931348623157e308, 1e308, 4.5e307, 1e300, 1.5e300, 3e300, 1e200, 1e155, 1.3e154, 2.0 ** 53, 2.0 ** 53 + 2, 2.0 ** 60,
        1e17, 1e12, 1e13]
SMALLS = [1.0, 2.0, 3.0, 0.5, 1.5, -1.0, -2.0, 4.0, 0.25, -0.5, 10.0, 7.0]
# literals (decimal, no exponent: the grammar's numbers) reaching the same ranges
WIDE_LITS = ["0.1", "1000000", "9007199254740993", "123456789012345678901234567890", "0.000000000000000000002",
             "0." + "0" * 308 + "25", "0." + "0" * 322 + "5", "0." + "0" * 299 + "1", "1" + "0" * 300, "17976931348623157" + "0" * 292,
             "1" + "0" * 400, "0.0000000000000001", "4.5", "1" + "0" * 154,
             # the other forms float() reads and the tokeniser lets through (no sign in the exponent: '-' is an operator)
             "1e5", "2E3", "2.5e300", "1e400", ".5e1", "5.e2", "1_0e1_0", "3e0", "0e99", "inf", "nan", "Infinity", "iNf"]


# longitudes / latitudes of a geographic track: ordinary ones, the antimeridian from both sides, the 0..360 convention
GEO_STARTS = [178.75, 179.0, 179.5, -181.0, -180.5, 358.5, 359.25, -179.75, 2.25, -0.5]
GEO_LONS = [178.75, 179.25, 179.75, 180.0, 180.25, 181.5, -179.5, -180.0, -180.25, -181.5, 359.0, 360.0, 360.5, 2.25, -4.75, 0.0, 90.0, -90.0]
GEO_LATS = [-17.5, 48.85, 0.0, 89.5, -89.5, 90.0, -90.0, 45.0, 1.0]


def wide_value(rng, special=True):
    r = rng.random()
    if r < 0.25:
        v = rng.choice(TINY)
    elif r < 0.5:
        v = rng.choice(HUGE)
    elif r < 0.65:
        v = rng.choice(SMALLS)
    elif r < 0.9 or not special:
        v = math.ldexp(rng.uniform(1.0, 2.0), rng.randint(-1074, 1023))
    else:
        return rng.choice([0.0, -0.0, INF, -INF, NAN, 0.0])
    return -v if rng.random() < 0.35 else v


def scale_value(rng):
    """a finite non-zero magnitude anywhere in the double range"""
    r = rng.random()
    if r < 0.4:
        return rng.choice(TINY[3:])
    if r < 0.7:
        return rng.choice(HUGE[1:])
    return math.ldexp(rng.uniform(1.0, 2.0), rng.randint(-1000, 1000))


class P(Prop):
    id = "C02"
    design_ref = "DESIGN.md section 5, C02 and appendix A.1"
    M = "TracklibVerif.Props.C02"
    MA = "TracklibVerif.Props.C02Agg"
    theorems = [
        (M, "TV.C02.makeRPN_show", "T2: with makeRPN's real precedence table the right-to-left depth-0 scan returns the postfix form of every tree printed with the parentheses required by precedence and left associativity (and any redundant ones)"),
        (M, "TV.C02.evalRPN_postfix", "T1: the stack machine on the postfix form of a tree computes the tree semantics and leaves exactly the temporaries #k.. it created, appended to the table; nothing else changes"),
        (M, "TV.C02.operate_value", "T3a: without '=' operate returns the tree semantics at every observation and the track is left exactly as it was"),
        (M, "TV.C02.operate_assign_new", "T3b: 'lhs=e' with a new name stores the value under lhs, returns nothing, changes nothing else"),
        (M, "TV.C02.operate_assign_existing", "T3c: 'lhs=e' with an existing feature replaces that column only"),
        (M, "TV.C02.operate_assign_existing_number", "T3c': 'lhs=<number>' overwrites an existing feature (fix 79feaf2)"),
        (M, "TV.C02.operate_assign_coordinate", "T3d: 'x=e' / 'y=e' / 'z=e' writes the value of e - a vector, or a number at every observation (fix 144a468) - to the coordinate and leaves the feature table untouched (fix 3613032)"),
        (M, "TV.C02.operate_show_value", "T3: composition - parse the printed statement with makeRPN's table, run the machine, purge: value = tree semantics, track unchanged"),
        (M, "TV.C02.makeRPN_chars_show", "T2': character-level makeRPN (the definition the driver runs, fuel = string length) returns the postfix form of every printed tree with plain atoms"),
        (M, "TV.C02.operate_string_value", "T3': from the rewritten string '#output=e' on (makeRPN on characters, __double_prime, stack machine, fetch, purge) operate returns the tree semantics and leaves the track as it was"),
        (M, "TV.C02.operate_string_tokens", "string -> tokens: on the rewritten string of any statement 'lhs=e' with plain names operate does what it does on the postfix token list, so T3a-T3d apply to strings"),
        (M, "TV.C02.tree_semantics_pointwise", "T5: under the two laws x+s=s+x, x*s=s*x (true of IEEE doubles) the evaluator's tree semantics (literal folding, s+/sr- tables; a/number and number/a are single divisions since fix 5676890) equals evaluation observation by observation with numbers as constant vectors"),
        (M, "TV.C02.operate_string_pointwise", "end to end on the model: operate on the rewritten string '#output=e' returns the pointwise value of the tree and leaves the track unchanged"),
        (M, "TV.C02.operator_objects_agree", "T4: operator objects applied directly return the tree semantics of the one-node expression (a.b, a.number, number.a, f{a}) for the 7 binary operators, their 14 scalar forms, the 12 pointwise/void functions and the 12 aggregates"),
        (M, "TV.C02.evalRPN_postfix_error", "T6: when the tree semantics is an error (zero division by a number, 0**negative, complex/overflowing power, SQRT of a negative, EXP overflow, function of a number-valued sub-expression) the stack machine raises the same error, having added temporaries only"),
        (M, "TV.C02.operate_error", "T6': operate on the postfix form of 'lhs=e' then raises that error and, the temporaries being purged, leaves the track exactly as it was"),
        (M, "TV.C02.operate_string_error", "T6'': the same from the rewritten string"),
        (M, "TV.C02.preprocess_source_assign", "T7a: the rewriting chain of __evaluate (spaces, ** .* { } >> <<, reflexive forms, unary signs, f( -> f@( over both operator tables) maps the source string of 'lhs=e' exactly to the printed parser tree of the desugared statement, void=True"),
        (M, "TV.C02.preprocess_source_value", "T7b: without '=' the same with the prefix '#output = ' (two spaces), void=False"),
        (M, "TV.C02.tokens_of_preprocessed_source", "T7c: makeRPN(preprocess(source)) = #output, postfix(desugared tree), ="),
        (M, "TV.C02.operate_source_statement", "T7: Track.operate on the source string 'lhs=e' does what it does on the postfix tokens lhs, postfix(e), = (so T3b-T3d and T6' apply to source strings)"),
        (M, "TV.C02.operate_source_value", "C02 end to end from the source string: operate(src e) returns the tree semantics at every observation and leaves the track exactly as it was"),
        (M, "TV.C02.operate_source_pointwise", "the same with the pointwise value (ordinary arithmetic observation by observation) under the laws of T5"),
        (M, "TV.C02.operate_source_assign_new", "from the source string 'lhs=e', new name: the value is stored under lhs, nothing is returned, nothing else changes"),
        (M, "TV.C02.operate_source_error", "from the source string 'lhs=e': a tree-semantics error is raised as such and the track is left exactly as it was"),
        (M, "TV.C02.operate_source_value_error", "the same without '='"),
        (M, "TV.C02.operate_source_spaces", "operate on a string = operate on the string without its blanks (any spacing of the source)"),
        (M, "TV.C02.operate_source_starstar", "'**' written for '^'"),
        (M, "TV.C02.operate_source_reflexive", "reflexive forms 'lhs op= e' (op in + - * / ^ % !) are 'lhs = lhs op (e)'"),
        (M, "TV.C02.aggregate_min_max", "T8: Min / Max as coded (folds from +-inf, fix 68863c7) are the minimum / maximum of the numbers of the vector at every magnitude: a non-NaN value of it, nothing beyond it, NaN skipped"),
        (M, "TV.C02.aggregate_sentinel", "T8': on an empty or all-NaN feature Min returns +inf and Max -inf (their start values)"),
        (M, "TV.C02.operate_no_externals", "Track.operate(expr, {}) (the machine reading the dictionary of externals) is Track.operate(expr)"),
        (M, "TV.C02.getitem_is_operate", "front end: Track[expr] is Track.operate(expr) as soon as the stripped string contains one of + - / * ^ > < ( ) = ' { (the brace since fix 396f8f9)"),
        (M, "TV.C02.operate_source_bare_minus", "a bare unary minus at the start, after '=', '(' or '{' is the parenthesised '(0-...)' form (one per application; any number: T15)"),
        (M, "TV.C02.aggregate_argmin_argmax", "T9: Argmin / Argmax as coded (fix b728412) return the index of the FIRST observation holding the value Min / Max returns, as soon as the vector holds one number, +-inf included (ARGMIN{[nan, inf, inf]} = 1) - the documented min {t | x(t) = min(x)}"),
        (M, "TV.C02.aggregate_arg_none", "T9': on an empty or all-NaN vector (the only case T9 leaves out; no documented index) no index is taken and Argmin / Argmax return 0"),
        (M, "TV.C02.finite_differences", "T10: D, I, D2 as coded are the documented recurrences y(0)=NaN, y(t)=x(t)-x(t-1); y(0)=0, y(t)=y(t-1)+x(t); y(t)=x(t+1)-2x(t)+x(t-1) with NaN at both ends; one value per observation (no law of arithmetic used)"),
        (M, "TV.C02.operate_source_prime", "T11: from the source string, the ' shorthand: operate on 'lhs=e' / 'e' whose names may end with a quote does what it does on the postfix tokens of the tree with every a' replaced by D{a}/D{t} (__double_prime: two passes)"),
        (M, "TV.C02.operate_source_sign_pair", "T12: a sign directly after a binary + or - ('a+-b', 'a--b', 'a++b', 'a-+b'): typing two signs in place of the binary sign they multiply to does not change what operate does (one pair per application)"),
        (M, "TV.C02.operate_source_prime_value", "T11': operate(src e) with the ' shorthand returns the tree semantics of the unprimed tree at every observation and leaves the track exactly as it was"),
        (M, "TV.C02.operate_source_sugar", "T15: ANY number of bare unary minuses (start, after '=', '(' or '{') and of doubled signs after a binary + or - in one string, in any order: operate does on the sugared string what it does on the printed source string it comes from (the replacements of __unaryOp act locally)"),
        (M, "TV.C02.tokens_of_sugared_source", "T15': preprocess + makeRPN on a value-form string with any number of bare minuses / doubled signs = #output, postfix(desugared tree), ="),
        (M, "TV.C02.operate_source_sugar_statement", "T15'': with a left-hand side, operate on the sugared string does what it does on the postfix tokens lhs, postfix(desugared tree), = (so T3b-T3d, T6' apply)"),
        (MA, "TV.C02.aggregate_sum_avg", "T13: SUM / AVG as coded (NaN skipped) are the sum and sum/count of the non-NaN observations; AVG of no number is ZeroDivisionError (exact arithmetic: FieldModel over an ordered field)"),
        (MA, "TV.C02.aggregate_var_mse", "T13': VAR / MSE as coded are sum((x-mean)^2)/count (population variance, mean = AVG) and sum(x^2)/count over the non-NaN observations; STD / RMSE are math.sqrt of them (exact arithmetic; math.sqrt a parameter)"),
        (MA, "TV.C02.aggregate_median", "T14: MEDIAN as coded (np.argsort order, NaN last and counted in N; ranks N//2 resp. int(N/2-1), int(N/2)) is the value of rank N/2 among the numbers for odd N and the mean of the values of ranks N/2-1, N/2 for even N, whenever rank N/2 falls on a number; 'value of rank k' stated without sorting (at most k numbers below it, more than k below or equal)"),
        (MA, "TV.C02.aggregate_median_nan", "T14 (NaN side): an odd vector half of whose observations or more are NaN has a NaN MEDIAN (np.argsort puts NaN last, Median does not skip them)"),
        (MA, "TV.C02.median_rank_of_noNaN", "T14 hypothesis: on a non-empty vector without NaN every rank falls on a number"),
        (MA, "TV.C02.order_statistic_unique", "the value of rank k of a list is unique (so T14 / T14' determine MEDIAN / MAD)"),
        (MA, "TV.C02.aggregate_mad", "T14': MAD as coded (NaN skipped, absolute values, central rank N//2 since fix 56ef03e resp. the mean of ranks N/2-1, N/2) is the median of |x| over the non-NaN observations"),
        (MA, "TV.C02.expression_aggregate_value", "T13/T14 inside an expression: the tree semantics of f{a} for an aggregate f is the constant vector of the value the aggregate returns on the column of a"),
        (MA, "TV.C02.operate_aggregate_value", "... and Track.operate('f{a}') from the source string returns that value at every observation, the track unchanged (with T13: operate('SUM{a}') is the sum of the non-NaN values of a)"),
        (MA, "TV.C02.median_index_arithmetic", "T14'': for even N >= 2 Python's (int)(N/2 - 1) and (int)(N/2) (true division, truncation) are the integer ranks N/2-1 and N/2 of the model"),
    ]
    partial = []
    open_statements = [
        "floating point: the two laws T5 still needs (x+s=s+x, x*s=s*x) are stated as hypotheses (shown for rationals with NaN; they hold of IEEE doubles, but Lean's Float is opaque); the reciprocal laws x*(1/s)=x/s, (1/x)*s=s/x are no longer needed since fix 5676890. T5 says that the evaluator performs the documented operations observation by observation; how far the computed doubles are from the real-number value of the expression (rounding) is decided by the transfer check against the independent Python oracle (IEEE evaluation of the documented definitions with a running error bound, relative tolerance 1e-9 at every magnitude)",
        "the definitions of the pointwise functions (ABS SQRT LOG DIODE SIGN EXP COS SIN TAN) are taken as coded in both denoteM and denote (they ARE their definitions up to math.sqrt / log / exp / cos / sin / tan, which are parameters of the scalar type); the aggregates and finite differences are proved equal to their documented formulas: MIN / MAX (T8), ARGMIN / ARGMAX (T9, T9'), D I D2 (T10), SUM AVG VAR STD MSE RMSE (T13, T13': sums over the non-NaN observations, population variance, math.sqrt a parameter) and MEDIAN / MAD (T14, T14': the value(s) of the central rank(s), 'value of rank k' stated without sorting) - T13/T14 over an ordered field (exact arithmetic; Option Rat is an instance), so for IEEE doubles they hold up to rounding, which the Python oracle's running error bound judges; MEDIAN with NaN among the observations: np.argsort puts NaN last and N counts them, T14 covers it as long as rank N/2 falls on a number - beyond that the coded result is a NaN for odd N (aggregate_median_nan) and 0.5 * (x + NaN) for even N (not stated: it needs NaN propagation of +), and the oracle does not judge a MEDIAN of a vector with NaN",
        "source strings (T7): any number of bare unary minuses and doubled signs in one string is proved since T15 (closure Sugar of the two sugarings over a printed source string); still outside the proved grammar: three or more consecutive signs ('a---b'), a sign directly after * / ^ < > ('a*-b': Python raises), a doubled sign directly after '=' , '(' or '{' ('c=--a'), names ending with '.' ('2.*a' holds the pattern '.*'), the combination of T15 with the reflexive forms ('a+=-b') and with '**' (each is proved separately) - all covered by the correspondence streams expr/str; the ' shorthand is proved since T11, for names that do not start with a quote; error propagation (T6) excludes unbound names, unknown function names and a function applied to a bare number token, where the machine raises another error than the tree semantics (counter-examples in Lemmas/ExprErr.lean)",
    ]
    modelled = ("Track.__evaluate (replace chain, __specialOpChar, __convertReflexOperator, __unaryOp, f( -> f@( loops, #output prefix), "
                "utils.makeRPN at character level, Track.__prime/__double_prime, Track.__evaluateRPN, Track.__applyOperation, the purge of "
                "Track.operate(str), create/update/remove/getAnalyticalFeature and addListToAF as an insertion-ordered name->column table, "
                "operators Adder Substracter Multiplier Divider Power Above Below, ScalarAdder ScalarSubstracter ScalarRevSubstracter "
                "ScalarMuliplier ScalarDivider ScalarRevDivider (single divisions, coded like the other scalar operators: fixes 5676890, 2dd86ce) ScalarPower ScalarRevPower ScalarAbove/Below/RevAbove/RevBelow, "
                "Integrator Differentiator SecondOrderFiniteDiff Rectifier Sqrt Log (with its track[out]=temp storing and None result) Diode Sign "
                "Exp Cos Sin Tan (through Apply), Sum Averager Variance StdDev Mse Rmse Mad Min Max Median Argmin Argmax (index None until a value is taken, fix b728412); Track.operate(operator, ...) "
                "with the default output name; Track.__getitem__ with a string (expression or feature name); Track.operate(expression, externals) "
                "(__evaluateRPN substituting the dictionary's values); the positions behind x, y, z are plain slots (getX / setX ... of ENUCoords, GeoCoords, "
                "ECEFCoords alike: the model has one column per coordinate and is compared with tracks of the three classes). Not modelled (outside the property's operator list + - * / ^ < >): % (Modulo, s%, sr%), "
                ".* / ! (Filter), >> << (ShiftCircular, s& s$); their strings are compared up to the parser only (stream str)")
    trusted = ["float(), str.replace/split/strip, numpy.argsort (NaN last), math.sqrt, float ** float are modelled by contract",
               "the feature table is modelled as an insertion-ordered association list (its index-remapping representation is C01's subject)"]
    rule = ("expression trees over names {a,b,x,y,z,t,idx,speed_2 - in 30 % of the random cases the third feature goes under another legitimate name: ax, t2, Dx, idx_1, "
            "AVGs, x_y, inf_, e, pi, E1, I0, yaw, xt, SUMa, n}, literals {0,1,2,0.5,(3,4,0.25,10 in the random stream)} and decimal literals reaching the "
            "ends of the double range (2.5e-309 ... 1e308, 2**53+1, 30-digit integers, an infinite one), the other tokens float() reads "
            "(1e5, 2.5E3, .5e1, 1_0e1_0, inf, nan, Infinity), operators + - * / ^ < >, "
            "unary minus (parenthesised form and the bare positions: start, after =, ( and {, after + or -), redundant parentheses, the "
            "functions I D D2 ABS SQRT LOG DIODE SIGN EXP COS SIN TAN, SUM AVG VAR STD MSE RMSE MAD MIN MAX MEDIAN ARGMIN ARGMAX and the ' shorthand; "
            "all trees of depth <= 2 (x lhs none/new/existing/coordinate), depth <= 3 over a small alphabet, random to depth 6; reflexive forms a+=e; "
            "tracks of 1..5 observations whose positions are ENUCoords (60 %), GeoCoords (30 %, half of them with longitudes along / across the antimeridian, "
            "kept continuous past +-180 or in the 0..360 convention) or ECEFCoords (10 %), a quarter of them with one or two features created and "
            "removed again before the judged call (feature table with remapped indices), of three kinds: small values with 0, negatives, equal values, NaN; 'scaled' = a small pattern times one "
            "magnitude anywhere between 5e-324 and 1.8e308 (subnormals, below machine epsilon, beyond 2**53, near overflow); 'wide' = independent "
            "values over the whole double range with +-0.0, +-inf, NaN; optional spaces and ** for ^; entry points Track.operate(expr), Track.op(expr), "
            "Track[expr] (function calls alone included, fix 396f8f9; a number alone is a feature name for that front end and is not sent through it), Track.operate(expr, {name: value}) with numbers given by "
            "name (an external named like a feature is compared with the model only, not judged); sequences: one or two earlier statements run on the same track, the judged one may read what they wrote. "
            "The oracle evaluates the documented definitions with IEEE doubles and a running bound on the rounding error, and judges with a relative "
            "tolerance (1e-9 of the value + 8 bounds) at every magnitude. Cases on which ordinary arithmetic gives no value and Python raises "
            "(negative base with fractional exponent, 0 to a negative power, overflow of ** or EXP, sqrt of a negative, COS of inf) are not generated "
            "as judged cases (they go to the correspondence-only stream); observations the definitions leave open (LOG of a non-positive, SIGN of 0, a "
            "comparison decided by rounding, a finite result beyond the double range) are not judged; a division by zero may yield NaN or "
            "ZeroDivisionError; aggregates of no valid value are unconstrained. Separate streams: the parser alone on printed strings (rpn), the "
            "rewriting functions and the parser on arbitrary strings (str, tie only), operator objects applied directly with explicit and default "
            "output name and scalars of every magnitude (op), strings outside the grammar (malformed, tie only). "
            "non-trivial = expression of depth >= 2 / parser input of depth >= 3 / any operator-object case")

    # ---------------------------------------------------------------- setup
    def setup(self):
        from tracklib.core.track import Track
        from tracklib.core.obs import Obs
        from tracklib.core.obs_time import ObsTime
        from tracklib.core.obs_coords import ENUCoords, GeoCoords, ECEFCoords
        from tracklib.core.operators import Operator
        from tracklib.core import utils
        self.Track, self.Obs, self.ObsTime, self.ENU, self.Operator, self.utils = Track, Obs, ObsTime, ENUCoords, Operator, utils
        # the class of the observations' positions: x, y, z are (E, N, U), (lon, lat, hgt) or (X, Y, Z); the property
        # speaks of "the coordinate" whatever the class, and an expression reads / writes it through getX / setX ...
        self.COORDS = {"ENU": ENUCoords, "Geo": GeoCoords, "ECEF": ECEFCoords}

    def mk_track(self, env):
        t = self.Track()
        cls = self.COORDS[env.get("coords", "ENU")]
        for i in range(env["n"]):
            t.addObs(self.Obs(cls(env["x"][i], env["y"][i], env["z"][i]), self.ObsTime.readUnixTime(env["t"][i])))
        # "ghost": features [position, name, column] that were created (at that position of the creation order) and
        # removed again before the judged call: the table the evaluator works on is then one whose indices have been
        # remapped by earlier deletions (state left by earlier calls); model and oracle see env["feats"] only
        ghosts = env.get("ghost", ())
        for i, (k, c) in enumerate(env["feats"]):
            for pos, gk, gc in ghosts:
                if pos == i:
                    t.createAnalyticalFeature(gk, list(gc))
            t.createAnalyticalFeature(k, list(c))
        for pos, gk, gc in ghosts:
            if pos >= len(env["feats"]):
                t.createAnalyticalFeature(gk, list(gc))
        for pos, gk, gc in ghosts:
            t.removeAnalyticalFeature(gk)
        return t

    @staticmethod
    def canon_seq(ret):
        """the values returned 'at every observation': a list in the code; any sequence of numbers (tuple, array) is read
        the same way - the property speaks of the values, not of the container"""
        if isinstance(ret, (str, bytes, dict)):
            return "obj"
        try:
            return canon_list(list(ret))
        except TypeError:
            return "obj"

    def state(self, t):
        names = t.getListAnalyticalFeatures()

        def col(k):
            try:
                return canon_list(t.getAnalyticalFeature(k))
            except Exception as e:
                return "unreadable:" + type(e).__name__
        return {"names": sorted(map(str, names)), "cols": {str(k): col(k) for k in names},
                "x": col("x"), "y": col("y"), "z": col("z"), "t": col("t")}

    # ---------------------------------------------------------------- generators
    def rand_env(self, rng, n=None, easy=False, style=None):
        """style: None/"small" = the small pool (zeros, negatives, equal values, NaN); "scaled" = every vector is a
        small pattern times one magnitude taken anywhere in the double range (a/b, a-b, a<b ... stay meaningful);
        "wide" = independent values over the whole double range, +-0.0, +-inf, NaN"""
        n = n or rng.choice([1, 2, 3, 3, 4, 5])
        pool = [1.0, 2.0, 0.5, 4.0, 3.0] if easy else VALUE_POOL
        if style == "scaled":
            base = scale_value(rng)

            def vec():
                sc = base * rng.choice([1.0, 1.0, 1.0, 2.0, 0.5, 3.0, 1e-3, 1e3])
                if sc == 0 or isinf(sc):
                    sc = base
                if rng.randrange(5) == 0:
                    v = sc * rng.choice(SMALLS)
                    return [v] * n
                out = [sc * rng.choice(SMALLS) for _ in range(n)]
                for i in range(n):
                    r = rng.random()
                    if r < 0.06:
                        out[i] = NAN
                    elif r < 0.12:
                        out[i] = 0.0
                return out
        elif style == "wide":
            def vec():
                if rng.randrange(6) == 0:
                    return [wide_value(rng)] * n
                return [wide_value(rng) for _ in range(n)]
        else:
            def vec():
                style_ = rng.randrange(4)
                if style_ == 0:
                    v = rng.choice(pool)
                    return [v] * n                       # equal values
                return [rng.choice(pool) for _ in range(n)]
        t0 = rng.choice([0, 5, 1000, 86400 * 365])
        steps = [rng.choice([1, 1, 2, 10, 0 if not easy and rng.random() < 0.3 else 5]) for _ in range(n)]
        ts, cur = [], t0
        for st in steps:
            ts.append(float(cur))
            cur += st
        wide = style in ("scaled", "wide")
        env = {"n": n, "x": vec() if not easy else [float(i + 1) for i in range(n)],
               "y": vec() if wide and rng.random() < 0.5 else [rng.choice([0.0, 1.0, -3.0, 2.5]) for _ in range(n)],
               "z": [rng.choice([0.0, 10.0, -1.0]) for _ in range(n)],
               "t": ts, "feats": [["a", vec()], ["b", vec()], ["speed_2", vec()]]}
        # the class of the positions: local (E, N, U) - the default -, geographic (lon, lat, hgt) or geocentric (X, Y, Z).
        # On a geographic track x is a longitude: half of them run along / across the antimeridian (kept continuous
        # past +-180, or in the 0..360 convention) so that x=<expr> has values on both sides of +-180, +-360
        r = rng.random()
        if r >= 0.6:
            env["coords"] = "Geo" if r < 0.9 else "ECEF"
            if env["coords"] == "Geo" and not wide and rng.random() < 0.6:
                if rng.random() < 0.5:
                    lon0, step = rng.choice(GEO_STARTS), rng.choice([0.5, 0.25, -0.5, 1.0])
                    env["x"] = [lon0 + step * i for i in range(n)]
                else:
                    env["x"] = [rng.choice(GEO_LONS) for _ in range(n)]
                env["y"] = [rng.choice(GEO_LATS) for _ in range(n)]
        if rng.random() < 0.25:
            # one or two features created and removed again before the judged call (indices of the table remapped)
            env["ghost"] = [[rng.randrange(4), gk, [rng.choice([7.0, -7.0, 0.0, NAN]) for _ in range(n)]]
                            for gk in rng.sample(["g", "zz", "a2"], rng.choice([1, 1, 2]))]
        return env

    def fix_env(self, env):
        """NaN is not a coordinate"""
        for k in "xyz":
            env[k] = [0.0 if isnan(v) else v for v in env[k]]
        return env

    def trees_upto(self, d, leaves, binops, unary):
        """all trees of depth <= d"""
        cur = [l for l in leaves]
        allt = list(cur)
        for _ in range(d - 1):
            new = []
            for o in binops:
                for l in allt:
                    for r in allt:
                        new.append(["bin", o, l, r])
            for f in unary:
                for e in allt:
                    new.append(["neg", e] if f == "neg" else ["call", f, e])
            seen = {json.dumps(t) for t in allt}
            allt = allt + [t for t in new if json.dumps(t) not in seen]
        return allt

    def rand_tree(self, rng, d, wide=False):
        if d <= 1 or rng.random() < 0.15:
            r = rng.random()
            if r < (0.7 if wide else 0.55):
                return ["var", rng.choice(NAMES + ["a", "b", "y", "z", "speed_2"] + (["a", "b", "a", "b", "speed_2", "x"] if wide else []))]
            if r < 0.95:
                if wide and rng.random() < 0.5:
                    return ["num", rng.choice(WIDE_LITS)]
                return ["num", rng.choice(LITS + ["3", "4", "0.25", "10"])]
            return ["prime", rng.choice(["a", "b", "x", "speed_2"])]
        r = rng.random()
        if r < 0.62:
            o = rng.choice(BINOPS + ["+", "-", "*", "/"] + (["/", "/", "*", "<", ">"] if wide else []))
            return ["bin", o, self.rand_tree(rng, d - 1, wide), self.rand_tree(rng, d - 1, wide)]
        if r < 0.74:
            return ["neg", self.rand_tree(rng, d - 1, wide)]
        if r < 0.80:
            return ["par", self.rand_tree(rng, d - 1, wide)]
        return ["call", rng.choice(FUNCS), self.rand_tree(rng, d - 1, wide)]

    # other legitimate names for the third feature: with a reserved name as a prefix / suffix, a function name inside, the
    # names of mathematical constants, words float() almost reads
    ALT_NAMES = ["ax", "t2", "Dx", "idx_1", "AVGs", "x_y", "inf_", "e", "pi", "E1", "I0", "yaw", "xt", "SUMa", "n"]

    def rename(self, t, old, new):
        if t[0] in ("var", "prime"):
            return [t[0], new] if t[1] == old else t
        return [self.rename(c, old, new) if isinstance(c, list) else c for c in t]

    def alt_names(self, rng, env, trees, p=0.3):
        """with probability p the feature speed_2 of the track (and of the trees) goes under another name"""
        if rng.random() >= p:
            return trees
        new = rng.choice(self.ALT_NAMES)
        env["feats"] = [[new if k == "speed_2" else k, c] for k, c in env["feats"]]
        return [self.rename(t, "speed_2", new) for t in trees]

    def subst_var(self, t, rng, names):
        """some variable leaves replaced by names defined by earlier statements"""
        if t[0] == "var":
            return ["var", rng.choice(names)] if rng.random() < 0.5 else t
        return [self.subst_var(c, rng, names) if isinstance(c, list) else c for c in t]

    def with_ext(self, t, rng, wide=False):
        """(tree, externals): some number leaves become names whose value is passed to operate in the dictionary of
        externals ('A=A/factor', {'factor': var}); sometimes a feature name is shadowed by an external"""
        ext = {}

        def val():
            v = wide_value(rng) if wide and rng.random() < 0.6 else rng.choice([2.0, 0.5, 3.0, -1.5, 10.0, 0.0, 1.0, 4, 3, -2])
            return v

        def go(t):
            if t[0] == "num" and rng.random() < 0.6:
                name = rng.choice(["k", "factor", "w1"])
                if name not in ext:
                    ext[name] = float(t[1]) if rng.random() < 0.5 else val()
                return ["ext", name]
            return [go(c) if isinstance(c, list) else c for c in t]
        t2 = go(t)
        if rng.random() < 0.15:
            sh = rng.choice(["b", "speed_2"])

            def shadow(t):
                if t[0] == "var" and t[1] == sh:
                    return ["ext", sh]
                return [shadow(c) if isinstance(c, list) else c for c in t]
            def has_prime(t):
                return (t[0] == "prime" and t[1] == sh) or any(has_prime(c) for c in t if isinstance(c, list))
            t3 = shadow(t2)
            if t3 != t2 and not has_prime(t2):      # b' is D{b}/D{t}: a function of the shadowing number is outside the grammar
                ext[sh] = val()
                t2 = t3
        return t2, [[k, v] for k, v in ext.items()]

    def mk_case(self, tree, env, lhs, bare, rng=None, spaces=False, stars=False, via=None):
        c = {"kind": "expr", "tree": tree, "env": env, "lhs": lhs, "bare": bool(bare), "spaces": bool(spaces), "stars": bool(stars)}
        c["expr"] = self.render(c)
        if via:
            c["via"] = via
        return c

    def render(self, c):
        if c.get("reflex"):
            # `a+=e`: the tree is a+(e); the string is the reflexive form (rewritten to a=a+(e) by the code)
            s = c["lhs"] + c["reflex"] + "=" + show(c["tree"][3][1], True, c.get("bare", False))
            return s.replace("^", "**") if c.get("stars") else s
        s = show(c["tree"], True, c.get("bare", False))
        if c.get("lhs"):
            s = c["lhs"] + "=" + s
        if c.get("stars"):
            s = s.replace("^", "**")
        if c.get("spaces"):
            s = " " + s.replace("=", " = ").replace("+", " + ").replace("*", " * ").replace(" *  * ", " ** ") + " "
        return s

    def in_domain(self, c):
        vals, _, _ = oracle(c)
        return vals is not None

    def exhaustive_scopes(self, tier):
        if tier == "thorough":
            return ["every tree of depth <= 2 over names {a,b,x,t,idx}, literals {0,1,2,0.5}, operators + - * / ^ < >, unary minus and the 24 functions, "
                    "x 4 left-hand sides (none, new, existing, coordinate) x 2 sign styles, on 3 tracks each",
                    "every tree of depth <= 3 over {a,b,2} with + - * / ^ < >, unary minus, D, SUM (about 40 k programmes), one track each",
                    "parser: the postfix form of every one of those strings",
                    "every 'l<(p q r)', 'l>(p q r)' (parenthesis directly after a comparison) with l in {a,2,x,D{b}}, q in + - * / ^ < >, p,r in {a,b,1}, x 3 left-hand sides, and the mirrored '(p q r)<l'",
                    "every tree of depth <= 2 again, 4 times, on tracks of the scaled / wide kinds (values over the whole double range)"]
        return ["every tree of depth <= 2 over names {a,b,x,t,idx}, literals {0,1,2,0.5}, operators + - * / ^ < >, unary minus and the 24 functions, "
                "x 4 left-hand sides (none, new, existing, coordinate), one track each",
                "every 'l<(p q r)', 'l>(p q r)' (parenthesis directly after a comparison) with l in {a,2,x,D{b}}, q in + - * / ^ < >, p,r in {a,b,1}, x 3 left-hand sides, and the mirrored '(p q r)<l'",
                "every tree of depth <= 2 again on a track of the scaled / wide kinds (values over the whole double range)",
                ]

    LHS = [None, "c", "a", "x"]

    def cases(self, rng, tier):
        out = []
        thorough = tier == "thorough"
        leaves = [["var", v] for v in NAMES] + [["num", l] for l in LITS]
        d2 = self.trees_upto(2, leaves, BINOPS, ["neg"] + FUNCS)
        envs = [self.fix_env(self.rand_env(rng)) for _ in range(40)] + [self.fix_env(self.rand_env(rng, easy=True)) for _ in range(20)]

        def emit(tree, lhs, bare, tries=6, **kw):
            if has_call_of_constant(tree):
                return False         # a function of a number: outside the grammar (malformed stream)
            for _ in range(tries):
                env = rng.choice(envs)
                c = self.mk_case(tree, env, lhs, bare, **kw)
                if self.in_domain(c):
                    out.append(c)
                    return True
            return False
        for t in d2:
            for lhs in self.LHS:
                for rep in range(3 if thorough else 1):
                    emit(t, lhs, bare=rng.random() < 0.5)
            if t[0] != "num":         # Track['2']: a string that is only a number is looked up as a feature name
                emit(t, None, bare=rng.random() < 0.5, via="getitem")       # Track[expr]
        # a parenthesis directly after a comparison operator (fix 6716f85): every `l o (p q r)` and `(p q r) o l`
        for o in "<>":
            for l in (["var", "a"], ["num", "2"], ["var", "x"], ["call", "D", ["var", "b"]]):
                for q in BINOPS:
                    for pl in (["var", "a"], ["var", "b"], ["num", "1"]):
                        for pr in (["var", "a"], ["var", "b"], ["num", "1"]):
                            inner = ["par", ["bin", q, pl, pr]]
                            for lhs in (None, "c", "y"):
                                emit(["bin", o, l, inner], lhs, bare=False)
                            emit(["bin", o, inner, l], None, bare=False)
        # depth 3 over a small alphabet
        small = self.trees_upto(3, [["var", "a"], ["var", "b"], ["num", "2"]], BINOPS, ["neg", "D", "SUM"])
        for t in (small if thorough else rng.sample(small, 12000)):
            out.append({"kind": "rpn", "tree": t, "s": show_pre(t)})
        if thorough:
            for t in small:
                emit(t, rng.choice(self.LHS), bare=rng.random() < 0.5, tries=3)
        else:
            for t in rng.sample(small, 5000):
                emit(t, rng.choice(self.LHS), bare=rng.random() < 0.5, tries=3)
        # random deep trees
        nrand = 250000 if thorough else 12000
        for i in range(nrand):
            d = rng.choice([3, 4, 4, 5, 5, 6])
            t = self.rand_tree(rng, d)
            if has_call_of_constant(t):
                continue
            env = self.fix_env(self.rand_env(rng, easy=rng.random() < 0.4))
            t, = self.alt_names(rng, env, [t])
            lhs = rng.choice([None, None, "c", "a", "b", "x", "y", "z"])
            c = self.mk_case(t, env, lhs, bare=rng.random() < 0.5, spaces=rng.random() < 0.2, stars=rng.random() < 0.2)
            if rng.random() < 0.2 and t[0] != "num":
                c["via"] = "getitem"          # Track[expr] instead of Track.operate(expr)
            if self.in_domain(c):
                out.append(c)
                if i % 4 == 0:
                    out.append({"kind": "rpn", "tree": t, "s": show_pre(t)})
        # the whole double range. (1) every depth-2 tree on tracks whose vectors are a small pattern times one magnitude
        # taken anywhere between the subnormals and 1.8e308, and on tracks of independent extreme values (+-0.0, +-inf,
        # NaN, subnormals, integers beyond 2**53); (2) random trees with literals of the same ranges. Inputs on which
        # ordinary arithmetic gives no value (overflow of **, ...) go to the correspondence-only stream.
        wenvs = [self.fix_env(self.rand_env(rng, style="scaled")) for _ in range(60)] + [self.fix_env(self.rand_env(rng, style="wide")) for _ in range(30)]

        def emit_wide(tree, lhs, bare, tries=4, **kw):
            if has_call_of_constant(tree):
                return False
            c = None
            for _ in range(tries):
                c = self.mk_case(tree, rng.choice(wenvs), lhs, bare, **kw)
                if self.in_domain(c):
                    out.append(c)
                    return True
            if c is not None and rng.random() < 0.25:
                out.append({"kind": "malformed", "expr": c["expr"], "env": c["env"]})
            return False
        for t in d2:
            for rep in range(4 if thorough else 1):
                emit_wide(t, rng.choice(self.LHS), bare=rng.random() < 0.5)
        for i in range(150000 if thorough else 16000):
            t = self.rand_tree(rng, rng.choice([2, 2, 3, 3, 4]), wide=True)
            if has_call_of_constant(t):
                continue
            env = self.fix_env(self.rand_env(rng, style="scaled" if rng.random() < 0.65 else "wide"))
            t, = self.alt_names(rng, env, [t])
            lhs = rng.choice([None, None, "c", "a", "b", "x", "y"])
            c = self.mk_case(t, env, lhs, bare=rng.random() < 0.5, spaces=rng.random() < 0.1, stars=rng.random() < 0.1)
            if rng.random() < 0.2 and t[0] != "num":
                c["via"] = "getitem"
            if self.in_domain(c):
                out.append(c)
            elif rng.random() < 0.25:
                out.append({"kind": "malformed", "expr": c["expr"], "env": env})
        # sequences: one or two statements run first on the same track (state left by earlier calls: columns created,
        # overwritten, coordinates written, temporaries purged), then the judged statement, which may read what they wrote
        for i in range(30000 if thorough else 4000):
            st = rng.random()
            env = self.fix_env(self.rand_env(rng, easy=st < 0.3, style=None if st < 0.6 else "scaled"))
            defined = []
            pre = []
            for j in range(rng.choice([1, 1, 2])):
                pt = self.rand_tree(rng, rng.choice([1, 2, 3]), wide=st >= 0.6)
                if defined and rng.random() < 0.5:
                    pt = self.subst_var(pt, rng, defined)
                plhs = rng.choice(["c", "c", "d", "a", "b", "x", "y", None])
                pc = self.mk_case(pt, env, plhs, bare=rng.random() < 0.5)
                pre.append({"lhs": plhs, "tree": pt, "expr": pc["expr"]})
                if plhs in ("c", "d"):
                    defined.append(plhs)
            t = self.rand_tree(rng, rng.choice([2, 3, 3, 4]), wide=st >= 0.6)
            if defined:
                t = self.subst_var(t, rng, defined)
            if has_call_of_constant(t) or any(has_call_of_constant(p["tree"]) for p in pre):
                continue
            trs = self.alt_names(rng, env, [t] + [p["tree"] for p in pre])
            if trs[0] is not t:
                t = trs[0]
                pre = [{"lhs": p["lhs"], "tree": pt, "expr": self.mk_case(pt, env, p["lhs"], bare=rng.random() < 0.5)["expr"]} for p, pt in zip(pre, trs[1:])]
            c = self.mk_case(t, env, rng.choice([None, None, "c", "a", "x", "e"]), bare=rng.random() < 0.5)
            c["pre"] = pre
            if rng.random() < 0.3:
                c["via"] = "op"
            if self.in_domain(c):
                out.append(c)
        # externals: Track.operate(expression, {'name': value}) - numbers given by name
        for i in range(20000 if thorough else 2500):
            st = rng.random()
            t, ext = self.with_ext(self.rand_tree(rng, rng.choice([2, 3, 3, 4, 5]), wide=st >= 0.6), rng, wide=st >= 0.6)
            if not ext or has_call_of_constant(t):
                continue
            env = self.fix_env(self.rand_env(rng, easy=st < 0.3, style=None if st < 0.6 else "scaled"))
            c = self.mk_case(t, env, rng.choice([None, None, "c", "a", "x"]), bare=rng.random() < 0.5)
            c["ext"] = ext
            if self.in_domain(c):
                out.append(c)
        # reflexive operators  lhs op= e   (meaning lhs = lhs op (e))
        for i in range(15000 if thorough else 600):
            rhs = self.rand_tree(rng, rng.choice([1, 2, 3, 4]))
            if has_call_of_constant(rhs):
                continue
            lhs = rng.choice(["a", "b", "a", "x", "y"])
            op = rng.choice(["+", "-", "*", "/", "^"])
            env = self.fix_env(self.rand_env(rng, easy=rng.random() < 0.5))
            c = {"kind": "expr", "tree": ["bin", op, ["var", lhs], ["par", rhs]], "env": env, "lhs": lhs, "reflex": op,
                 "bare": rng.random() < 0.5, "spaces": False, "stars": rng.random() < 0.2}
            c["expr"] = self.render(c)
            if self.in_domain(c):
                out.append(c)
        # operator objects applied directly
        for i in range(40000 if thorough else 6000):
            st = rng.random()
            env = self.fix_env(self.rand_env(rng, style=None if st < 0.4 else ("scaled" if st < 0.75 else "wide")))
            r = rng.random()
            in1 = rng.choice(["a", "b", "x", "idx"])
            # out = None: "when output AF name is not provided, it is automatically set as the first AF input"
            outn = rng.choice(["c", "a", "b", "c", None]) if in1 in ("a", "b") else rng.choice(["c", "a", "b"])
            if r < 0.35:
                c = {"kind": "op", "form": "bin", "op": rng.choice(BINOPS), "in1": in1, "in2": rng.choice(["a", "b", "t", "y"]), "out": outn, "env": env}
            elif r < 0.6:
                sc = rng.choice([0.0, 1.0, 2.0, 0.5, -1.0, 3.0]) if st < 0.4 or rng.random() < 0.3 else wide_value(rng)
                c = {"kind": "op", "form": rng.choice(["scal", "scalrev"]), "op": rng.choice(BINOPS), "in1": in1,
                     "s": sc, "out": outn, "env": env}
            elif r < 0.8:
                c = {"kind": "op", "form": "fn", "op": rng.choice(VOIDF), "in1": in1, "out": outn, "env": env}
            else:
                c = {"kind": "op", "form": "agg", "op": rng.choice(AGGF), "in1": in1, "env": env}
            c["tree"] = self.op_tree(c)
            if self.in_domain(c):
                out.append(c)
        # rewriting steps and the parser on strings outside the grammar (tie only, no claim)
        for i in range(5000 if thorough else 1500):
            out.append({"kind": "str", "s": self.rand_string(rng)})
        for i in range(4000 if thorough else 800):
            env = self.fix_env(self.rand_env(rng))
            out.append({"kind": "malformed", "expr": self.rand_malformed(rng), "env": env})
        return out

    def op_tree(self, c):
        a = ["var", c["in1"]]
        if c["form"] == "bin":
            return ["bin", c["op"], a, ["var", c["in2"]]]
        lit = lambda s: ["neg", ["num", repr(float(-s))]] if s < 0 else ["num", repr(float(s))]
        if c["form"] == "scal":
            return ["bin", c["op"], a, lit(c["s"])]
        if c["form"] == "scalrev":
            return ["bin", c["op"], lit(c["s"]), a]
        return ["call", c["op"], a]

    ALPHABET = list("ab2x0.5eE_") + ["inf", "nan", "1e3"] + list("+-*/^<>()=") + list("+-*/()") + ["D{", "}", "SUM{", "**", " ", "'", ">>", "I(", "{", "-", "(-", "=-", "+=", "*="]

    def rand_string(self, rng):
        return "".join(rng.choice(self.ALPHABET) for _ in range(rng.randrange(0, 12)))

    def rand_malformed(self, rng):
        r = rng.random()
        if r < 0.5:
            return self.rand_string(rng)
        t = self.rand_tree(rng, rng.choice([2, 3, 4]))
        s = show(t, True, rng.random() < 0.5)
        k = rng.randrange(5)
        if k == 0 and len(s) > 1:
            i = rng.randrange(len(s))
            return s[:i] + s[i + 1:]                      # one character dropped
        if k == 1:
            i = rng.randrange(len(s) + 1)
            return s[:i] + rng.choice(list("+-*/^()<>=") + ["*-", "1e-3", "d", "D{2}", "SUM{1+2}", "a/0", "x=3", "a<(b)"]) + s[i:]
        if k == 2:
            return rng.choice(["c", "a", "x", "t", "idx", "2"]) + rng.choice(["+=", "-=", "*=", "/=", "^=", "="]) + s
        if k == 3:
            return s.replace("{", "(") if rng.random() < 0.5 else s.replace("a", "d")
        return rng.choice(["a*1e", "a*1e5.5", "a*1_e5", "a*e5", "a*1e-5", "a*infinit", "a*0x10", "a*1ee5", "c=1e3", "a*.e1",
                           "D{2}", "SUM{2}", "D{1+2}", "a*-b", "a+1e-5", "2=a", "(c=a)+1", "c=a=b", "a%b", "a>>1", "a.*b", "timestamp+1", "t=a", "idx=a"])

    # ---------------------------------------------------------------- tags
    def describe(self, case):
        t = {"kind": case["kind"]}
        if case["kind"] == "expr":
            lhs = case["lhs"]
            made = {k for k, _ in case["env"]["feats"]} | {p.get("lhs") for p in case.get("pre", ())}
            t["lhs"] = "none" if lhs is None else ("coordinate" if lhs in ("x", "y", "z") else ("existing" if lhs in made else "new"))
            t["names"] = "standard" if any(k == "speed_2" for k, _ in case["env"]["feats"]) else "other"
            t["removed_before"] = len(case["env"].get("ghost", ()))
            t["depth"] = depth(case["tree"])
            t["n"] = case["env"]["n"]
            t["sign"] = "bare" if case["bare"] else "paren"
            t["form"] = "reflexive" if case.get("reflex") else ("assign" if case["lhs"] else "value")
            t["via"] = case.get("via", "operate")
            t["earlier_statements"] = len(case.get("pre", ()))
            t["externals"] = len(case.get("ext", ()))
            t["coords"] = case["env"].get("coords", "ENU")
        if case["kind"] == "op":
            t["form"] = case["form"]
        return t

    def nontrivial(self, case):
        if case["kind"] == "expr":
            return depth(case["tree"]) >= 2
        if case["kind"] == "rpn":
            return depth(case["tree"]) >= 3
        return case["kind"] == "op"

    # ---------------------------------------------------------------- implementation
    def impl(self, case):
        k = case["kind"]
        if k in ("expr", "malformed"):
            t = self.mk_track(case["env"])
            status, ret = "ok", None
            try:
                for pre in case.get("pre", ()):
                    t.operate(pre["expr"])
                via = case.get("via")
                if case.get("ext"):
                    ret = t.operate(case["expr"], dict((k, v) for k, v in case["ext"]))
                else:
                    ret = t[case["expr"]] if via == "getitem" else (t.op(case["expr"]) if via == "op" else t.operate(case["expr"]))
            except BaseException as e:
                if isinstance(e, KeyboardInterrupt):
                    raise
                status = err_kind(e)
            out = self.state(t)
            out["status"] = status
            out["ret"] = None if ret is None else self.canon_seq(ret)
            return out
        if k == "rpn":
            return {"rpn": self.utils.makeRPN(case["s"])}
        if k == "str":
            s = case["s"]
            T = self.Track
            res = {}
            for name, f in (("special", T._Track__specialOpChar), ("reflex", T._Track__convertReflexOperator),
                            ("unary", T._Track__unaryOp), ("rpn", self.utils.makeRPN)):
                try:
                    res[name] = ["ok", f(s)]
                except Exception as e:
                    res[name] = [err_kind(e), None]
            toks = [x for x in s.replace("(", " ").replace(")", " ").split(" ") if x]
            try:
                res["prime"] = ["ok", T._Track__prime(toks)]
            except Exception as e:
                res["prime"] = [err_kind(e), None]
            return res
        if k == "op":
            t = self.mk_track(case["env"])
            O = self.Operator
            status, ret = "ok", None
            try:
                if case["form"] == "bin":
                    ret = t.operate(O.NAMES_DICT_VOID[case["op"]], case["in1"], case["in2"], case["out"])
                elif case["form"] == "scal":
                    ret = t.operate(O.NAMES_DICT_VOID["s" + case["op"]], case["in1"], case["s"], case["out"])
                elif case["form"] == "scalrev":
                    ret = t.operate(O.NAMES_DICT_VOID["sr" + case["op"]], case["in1"], case["s"], case["out"])
                elif case["form"] == "fn":
                    ret = t.operate(O.NAMES_DICT_VOID[case["op"]], case["in1"], case["out"])
                else:
                    ret = t.operate(O.NAMES_DICT_NON_VOID[case["op"]], case["in1"])
            except BaseException as e:
                if isinstance(e, KeyboardInterrupt):
                    raise
                status = err_kind(e)
            out = self.state(t)
            out["status"] = status
            if case["form"] == "agg":
                out["ret"] = None if ret is None else canon(ret)
            else:
                out["ret"] = None if ret is None else self.canon_seq(ret)
            return out
        raise ValueError(k)

    # ---------------------------------------------------------------- model
    def track_tokens(self, env):
        fl = lambda l: tok_list(fbits(v) for v in l)
        names = tok_list(enc(k) for k, _ in env["feats"])
        cols = ";".join(fl(c) for _, c in env["feats"]) if env["feats"] else "_"
        return "%d %s %s %s %s %s %s" % (env["n"], fl(env["x"]), fl(env["y"]), fl(env["z"]), fl(env["t"]), names, cols)

    def requests(self, case):
        k = case["kind"]
        if k in ("expr", "malformed"):
            if case.get("pre"):
                return ["C02.operateseq %s %s" % (self.track_tokens(case["env"]), ",".join(enc(p["expr"]) for p in case["pre"]) + "," + enc(case["expr"]))]
            if case.get("ext"):
                return ["C02.operatex %s %s %s %s" % (self.track_tokens(case["env"]), tok_list(enc(k) for k, _ in case["ext"]),
                                                     tok_list(fbits(v) for _, v in case["ext"]), enc(case["expr"]))]
            reqs = ["C02.%s %s %s" % ("getitem" if case.get("via") == "getitem" else "operate", self.track_tokens(case["env"]), enc(case["expr"]))]
            if k == "expr":
                reqs.append("C02.denote %s %s" % (self.track_tokens(case["env"]), ",".join(tree_tokens(case["tree"]))))
            return reqs
        if k == "rpn":
            return ["C02.rpn " + enc(case["s"])]
        if k == "str":
            s = case["s"]
            toks = [x for x in s.replace("(", " ").replace(")", " ").split(" ") if x]
            return ["C02.rw special " + enc(s), "C02.rw reflex " + enc(s), "C02.rw unary " + enc(s), "C02.rpn " + enc(s),
                    "C02.prime " + tok_list(enc(x) for x in toks)]
        if k == "op":
            tt = self.track_tokens(case["env"])
            f = case["form"]
            outn = case.get("out")                    # None: the model applies Track.operate's default (the first input)
            enc_out = lambda o: "none" if o is None else enc(o)
            if f == "bin":
                return ["C02.opbin %s %d %s %s %s" % (tt, ord(case["op"]), enc(case["in1"]), enc(case["in2"]), enc_out(outn))]
            if f in ("scal", "scalrev"):
                return ["C02.op%s %s %d %s %s %s" % (f, tt, ord(case["op"]), enc(case["in1"]), fbits(case["s"]), enc_out(outn))]
            if f == "fn":
                return ["C02.opfn %s %s %s %s" % (tt, enc(case["op"]), enc(case["in1"]), enc_out(outn))]
            return ["C02.opagg %s %s %s" % (tt, enc(case["op"]), enc(case["in1"]))]

    def dec_state(self, case, parts):
        status, vec, names, cols, xs, ys, zs = parts
        fl = lambda tok: [bitsf(x) for x in untok(tok)]
        names = [dec(x) for x in untok(names)]
        cols = [fl(c) for c in cols.split(";")] if names else []
        return {"status": status, "ret": None if vec == "none" else fl(vec), "names": sorted(names),
                "cols": dict(zip(names, cols)), "x": fl(xs), "y": fl(ys), "z": fl(zs), "t": list(case["env"]["t"])}

    def decode(self, case, replies):
        k = case["kind"]
        if any(r == "bad-request" for r in replies):
            raise ValueError("driver rejected the request")
        if k in ("expr", "malformed"):
            out = self.dec_state(case, replies[0].split(" "))
            if k == "expr" and len(replies) > 1:
                st, vec = replies[1].split(" ")
                out["denote"] = [st, None if vec == "none" else [bitsf(x) for x in untok(vec)]]
            return out
        if k == "rpn":
            st, toks = replies[0].split(" ")
            if st != "ok":
                return {"err": st}
            return {"rpn": [dec(x) for x in untok(toks)]}
        if k == "str":
            res = {}
            for name, r in zip(("special", "reflex", "unary", "rpn", "prime"), replies):
                st, body = r.split(" ")
                if name in ("rpn", "prime"):
                    res[name] = [st, [dec(x) for x in untok(body)] if st == "ok" else None]
                else:
                    res[name] = [st, dec(body) if st == "ok" else None]
            return res
        if k == "op":
            if case["form"] == "agg":
                st, v = replies[0].split(" ")
                out = {"status": st, "ret": None if v == "none" else bitsf(v)}
                return out
            return self.dec_state(case, replies[0].split(" "))

    def compare(self, case, impl_out, model_out):
        """the model runs the same IEEE operations in the same order and calls the same libm: the outputs are compared
        with a purely relative tolerance (1e-12; a few subnormal steps in absolute value), at every magnitude"""
        k = case["kind"]
        if isinstance(model_out, dict) and model_out.get("status") == "err:complex":
            return None          # a complex power: Python goes on with complex numbers, outside the model (and the property)
        if k == "expr":
            m = dict(model_out)
            if "denote" not in m:
                return self.tight(impl_out, m)       # a sequence of statements: the whole run is compared
            den = m.pop("denote")
            # internal consistency of the model (what theorem T1 states): the stack machine agrees with the tree semantics
            if m["status"] == "ok" and den[0] == "ok":
                got = m["ret"] if case["lhs"] is None else (m["cols"].get(case["lhs"]) if case["lhs"] not in "xyz" else m[case["lhs"]])
                if not same(got, den[1]):
                    return "model: stack machine %s differs from tree semantics %s" % (got, den[1])
            elif m["status"] == "ok":
                return "model: stack machine status %s, tree semantics status %s" % (m["status"], den[0])
            elif den[0] != "ok" and den[0] != m["status"] and m["status"] not in ("err:AnalyticalFeatureError",):
                return "model: stack machine raises %s, tree semantics %s" % (m["status"], den[0])
            return self.tight(impl_out, m)
        if k == "malformed" and model_out["status"] in ("err:unsupported", "err:complex"):
            return None          # outside what is modelled (%, !, >>, <<, timestamp, t=, numbers on the left of =, complex powers)
        if k == "op" and case["form"] == "agg":
            i = {"status": impl_out["status"], "ret": impl_out["ret"]}
            return self.tight(i, model_out)
        if k == "rpn" and "err" in impl_out:
            i = {"err": impl_out["err"]}
            return self.tight(i, model_out)
        return self.tight(impl_out, model_out)

    def tight(self, impl_out, model_out):
        if same(impl_out, model_out):
            return None
        return "impl=%s model=%s" % (json.dumps(impl_out)[:400], json.dumps(model_out)[:400])

    # ---------------------------------------------------------------- oracle (transfer)
    def unchanged(self, env, out, except_name=None, except_coord=None):
        want_names = sorted({k for k, _ in env["feats"]} | ({except_name} if except_name else set()))
        if out["names"] != want_names:
            return "names listed afterwards are %s, expected %s" % (out["names"], want_names)
        def differs(got, c, what):
            if any(isinstance(v, V) for v in c):      # a column written by an earlier statement of the sequence
                return vec_matches(got, [v if isinstance(v, V) else V(v) for v in c], what + " (left by the earlier statements)")
            if not close(got, list(c), 0.0, 0.0):
                return "%s changed from %s to %s" % (what, c, got)
            return None
        for k, c in env["feats"]:
            if k != except_name:
                m = differs(out["cols"][k], c, "feature %s" % k)
                if m:
                    return m
        for k in "xyzt":
            if k != except_coord:
                m = differs(out[k], env[k], k)
                if m:
                    return m
        return None

    def spec(self, case, out):
        if case.get("ext") and any(k in names_of_env(case["env"]) for k, _ in case["ext"]):
            return None      # an external named like a feature: which one wins is not stated anywhere (tie only: the model mirrors the code)
        return self.judge(case, out)

    def judge(self, case, out):
        k = case["kind"]
        if k in ("malformed", "str"):
            return None
        if k == "rpn":
            if "err" in out:
                return "makeRPN(%r) raised %s" % (case["s"], out["err"])
            want = postfix(case["tree"])
            if out["rpn"] != want:
                return "makeRPN(%r) = %s, the tree's postfix form is %s" % (case["s"], out["rpn"], want)
            return None
        if "err" in out:
            # impl() catches everything the judged call raises; what escapes it comes from building the track
            # (addObs / createAnalyticalFeature / removeAnalyticalFeature) or listing its features afterwards: the
            # harness's own plumbing, not the property. Never a violation: the case is not judged (the correspondence
            # reports it - the model has an output, the implementation side has none)
            return None
        if has_call_of_constant(case["tree"]):
            return None                      # a function applied to a number: outside the grammar (domain restriction)
        vals, divzero, undef = oracle(case)
        if vals is None:
            return None                      # no value in ordinary arithmetic (documented domain restriction)
        env = pre_env(case) if case.get("pre") else case["env"]
        if k == "op":
            if undef:
                return None
            outn = case.get("out") or case["in1"]
            if out["status"] != "ok":
                if divzero and out["status"] == "err:zerodiv":
                    return None
                return "operator %s raised %s" % (case["op"], out["status"])
            if case["form"] == "agg":
                return vec_matches([out["ret"]] * env["n"], vals, "Operator.%s(%s)" % (case["op"], case["in1"]))
            m = None
            if not (case["op"] == "LOG" and out["ret"] is None):      # Log.execute returns nothing; the values are in the feature
                m = vec_matches(out["ret"], vals, "returned vector")
            m = m or vec_matches(out["cols"].get(outn), vals, "feature %s" % outn)
            return m or self.unchanged(env, out, except_name=outn)
        # expressions
        expr, lhs = case["expr"], case["lhs"]
        call = ("Track[%r]" if case.get("via") == "getitem" else "operate(%r)") % expr
        if out["status"] != "ok":
            if (divzero and out["status"] == "err:zerodiv") or undef:
                return self.unchanged(env, out)
            return "%s raised %s" % (call, out["status"])
        if lhs is None:
            m = vec_matches(out["ret"], vals, call)
            return m or self.unchanged(env, out)
        # what operate returns for a statement with '=' is not part of the property (the code returns None; the
        # correspondence with the model compares it, the oracle does not)
        if lhs in ("x", "y", "z"):
            m = vec_matches(out[lhs], vals, "coordinate %s after %r" % (lhs, expr))
            return m or self.unchanged(env, out, except_coord=lhs)
        m = vec_matches(out["cols"].get(lhs), vals, "feature %s after %r" % (lhs, expr))
        return m or self.unchanged(env, out, except_name=lhs)

    # ---------------------------------------------------------------- known findings
    # none. Every class this check once listed is repaired in /repo and is an ordinary judged input now; the witnesses
    # are corpus regression cases (corpus/C02/fixed-*, d21-*, d22-*), run first on every run:
    #   'a>(b+1)' 6716f85, 'x=3' 144a468, ABS of an infinity 8378be5, MIN/MAX/ARGMIN/ARGMAX beyond +-1e300 68863c7,
    #   Track['SUM{a}'] 396f8f9, a/number and number/a through a reciprocal (overflow for a subnormal divisor) 5676890,
    #   ARGMIN / ARGMAX when the extremum is the start value +-inf itself and a NaN precedes it b728412
    def classify(self, case, impl_out, msg):
        return None

    # ---------------------------------------------------------------- shrinking / search
    def shrink(self, case):
        if case["kind"] not in ("expr", "rpn"):
            return
        if case.get("reflex"):
            c = {k: v for k, v in case.items() if k != "reflex"}
            c["expr"] = self.render(c)
            yield c                      # the plain form lhs=lhs op (e)
            return
        if case.get("pre"):
            yield {k: v for k, v in case.items() if k != "pre"}
            for i in range(len(case["pre"])):
                yield dict(case, pre=case["pre"][:i] + case["pre"][i + 1:])
        t = case["tree"]

        def rebuilt(nt, **kw):
            c = dict(case, tree=nt, **kw)
            if case["kind"] == "expr":
                c["expr"] = self.render(c)
                c = self.fit_via(c)
            else:
                c["s"] = show_pre(nt)
            return c
        # replace the tree by a subtree, or one child by a leaf
        for s in subtrees(t):
            yield rebuilt(s)

        def variants(t):
            for i, c in enumerate(t):
                if isinstance(c, list):
                    for s in subtrees(c):
                        yield t[:i] + [s] + t[i + 1:]
                    if c[0] not in ("var", "num"):
                        yield t[:i] + [["var", "a"]] + t[i + 1:]
                        yield t[:i] + [["num", "1"]] + t[i + 1:]
                    for v in variants(c):
                        yield t[:i] + [v] + t[i + 1:]
        for v in variants(t):
            yield rebuilt(v)
        if case["kind"] == "expr":
            env = case["env"]
            if case.get("spaces") or case.get("stars"):
                yield rebuilt(t, spaces=False, stars=False)
            if env.get("ghost"):
                yield rebuilt(t, env={k: v for k, v in env.items() if k != "ghost"})
            if env.get("coords", "ENU") != "ENU":
                yield rebuilt(t, env={k: v for k, v in env.items() if k != "coords"})     # does the class of the positions matter?
            if env["n"] > 1:
                n = env["n"] - 1
                e2 = dict(env, n=n, x=env["x"][:n], y=env["y"][:n], z=env["z"][:n], t=env["t"][:n],
                          feats=[[k, c[:n]] for k, c in env["feats"]])
                yield rebuilt(t, env=e2)
            for j, (k, c) in enumerate(env["feats"]):
                for i, v in enumerate(c):
                    if v != 1.0:
                        c2 = list(c)
                        c2[i] = 1.0
                        f2 = [list(p) for p in env["feats"]]
                        f2[j] = [k, c2]
                        yield rebuilt(t, env=dict(env, feats=f2))

    def fit_via(self, c):
        """`Track[...]` looks a string without any of + - / * ^ > < ( ) = ' { up as a feature name: a number alone is not
        an expression for that front end (rule: it is not sent through it) - such a candidate goes through operate"""
        if c.get("via") == "getitem" and not any(ch in c["expr"] for ch in "+-/*^><()='{") and c["tree"][0] != "var":
            c = {k: v for k, v in c.items() if k != "via"}
        return c

    def mutate(self, case, rng):
        if case["kind"] == "expr" and not case.get("reflex"):
            for lhs in self.LHS:
                for bare in (False, True):
                    c = dict(case, lhs=lhs, bare=bare)
                    c["expr"] = self.render(c)
                    yield self.fit_via(c)
            for s in subtrees(case["tree"]):
                c = dict(case, tree=s)
                c["expr"] = self.render(c)
                yield self.fit_via(c)
            # the same statement on the other classes of positions, writing each coordinate
            cur = case["env"].get("coords", "ENU")
            for coords in ("ENU", "Geo", "ECEF"):
                for lhs in ("x", "y", "z"):
                    if coords != cur or lhs != case.get("lhs"):
                        c = dict(case, lhs=lhs, env=dict(case["env"], coords=coords))
                        c["expr"] = self.render(c)
                        yield self.fit_via(c)
        if case["kind"] in ("malformed", "op"):
            return
