"""C10 — map-matched positions lie on a real edge within the search radius
(tracklib/algo/mapping.py mapOnNetwork / __mapOnNetwork / __distToNode / __projOnTrack; the candidate edge
numbers come from the real spatial index and the decoded indices from the real HMM — both are parameters of
the model, which covers the candidate construction, the flag state, the inference column and the track)."""
import json, math
from fractions import Fraction as F
from engine import Prop, fbits, bitsf, close, err_kind
from props.c20 import fr, seg_d2, segments, degenerate

TOL = 1e-9
OVERFLOW_JUMP = 7000.0   # exp(-(dtopo - dgeom)/10) overflows when dgeom - dtopo > ~7097


def fsqrt(x):
    return math.sqrt(float(x))


def edge_length(g):
    return sum(fsqrt((fr(g[i + 1][0]) - fr(g[i][0])) ** 2 + (fr(g[i + 1][1]) - fr(g[i][1])) ** 2) for i in range(len(g) - 1))


class P(Prop):
    id = "C10"
    design_ref = "DESIGN.md section 5, C10"
    M = "TracklibVerif.Props.C10"
    theorems = [
        (M, "TV.C10.candidate_sound", "STATES[i] is never empty and holds the flag state or sound candidates: existing edge number, point on a segment of its geometry, d < radius, d0 + d1 = edge length"),
        (M, "TV.C10.all_states_sound", "STATES has one such list per observation, in order"),
        (M, "TV.C10.inferred_is_candidate", "for every decoder: hmm_inference[k] is one of STATES[k], so every observation is flagged or assigned a sound candidate"),
        (M, "TV.C10.track_preserved", "mode 1 (any mode outside {3,4,5}): same observations, order, positions, timestamps; only obs_noise / hmm_inference / hmm_cost are created"),
        (M, "TV.C10.timestamps_preserved", "every mode: count and timestamps unchanged"),
        (M, "TV.C10.decoder_in_range_total", "a decoder answering in-range indices never makes the backward step fail"),
        (M, "TV.C10.viterbi_decoder_total", "with the Viterbi model of C09 over any cost tables, the decoded indices are in range (candidate lists are never empty), so the backward step never fails"),
    ]
    partial = []
    open_statements = ["the spatial index (candidate edge numbers) and the HMM decoder (indices) are parameters: completeness of the candidates (no edge within the radius is missed) "
                       "is not claimed by the property and not proved; exceptions (ZeroDivisionError on vertical segments, OverflowError in the transition model) are outside the "
                       "theorems and reported as findings"]
    modelled = ("algo/mapping.py __mapOnNetwork: candidate loop (projection on the edge geometry, d < search_radius, __distToNode from abs_curv), flag state, "
                "hmm_inference from the decoded indices, created feature columns, positions untouched for mode 1; computeAbsCurv (ds + INTEGRATOR). "
                "Parameters of the model (taken from the real run): spatial_index.neighborhood results, HMM-decoded state indices")
    rule = ("grid-like and random networks on an integer lattice and on two-decimal coordinates (oblique / horizontal / vertical, 2..4-vertex edges, arbitrary "
            "edge and node ids), spatial index of several cell sizes and margins, tracks of 1..7 observations on / near / far from the network (outside the index "
            "included), several radii and noise values; SESSION stream: on one network / index object, 1..3 calls of mapOnNetwork, the first on a "
            "TrackCollection of 2..3 tracks of different lengths that are not co-located, later calls on collections or bare tracks, tracks matched again "
            "(their obs_noise / hmm_inference / hmm_cost columns already exist), user features with those names, radius and noise changing between calls; "
            "the oracle is applied to every track of every call through its own hmm_inference column, and the candidate lists the decoder is given for "
            "each track (captured at HMM.estimate) are compared with the model's. non-trivial = at least one observation within the radius of an edge")
    trusted = ["the candidate edge numbers (SpatialIndex.neighborhood) and the decoded indices (HMM.estimate) are inputs of the model, captured from the real call "
               "(instance / class attributes wrapped for the duration of a case, no source hook); the candidate lists the decoder receives for each track are read through "
               "the HMM's own state function at the entry of HMM.estimate"]

    def setup(self):
        import tracklib
        from tracklib import Obs, ObsTime, ENUCoords, Track, TrackCollection, Network, Node, Edge, SpatialIndex, computeAbsCurv
        from tracklib.algo import mapping
        self.tl = dict(Obs=Obs, ObsTime=ObsTime, E=ENUCoords, Track=Track, Network=Network, Node=Node, Edge=Edge,
                       SI=SpatialIndex, curv=computeAbsCurv, mapping=mapping, TC=TrackCollection)
        self._cache = {}

    # ------------------------------------------------------------------ generators
    def exhaustive_scopes(self, tier):
        return ["one 2-vertex edge in each of the 8 lattice directions (and 3 lengths) x observations on a 7x7 lattice around it x radii {1, 2.5}"]

    def cases(self, rng, tier):
        out = []
        # enumerated: single edge of every orientation, observation everywhere around it
        for (dx, dy) in [(1, 0), (0, 1), (1, 1), (1, -1), (2, 1), (1, 2), (-2, 1), (3, 0), (0, 3), (-1, -3)]:
            for radius in (1.0, 2.5):
                pts = [[float(x), float(y)] for x in range(-2, 5) for y in range(-2, 5)]
                for chunk in range(0, len(pts), 7):
                    out.append({"kind": "single", "stream": "enum",
                                "edges": [{"id": 7, "s": 1, "t": 2, "g": [[0.0, 0.0], [float(dx), float(dy)]]},
                                          {"id": 3, "s": 2, "t": 5, "g": [[float(dx), float(dy)], [float(dx) + 2.0, float(dy) + 1.0]]}],
                                "res": [1.0, 1.0], "margin": 0.3, "track": pts[chunk:chunk + 7], "radius": radius, "noise": 2.0})
        n = 15000 if tier == "thorough" else 3000
        for k in range(n):
            out.append(self.random_case(rng, ["grid", "random", "decimal"][k % 3]))
        for k in range(40 if tier == "thorough" else 6):
            c = self.random_case(rng, "grid")
            c["track"] = c["track"][:2] + [[c["track"][0][0] + 9000.0, c["track"][0][1] + 500.0], [c["track"][0][0] + 19000.0, c["track"][0][1]]]
            c["stream"] = "farjump"
            out.append(c)
        # sessions: collections of several tracks, several calls on the same objects, re-matched tracks
        for k in range(6000 if tier == "thorough" else 900):
            out.append(self.random_session(rng, ["grid", "random", "decimal"][k % 3]))
        return out

    def coord(self, rng, stream):
        if stream == "decimal":
            return round(rng.randint(0, 2000) / 100.0, 2)
        return float(rng.randint(0, 12))

    def random_case(self, rng, stream):
        edges = []
        if stream == "grid":
            nx, ny = rng.randint(2, 4), rng.randint(1, 3)
            sp = float(rng.choice([2, 3, 5]))
            node = lambda i, j: (i * sp, j * sp)
            nid = lambda i, j: 1 + i * 10 + j
            links = []
            for i in range(nx):
                for j in range(ny):
                    if i + 1 < nx:
                        links.append(((i, j), (i + 1, j)))
                    if j + 1 < ny:
                        links.append(((i, j), (i, j + 1)))
                    if i + 1 < nx and j + 1 < ny and rng.random() < 0.3:
                        links.append(((i, j), (i + 1, j + 1)))
            rng.shuffle(links)
            links = links[:rng.randint(1, 7)]
            for (a, b) in links:
                pa, pb = node(*a), node(*b)
                g = [list(pa)]
                r = rng.random()
                if r < 0.3:      # intermediate vertex on the straight line
                    g.append([(pa[0] + pb[0]) / 2, (pa[1] + pb[1]) / 2])
                elif r < 0.5:    # bent edge
                    g.append([(pa[0] + pb[0]) / 2 + rng.choice([-1.0, 1.0]), (pa[1] + pb[1]) / 2 + rng.choice([-1.0, 0.0, 1.0])])
                g.append(list(pb))
                if rng.random() < 0.3:
                    g.reverse()
                    a, b = b, a
                edges.append({"s": nid(*a), "t": nid(*b), "g": g})
        else:
            nodes = {}
            for k in range(rng.randint(2, 6)):
                nodes[100 + k] = (self.coord(rng, stream), self.coord(rng, stream))
            ids = list(nodes)
            for _ in range(rng.randint(1, 6)):
                a, b = rng.sample(ids, 2)
                if nodes[a] == nodes[b]:
                    continue
                g = [list(nodes[a])]
                for _ in range(rng.choice([0, 0, 1, 2])):
                    kind = rng.random()
                    last = g[-1]
                    if kind < 0.3:
                        g.append([last[0], self.coord(rng, stream)])          # vertical piece
                    elif kind < 0.6:
                        g.append([self.coord(rng, stream), last[1]])          # horizontal piece
                    else:
                        g.append([self.coord(rng, stream), self.coord(rng, stream)])
                g.append(list(nodes[b]))
                edges.append({"s": a, "t": b, "g": g})
            if not edges:
                edges.append({"s": 100, "t": 101, "g": [[0.0, 0.0], [3.0, 4.0]]})
        eids = rng.sample(range(1, 60), len(edges))
        for e, i in zip(edges, eids):
            e["id"] = i
        xs = [p[0] for e in edges for p in e["g"]]
        ys = [p[1] for e in edges for p in e["g"]]
        ax, ay = max(xs) - min(xs), max(ys) - min(ys)
        margin = rng.choice([0.05, 0.15, 0.3, 0.6])
        # cell sizes: keep at least one cell per side (the index divides the extent by the cell size)
        ex, ey = max(ax, 1e-9) * (1 + margin), max(ay, 1e-9) * (1 + margin)
        if ax == 0 or ay == 0:
            # degenerate extent in one direction: the index cannot be built with explicit cell sizes; widen with an oblique stub edge
            edges.append({"s": 900, "t": 901, "id": 99, "g": [[min(xs), min(ys)], [min(xs) + 2.0, min(ys) + 1.0]]})
            xs += [min(xs) + 2.0]; ys += [min(ys) + 1.0]
            ax, ay = max(xs) - min(xs), max(ys) - min(ys)
            ex, ey = ax * (1 + margin), ay * (1 + margin)
        res = [min(rng.choice([1.0, 2.0, 3.0, 5.0, 10.0]), ex), min(rng.choice([1.0, 2.0, 3.0, 5.0, 10.0]), ey)]
        if rng.random() < 0.1 and 0.02 < ax / ay < 50:
            res = None
        radius = rng.choice([0.5, 1.0, 2.0, 3.0, 5.5, 10.0])
        track = self.gen_track(rng, stream, edges, radius, ax)
        return {"kind": "net", "stream": stream, "edges": edges, "res": res, "margin": margin, "track": track,
                "radius": radius, "noise": rng.choice([1.0, 5.0, 50.0])}

    def gen_track(self, rng, stream, edges, radius, ax, home=None, avoid_vertical=False):
        """1..7 observations on / near / far from / outside the network; `home` = edges the track stays around"""
        track = []
        for _ in range(rng.randint(1, 7)):
            e = rng.choice(home if home else edges)
            i = rng.randrange(len(e["g"]) - 1)
            (x1, y1), (x2, y2) = e["g"][i], e["g"][i + 1]
            t = rng.choice([0.0, 0.25, 0.5, 0.75, 1.0, rng.random()])
            bx, by = x1 + t * (x2 - x1), y1 + t * (y2 - y1)
            how = rng.choices(["on", "near", "far", "out"], weights=[3, 6, 1.5, 0.5])[0]
            if how == "on":
                p = [bx, by]
            elif how == "near":
                p = [bx + rng.uniform(-1, 1) * min(radius, 3.0), by + rng.uniform(-1, 1) * min(radius, 3.0)]
            elif how == "far":
                p = [bx + rng.choice([-1, 1]) * radius * rng.uniform(1.0, 3.0), by + rng.choice([-1, 1]) * radius * rng.uniform(1.0, 3.0)]
            else:
                p = [bx + rng.choice([-1, 1]) * (ax + 50.0), by + rng.uniform(-100, 100)]
            if stream != "decimal" and how != "on":
                p = [round(p[0] * 4) / 4, round(p[1] * 4) / 4]
            elif stream == "decimal":
                p = [round(p[0], 2), round(p[1], 2)]
            if avoid_vertical:
                # keep the listed defect D16 (observation with the abscissa of a vertical segment) rare in the session
                # streams, whose purpose is the state carried from one track / call to the next
                for _ in range(4):
                    if any(g[j][0] == g[j + 1][0] == p[0] for ed in edges for g in [ed["g"]] for j in range(len(g) - 1)):
                        p[0] = p[0] + (0.01 if stream == "decimal" else 0.125)
            track.append([float(p[0]), float(p[1])])
        return track

    def random_session(self, rng, stream):
        """several mapOnNetwork calls on the SAME network / index objects: collections of 2..3 tracks that are not
        co-located, tracks matched again in a later call (their obs_noise / hmm_* columns already exist), user
        features with those names, radii and noise changing from call to call"""
        base = self.random_case(rng, stream)
        edges = base["edges"]
        xs = [p[0] for e in edges for p in e["g"]]
        ax = max(xs) - min(xs)
        ntr = rng.randint(2, 4)
        tracks = []
        for k in range(ntr):
            home = [rng.choice(edges)] if rng.random() < 0.6 else None
            tracks.append(self.gen_track(rng, stream, edges, base["radius"], ax, home=home, avoid_vertical=rng.random() < 0.9))
        if rng.random() < 0.15:
            tracks[rng.randrange(ntr)] = [[p[0] + ax + 60.0, p[1] - 40.0] for p in tracks[0]]      # a track entirely off the network
        calls = []
        ids = list(range(ntr))
        first = rng.sample(ids, rng.randint(2, min(3, ntr)))
        calls.append({"t": first, "radius": base["radius"], "noise": base["noise"], "bare": False})
        for _ in range(rng.randint(0, 2)):
            m = rng.randint(1, min(3, ntr))
            t = rng.sample(ids, m)
            calls.append({"t": t, "radius": rng.choice([base["radius"], 0.5, 1.0, 2.0, 3.0, 5.5, 10.0]),
                          "noise": rng.choice([1.0, 5.0, 50.0]), "bare": m == 1 and rng.random() < 0.6})
        if rng.random() < 0.3:
            calls.reverse()
        pre = {}
        for k in range(ntr):
            if rng.random() < 0.25:
                pre[str(k)] = rng.choice([{"obs_noise": 3.0}, {"hmm_inference": 0.0}, {"hmm_cost": 0.0, "speed": 1.5},
                                          {"speed": 2.5}, {"obs_noise": 20.0, "hmm_inference": 0.0, "hmm_cost": 0.0}])
        return {"kind": "session", "stream": "session-" + stream, "edges": edges, "res": base["res"], "margin": base["margin"],
                "tracks": tracks, "calls": calls, "pre": pre}

    @staticmethod
    def as_session(case):
        """every case is run as a session; the single-track kinds are one call with a bare Track"""
        if case["kind"] == "session":
            return case
        return {"tracks": [case["track"]], "pre": {},
                "calls": [{"t": [0], "radius": case["radius"], "noise": case["noise"], "bare": True}]}

    def describe(self, case):
        orient = set()
        for e in case["edges"]:
            for sg in segments([p[0] for p in e["g"]], [p[1] for p in e["g"]]):
                orient.add("z" if degenerate(sg) else "v" if sg[0] == sg[2] else "h" if sg[1] == sg[3] else "o")
        S = self.as_session(case)
        seen, rematch = set(), False
        for c in S["calls"]:
            rematch = rematch or any(t in seen for t in c["t"])
            seen.update(c["t"])
        return {"kind": case["kind"], "stream": case.get("stream", "?"), "edges": len(case["edges"]),
                "obs": sum(len(t) for t in S["tracks"]), "calls": len(S["calls"]),
                "max_tracks_per_call": max(len(c["t"]) for c in S["calls"]), "rematch": rematch, "pre_features": bool(S.get("pre")),
                "orient": "".join(sorted(orient)), "multi_vertex": any(len(e["g"]) > 2 for e in case["edges"])}

    def nontrivial(self, case):
        # at least one observation within the radius of some edge (exact geometry)
        S = self.as_session(case)
        for c in S["calls"]:
            for ti in c["t"]:
                for q in S["tracks"][ti]:
                    for e in case["edges"]:
                        X, Y = [p[0] for p in e["g"]], [p[1] for p in e["g"]]
                        if min(seg_d2(fr(q[0]), fr(q[1]), *sg) for sg in segments(X, Y)) < fr(c["radius"]) ** 2:
                            return True
        return False

    # ------------------------------------------------------------------ implementation
    def build(self, case):
        T = self.tl
        net = T["Network"]()
        for e in case["edges"]:
            tr = T["Track"]([T["Obs"](T["E"](x, y, 0), T["ObsTime"]()) for x, y in e["g"]])
            T["curv"](tr)
            ed = T["Edge"](e["id"], tr)
            ed.orientation = T["Edge"].DOUBLE_SENS
            ed.weight = tr.length()
            net.addEdge(ed, T["Node"](e["s"], tr.getFirstObs().position), T["Node"](e["t"], tr.getLastObs().position))
        si = T["SI"](net, resolution=None if case["res"] is None else tuple(case["res"]), margin=case["margin"], verbose=False)
        net.spatial_index = si
        net.prepare(verbose=False)
        return net

    @staticmethod
    def state_row(s):
        try:
            return [float(s[0].getX()), float(s[0].getY()), int(s[1]), float(s[2]), float(s[3])]
        except Exception:
            return ["?", repr(s)[:80]]

    @staticmethod
    def snap_track(o):
        return {"pos": [[b.position.getX(), b.position.getY(), b.position.getZ()] for b in o],
                "t": [str(b.timestamp) for b in o], "n": o.size(), "features": list(o.getListAnalyticalFeatures())}

    def impl(self, case):
        """runs the whole session on ONE network / index and the same Track objects; output: per call, per track"""
        T = self.tl
        mp = T["mapping"]
        S = self.as_session(case)
        key = json.dumps(case, sort_keys=True)
        try:
            net = self.build(case)
        except BaseException as e:   # building the network / its index is a precondition, not the property
            if isinstance(e, KeyboardInterrupt):
                raise
            self._cache[key] = []
            return {"invalid": "network or spatial index cannot be built: %s %s" % (err_kind(e), str(e)[:100])}
        tracks = []
        for ti, pts in enumerate(S["tracks"]):
            trk = T["Track"]([T["Obs"](T["E"](x, y, 0), T["ObsTime"].readUnixTime(1000 * (ti + 1) + 10 * i)) for i, (x, y) in enumerate(pts)])
            for name, val in sorted((S.get("pre") or {}).get(str(ti), {}).items()):
                trk.createAnalyticalFeature(name, val)
            tracks.append(trk)
        captured, snaps, done = [], [], []
        si = net.spatial_index
        orig = si.neighborhood

        def wrap(obj, j=None, unit=0):
            r = orig(obj, j, unit)
            if isinstance(obj, T["E"]):
                captured.append(None if r is None else [int(v) for v in r])
            return r
        si.neighborhood = wrap
        HMM = mp.HMM
        orig_est = HMM.estimate

        def est(self_, track, *a, **kw):
            # what the decoder is given for THIS track: S(track, k) for every epoch (mapping.STATES[k])
            try:
                snaps.append([list(self_.S(track, k)) for k in range(len(track))])
            except BaseException as e:
                snaps.append(None)
            r = orig_est(self_, track, *a, **kw)
            done.append(True)
            return r
        HMM.estimate = est
        saved = getattr(mp, "STATES", None)
        calls_out = []
        try:
            for call in S["calls"]:
                objs = [tracks[i] for i in call["t"]]
                before = [self.snap_track(o) for o in objs]
                del captured[:], snaps[:], done[:]
                arg = objs[0] if (call.get("bare") and len(objs) == 1) else self.tl["TC"](objs)
                err = None
                try:
                    mp.mapOnNetwork(arg, net, gps_noise=call["noise"], search_radius=call["radius"])
                except BaseException as e:
                    if isinstance(e, KeyboardInterrupt):
                        raise
                    err = {"err": err_kind(e), "detail": str(e)[:200]}
                touts, pos = [], 0
                for j, o in enumerate(objs):
                    n = o.size()
                    c = captured[pos:pos + n]
                    pos += len(c)
                    if j < len(done):
                        states = snaps[j] or []
                        idx, inf = [], []
                        for k in range(n):
                            v = o["hmm_inference", k]
                            hit = [i for i, st in enumerate(states[k]) if st is v] if k < len(states) else []
                            idx.append(hit[0] if hit else -1)
                            inf.append(self.state_row(v))
                        after = self.snap_track(o)
                        touts.append({"ti": call["t"][j], "cand": c, "states": [[self.state_row(st) for st in L] for L in states],
                                      "idx": idx, "inf": inf, "pos_after": after["pos"], "t_after": after["t"], "n_after": after["n"],
                                      "features": after["features"], "before": before[j], "nedges": net.getNumberOfEdges()})
                    elif err and j == len(done):
                        states = snaps[j] if j < len(snaps) and snaps[j] is not None else (getattr(mp, "STATES", None) or [])
                        if j < len(snaps) and snaps[j] is None:
                            states = []
                        t = {"ti": call["t"][j], "cand": c, "states": [[self.state_row(st) for st in L] for L in states]}
                        t.update(err)
                        touts.append(t)
                co = {"tracks": touts, "global_states_len": len(getattr(mp, "STATES", None) or [])}
                if err:
                    co.update(err)
                calls_out.append(co)
                if err:
                    break
        finally:
            HMM.estimate = orig_est
            if saved is not None:
                mp.STATES = saved
        self._cache[key] = [(ci, t) for ci, co in enumerate(calls_out) for t in co["tracks"] if t["cand"]]
        out = {"calls": calls_out}
        if calls_out and "err" in calls_out[-1]:
            out["err"] = calls_out[-1]["err"]
            out["detail"] = calls_out[-1].get("detail")
        return out

    # ------------------------------------------------------------------ model
    def requests(self, case):
        key = json.dumps(case, sort_keys=True)
        if key not in self._cache:
            self.impl(case)
        S = self.as_session(case)
        es = "|".join(";".join("%s,%s" % (fbits(p[0]), fbits(p[1])) for p in e["g"]) for e in case["edges"])
        lines = []
        for ci, t in self._cache[key]:
            cand, idx = t["cand"], t.get("idx")
            n = len(cand)
            track = S["tracks"][t["ti"]][:n]
            tr = ";".join("%s,%s" % (fbits(p[0]), fbits(p[1])) for p in track)
            cs = ";".join("n" if c is None else ("_" if not c else ",".join(str(v) for v in c)) for c in cand)
            if idx is None or any(i < 0 for i in idx) or len(idx) != n:
                ix = "x"
            else:
                ix = ",".join(str(i) for i in idx)
            lines.append("C10.match %s %s %s %s %s" % (fbits(S["calls"][ci]["radius"]), es, tr, cs, ix))
        return lines

    ERR = {"zerodiv": "err:zerodiv", "unbound": "err:UnboundLocalError", "index": "err:index"}

    @staticmethod
    def parse_states(tok):
        if tok == "_":
            return []
        rows = []
        for item in tok.split(";"):
            a = item.split(",")
            rows.append([bitsf(a[0]), bitsf(a[1]), int(a[2]), bitsf(a[3]), bitsf(a[4])])
        return rows

    def decode_one(self, reply):
        r = reply.split()
        if r[0] == "err":
            return {"err": self.ERR[r[1]]}
        if r[0] != "ok":
            raise ValueError(reply)
        states = [self.parse_states(t) for t in r[1].split("|")]
        inf = self.parse_states(r[3]) if r[3] != "_" else None
        return {"states": states, "inf": inf}

    def decode(self, case, replies):
        return {"tracks": [self.decode_one(r) for r in replies]}

    def compare(self, case, impl_out, model_out):
        if "invalid" in impl_out:
            return None
        touts = [(ci, t) for ci, co in enumerate(impl_out["calls"]) for t in co["tracks"] if t["cand"]]
        if len(touts) != len(model_out["tracks"]):
            return "%d matched tracks on the implementation side, %d model replies" % (len(touts), len(model_out["tracks"]))
        for (ci, t), m in zip(touts, model_out["tracks"]):
            w = self.compare_track(t, m)
            if w:
                return "call %d, track %d: %s" % (ci, t["ti"], w)
        return None

    def compare_track(self, impl_out, model_out):
        if "err" in impl_out:
            if impl_out["err"] in ("err:zerodiv", "err:UnboundLocalError"):
                if model_out.get("err") != impl_out["err"]:
                    return "impl raised %s, model says %s" % (impl_out["err"], json.dumps(model_out)[:300])
                return None
            # an exception of the decoder (a parameter of the model): only the candidate states can be compared
            if "err" in model_out:
                return "impl raised %s, model raised %s" % (impl_out["err"], model_out["err"])
            n = len(model_out["states"])
            if len(impl_out["states"]) >= n and close(impl_out["states"][:n], model_out["states"], self.rel_tol):
                return None
            return "STATES differ: impl=%s model=%s" % (json.dumps(impl_out["states"])[:300], json.dumps(model_out["states"])[:300])
        if "err" in model_out:
            return "model raised %s, impl returned" % model_out["err"]
        if not close(impl_out["states"], model_out["states"], self.rel_tol):
            return "the candidate lists given to the decoder differ from the model's STATES: impl=%s model=%s" % (
                json.dumps(impl_out["states"])[:400], json.dumps(model_out["states"])[:400])
        if model_out["inf"] is None:
            return "hmm_inference holds an object that is not one of STATES[k] (indices %s)" % impl_out.get("idx")
        if not close(impl_out["inf"], model_out["inf"], self.rel_tol):
            return "hmm_inference differs: impl=%s model=%s" % (json.dumps(impl_out["inf"])[:400], json.dumps(model_out["inf"])[:400])
        return None

    # ------------------------------------------------------------------ oracle
    def check_state(self, case, k, row):
        """the property for one observation: flagged, or a point of an existing edge within the radius with
        along-edge distances to the two end nodes that add up to the edge length"""
        if len(row) != 5 or row[0] == "?":
            return "hmm_inference[%d] is not a state tuple: %s" % (k, row)
        px, py, elem, d0, d1 = row
        q = case["track"][k]
        if elem == -1:
            if d0 == -1 and d1 == -1 and px == q[0] and py == q[1]:
                return None
            return "observation %d: flag state %s is not (position, -1, -1, -1)" % (k, row)
        for v in (px, py, d0, d1):
            if v != v or math.isinf(v):
                return "observation %d: non-finite state %s" % (k, row)
        if not (0 <= elem < len(case["edges"])):
            return "observation %d: edge number %s does not exist (0..%d)" % (k, elem, len(case["edges"]) - 1)
        g = case["edges"][elem]["g"]
        X, Y = [p[0] for p in g], [p[1] for p in g]
        segs = segments(X, Y)
        sc = max([1.0] + [abs(v) for v in X + Y + [q[0], q[1]]])
        tol = TOL * sc
        fx, fy = fr(px), fr(py)
        offs = [seg_d2(fx, fy, *s) for s in segs]
        if min(offs) > F(tol) ** 2:
            return "observation %d: point (%r, %r) is not on the geometry of edge number %d (off by %.3g)" % (k, px, py, elem, fsqrt(min(offs)))
        dq = fsqrt((fr(q[0]) - fx) ** 2 + (fr(q[1]) - fy) ** 2)
        if dq > case["radius"] + tol:
            return "observation %d: assigned point (%r, %r) is %.6g away, search radius %s" % (k, px, py, dq, case["radius"])
        L = edge_length(g)
        ltol = TOL * max(1.0, L, sc)
        if abs(d0 + d1 - L) > ltol:
            return "observation %d: distances to the end nodes %r + %r != edge length %r" % (k, d0, d1, L)
        # measured along the edge: consistent with one of the segments that carry the point
        acc = 0.0
        ok = False
        for i, s in enumerate(segs):
            if offs[i] <= F(tol) ** 2:
                along = acc + fsqrt((fx - s[0]) ** 2 + (fy - s[1]) ** 2)
                if abs(d0 - along) <= ltol:
                    ok = True
            acc += fsqrt((s[2] - s[0]) ** 2 + (s[3] - s[1]) ** 2)
        if not ok:
            return "observation %d: distance to the source node %r is not the along-edge abscissa of the assigned point" % (k, d0)
        return None

    def spec_track(self, pc, out):
        """the property for one track of one call; pc = {"edges", "track", "radius"}"""
        b = out["before"]
        n = len(pc["track"])
        if out["n_after"] != n or b["n"] != n:
            return "the track has %d observations after map-matching, %d before" % (out["n_after"], n)
        if out["pos_after"] != b["pos"]:
            return "positions changed: before %s after %s" % (b["pos"][:4], out["pos_after"][:4])
        if out["t_after"] != b["t"]:
            return "timestamps changed"
        if sorted(out["features"]) != sorted(set(b["features"] + ["obs_noise", "hmm_inference", "hmm_cost"])):
            return "feature columns after map-matching: %s (before: %s)" % (out["features"], b["features"])
        if len(out["inf"]) != n:
            return "hmm_inference has %d entries for %d observations" % (len(out["inf"]), n)
        for k in range(n):
            w = self.check_state(pc, k, out["inf"][k])
            if w:
                return w
        return None

    def walk(self, case, out):
        """(call index, pseudo-case, track output) in the order of the session"""
        S = self.as_session(case)
        for ci, co in enumerate(out["calls"]):
            for t in co["tracks"]:
                yield ci, co, {"edges": case["edges"], "track": S["tracks"][t["ti"]], "radius": S["calls"][ci]["radius"]}, t

    def spec(self, case, out):
        if "invalid" in out:
            return None      # outside the domain: no network / index to match on
        S = self.as_session(case)
        multi = case["kind"] == "session"
        for ci, co, pc, t in self.walk(case, out):
            where = ("call %d, track %d: " % (ci, t["ti"])) if multi else ""
            if "err" in t:
                return where + "mapOnNetwork raised %s" % t["err"]
            w = self.spec_track(pc, t)
            if w:
                return where + w
        for ci, co in enumerate(out["calls"]):
            if "err" in co:
                return "call %d: mapOnNetwork raised %s" % (ci, co["err"])
            if len(co["tracks"]) != len(S["calls"][ci]["t"]):
                return "call %d: %d of %d tracks were map-matched" % (ci, len(co["tracks"]), len(S["calls"][ci]["t"]))
        if len(out["calls"]) != len(S["calls"]):
            return "%d of %d calls ran" % (len(out["calls"]), len(S["calls"]))
        return None

    # ------------------------------------------------------------------ known findings
    def classify(self, case, impl_out, msg):
        if not msg or not impl_out or "err" not in impl_out or "calls" not in impl_out:
            return None
        # the first failure of the session must be the exception, and it must be of a listed kind
        for ci, co, pc, t in self.walk(case, impl_out):
            if "err" in t:
                return self.classify_track(pc, t)
            if self.spec_track(pc, t):
                return None
        return None

    def classify_track(self, case, impl_out):
        cand = impl_out.get("cand") or []
        if impl_out["err"] == "err:zerodiv" and cand and cand[-1]:
            # D16 reached through __projOnTrack: the observation being processed has the abscissa of a vertical
            # segment of a candidate edge and the code's pseudo-foot (x, y2 - y1) passes the inclusion test
            q = case["track"][len(cand) - 1]
            for elem in cand[-1]:
                if not (0 <= elem < len(case["edges"])):
                    continue
                g = case["edges"][elem]["g"]
                for j in range(len(g) - 1):
                    (x1, y1), (x2, y2) = g[j], g[j + 1]
                    if x1 == x2 and y1 != y2 and q[0] == x1 and min(y1, y2) <= (y2 - y1) <= max(y1, y2):
                        return "vertical-segment-zerodiv"
            return None
        if impl_out["err"] == "err:OverflowError" and len(cand) == len(case["track"]):
            # exp(-(dtopo - dgeom) / 10) in the transition model: two consecutive observations farther apart than ~7.1 km
            t = case["track"]
            for k in range(len(t) - 1):
                if math.hypot(t[k + 1][0] - t[k][0], t[k + 1][1] - t[k][1]) > OVERFLOW_JUMP - 2 * case["radius"]:
                    return "far-jump-overflow"
        return None

    # ------------------------------------------------------------------ shrinking / search
    def shrink(self, case):
        es = case["edges"]
        if case["kind"] == "session":
            calls, tracks = case["calls"], case["tracks"]
            if len(calls) > 1:
                for k in range(len(calls)):
                    yield dict(case, calls=calls[:k] + calls[k + 1:])
            for k, c in enumerate(calls):
                if len(c["t"]) > 1:
                    for j in range(len(c["t"])):
                        yield dict(case, calls=calls[:k] + [dict(c, t=c["t"][:j] + c["t"][j + 1:])] + calls[k + 1:])
            if case.get("pre"):
                yield dict(case, pre={})
            for ti, t in enumerate(tracks):
                if len(t) > 1:
                    for k in range(len(t)):
                        yield dict(case, tracks=tracks[:ti] + [t[:k] + t[k + 1:]] + tracks[ti + 1:])
        else:
            t = case["track"]
            if len(t) > 1:
                for k in range(len(t)):
                    yield dict(case, track=t[:k] + t[k + 1:])
        if len(es) > 1:
            used = set()
            for k in range(len(es)):
                yield dict(case, edges=es[:k] + es[k + 1:])
        for k, e in enumerate(es):
            if len(e["g"]) > 2:
                for j in range(1, len(e["g"]) - 1):
                    yield dict(case, edges=es[:k] + [dict(e, g=e["g"][:j] + e["g"][j + 1:])] + es[k + 1:])

    def mutate(self, case, rng):
        if case["kind"] == "session":
            for dx, dy in ((0.5, 0), (0, 0.5)):
                yield dict(case, tracks=[[[p[0] + dx, p[1] + dy] for p in t] for t in case["tracks"]])
            return
        for dx, dy in ((0.5, 0), (0, 0.5), (-0.5, 0), (0, -0.5)):
            yield dict(case, track=[[p[0] + dx, p[1] + dy] for p in case["track"]])
        for r in (0.5, 1.0, 2.0, 5.5):
            if r != case["radius"]:
                yield dict(case, radius=r)


# ---- tie to the source by translation (tools/py2lean.py -> lean/TracklibVerif/Gen/Geometry.lean, regenerated on every run)
P.tie_modules = ["TracklibVerif.Tie.C10"]
P.theorems = P.theorems + [
    ("TracklibVerif.Tie.C10", "TV.Tie.C10.tie_proj_segment", "the Lean translation of the CURRENT source of geometry.proj_segment (with cartesienne, projection_droite) equals the model's projSegment on all arguments, exceptions included"),
    ("TracklibVerif.Tie.C10", "TV.Tie.C10.tie_projection_droite", "the translation of the CURRENT source of geometry.projection_droite equals the model's projectionDroite on all arguments"),
]
