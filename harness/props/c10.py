"""C10 — map-matched positions lie on a real edge within the search radius
(tracklib/algo/mapping.py mapOnNetwork / __mapOnNetwork / __distToNode / __projOnTrack, the construction path
core/network.py addNode / addEdge + computeAbsCurv on the edge geometries, the spatial index through the model of C08;
networks and tracks with altitudes through Model/MapMatchZ: every function above on ENUCoords(E, N, U), Track.length()).
Two models are run on every case: the core (Model/MapMatch: candidate loop, flag state, inference column) on the real
candidate lists in their real order with the real decoded indices, and the composed one (Model/MapMatchNet: network
construction, index, search unit, candidates, front end) which is only told which edge the real decoder chose."""
import json, math, os, tempfile
from fractions import Fraction as F
from engine import Prop, fbits, bitsf, close, err_kind
from props.c20 import fr, seg_d2, segments, degenerate

TOL = 1e-9


def fsqrt(x):
    return math.sqrt(float(x))


def edge_length(g):
    """planimetric length of a geometry (the length the `abs_curv` column of tracklib measures)"""
    return sum(fsqrt((fr(g[i + 1][0]) - fr(g[i][0])) ** 2 + (fr(g[i + 1][1]) - fr(g[i][1])) ** 2) for i in range(len(g) - 1))


def zof(p):
    """altitude of a vertex / observation / node coordinate given as [x, y] or [x, y, z]"""
    return float(p[2]) if len(p) > 2 else 0.0


def xyt(p):
    return (p[0], p[1])


def flat_geom(g):
    """planimetrically zero-length: all vertices share their (x, y)"""
    return len({xyt(p) for p in g}) == 1


def has_z(case):
    """the case carries altitudes somewhere (edge vertices, node table, observations): it is run on Model/MapMatchZ"""
    if any(len(p) > 2 for e in case["edges"] for p in e["g"]):
        return True
    if any(len(v) > 2 for v in (case.get("nodes") or {}).values()):
        return True
    tracks = case["tracks"] if case.get("kind") == "session" else [case["track"]]
    return any(len(p) > 2 for t in tracks for p in t)


class P(Prop):
    id = "C10"
    design_ref = "DESIGN.md section 5, C10"
    M = "TracklibVerif.Props.C10"
    MR = "TracklibVerif.Props.C10Reach"
    theorems = [
        (M, "TV.C10.candidate_sound", "STATES[i] is never empty and holds the flag state or sound candidates: existing edge number, point on a segment of its geometry, d < radius, d0 + d1 = edge length"),
        (M, "TV.C10.all_states_sound", "STATES has one such list per observation, in order"),
        (M, "TV.C10.inferred_is_candidate", "for every decoder: hmm_inference[k] is one of STATES[k], so every observation is flagged or assigned a sound candidate"),
        (M, "TV.C10.track_preserved", "mode 1 (any mode outside {3,4,5}): same observations, order, positions, timestamps; only obs_noise / hmm_inference / hmm_cost are created"),
        (M, "TV.C10.timestamps_preserved", "every mode: count and timestamps unchanged"),
        (M, "TV.C10.decoder_in_range_total", "a decoder answering in-range indices never makes the backward step fail"),
        (M, "TV.C10.viterbi_decoder_total", "with the Viterbi model of C09 over any cost tables, the decoded indices are in range (candidate lists are never empty), so the backward step never fails"),
        (M, "TV.C10.abs_curv_prefix_lengths", "computeAbsCurv on an edge geometry: abs_curv[i] is the length of the geometry up to vertex i, the last value is the edge length"),
        (M, "TV.C10.dist_to_nodes_along_edge", "__distToNode of a point of segment i: length of the geometry from its first vertex to the point, resp. from the point to its last vertex; they add up to the edge length"),
        (M, "TV.C10.addEdge_keeps_geometry", "Network.addEdge stores the geometry and its abs_curv column as given, leaves every other edge and every registered node (first coordinates) untouched"),
        (M, "TV.C10.built_network_edges", "a network built by addEdge calls with distinct edge ids (index attached after or before the last edges) has, under edge number n, the n-th geometry handed over, unchanged"),
        (M, "TV.C10.states_flag_or_matched", "STATES[i] is the flag state alone or a non-empty list of matched states (existing edge number, point on that geometry, d < radius, along-edge distances adding up to the length)"),
        (M, "TV.C10.flag_iff_out_of_reach", "STATES[i] contains a flag state iff no candidate edge projects strictly within the radius; a matched state never has edge number -1"),
        (M, "TV.C10.front_end_sound", "mapOnNetwork on a bare track or a collection, any decoder, any index attached to the network: every processed track keeps its observations and every hmm_inference entry is the flag state or matched on the geometry stored in the network"),
        (M, "TV.C10.front_end_tracks_independent", "the result of the j-th track is the result of matching it alone; a bare Track = collection of one; transition_cost / debug / verbose influence nothing; without exception every track is processed"),
        (M, "TV.C10.front_end_track_preserved", "observations unchanged; obs_noise / hmm_inference / hmm_cost created when absent, existing names kept; an existing obs_noise column keeps its content"),
        (M, "TV.C10.matched_on_built_network", "on a network built by addEdge from computeAbsCurv-made edges with distinct ids, a matched state names the number n of an edge handed over and lies on THAT geometry, with along-edge distances adding up to its length"),
        (M, "TV.C10.viterbi_inference", "with Viterbi.decode (C09: decode_succeeds, decoded_valid) over any cost tables sized like the candidate lists: no exception, hmm_inference[k] is one of STATES[k]"),
        (M, "TV.C10.near_edge_is_candidate", "with the index of C08 (neighborhood_complete): an edge with a point within d of the observation is a candidate whenever the unit computed by __mapOnNetwork is groundDistanceToUnits(d)"),
        (M, "TV.C10.abs_curv_planimetric", "with altitudes: computeAbsCurv (ds = distance2DTo) on a 3D geometry is computeAbsCurv on its planimetric vertices; abs_curv[i] is the PLANIMETRIC length up to vertex i, whatever the altitudes"),
        (M, "TV.C10.weight_is_3d_length", "the edge made by NetworkReader / the builders: computed abs_curv column, weight = Track.length() = the 3D length, which is >= the planimetric length the matched distances add up to, with equality on a level edge"),
        (M, "TV.C10.states_flag_or_matched_3d", "with altitudes: STATES[i] is the flag state with the observation's own 3D position, or matched states: U = 0, on the planimetric geometry of an existing edge, d < radius, planimetric along-edge distances adding up to the planimetric edge length"),
        (M, "TV.C10.altitudes_irrelevant", "forgetting the altitudes commutes with building the network (same numbers, abs_curv columns, spatial index, exceptions) and with preparing STATES (same candidates, points, distances, exceptions)"),
        (M, "TV.C10.front_end_sound_3d", "mapOnNetwork on a network and tracks with altitudes: every processed track keeps its observations (3D positions), gets the three columns, every hmm_inference entry is one of STATES[k]: the flag state or matched as in states_flag_or_matched_3d"),
        (M, "TV.C10.front_end_tracks_independent_3d", "with altitudes: the result of the j-th track is the result of matching it alone; a bare Track = collection of one; transition_cost / debug / verbose influence nothing; without exception every track is processed"),
        (M, "TV.C10.matched_on_built_network_3d", "a network built by addEdge from LINESTRING(x y z)-made edges stores the n-th geometry under number n WITH its altitudes; a matched state lies on the planimetric vertices of THAT geometry, distances adding up to its planimetric length"),
        (M, "TV.C10.near_edge_is_candidate_3d", "near_edge_is_candidate with altitudes: the index reads x, y only"),
        (M, "TV.C10.returns_on_regular_geometries", "on edges with computed abs_curv columns whose geometries have no kept vertical segment and at least one kept segment, candidate lists of existing edge numbers and in-range decoded indices: __mapOnNetwork raises nothing"),
        (M, "TV.C10.candidates_are_edge_numbers", "on a network built by addEdge calls with distinct ids the spatial index (constructor before or after the last edges) only answers numbers of existing edges: no KeyError / IndexError in the candidate loop"),
        (M, "TV.C10.states_returned_on_built_network", "on a built network with regular geometries the preparation of STATES for a whole track returns unless the index query itself raises"),
        (M, "TV.C10.states_returned_on_built_network_3d", "the same with altitudes (regularity of the planimetric geometries)"),
        (M, "TV.C10.states_returned_3d", "the same for STATES[i] on data with altitudes: whether the projection can raise is decided by the planimetric geometry alone"),
        (M, "TV.C10.zero_length_edge_candidate", "a candidate edge whose vertices coincide (computeAbsCurv-made) is an ordinary candidate (fix 563eeba): nothing is raised; it yields a state exactly when the vertex is strictly within the radius, and that state is (the vertex, the edge number, 0, 0)"),
        (M, "TV.C10.order_and_stamps_kept", "__mapOnNetwork on one track, every network / decoder / arguments and EVERY assignment of time stamps (reverse order, ties, none): the list of observations — order, positions, time stamps — is handed back as it was"),
        (M, "TV.C10.time_stamps_never_read", "two tracks differing by their time stamps only get the same STATES; with a decoder that reads positions, feature names and obs_noise only, also the same hmm_inference, names, obs_noise column or the same exception: no chronological order is required, none is established"),
        (MR, "TV.C10.edge_within_unit_reach_is_candidate", "near_edge_is_candidate without its hypothesis on the unit: on a built index, radius >= 0, observation in the extent, newunit = ceil(search_radius / min(csize, lsize)) =: U does not raise, U >= 0, and every edge with a point within U * min(dX, dY) of the observation is among the candidates (C08 neighborhood_unit_complete)"),
        (MR, "TV.C10.edge_within_radius_is_candidate_on_coarse_index", "if min(csize, lsize) <= min(dX, dY) (numbers of cells vs cell sides) every edge with a point within the SEARCH RADIUS of an observation of the extent is among its candidates: no edge within the radius is missed"),
        (MR, "TV.C10.edge_within_unit_reach_is_candidate_3d", "edge_within_unit_reach_is_candidate with altitudes: planimetric distances, the index reads x, y only"),
        (MR, "TV.C10.edge_within_radius_missed", "witness in the model that the condition cannot be dropped: 18 x 18 cells of side 1, radius 5 -> unit 1; the observation (6,3), 3 from edge 0, has no candidate and is flagged; (6,1) is matched (replayed on the real code: corpus/C10/edge_within_radius_not_candidate.json)"),
    ]
    partial = []
    open_statements = ["completeness of the candidates in terms of the search radius (no edge within the radius is missed) is not claimed by the property and does not hold in general "
                       "(edge_within_radius_missed: witness in the model, same answer of the real code, corpus/C10/edge_within_radius_not_candidate.json): "
                       "__mapOnNetwork derives the search unit from the NUMBERS of cells (U = ceil(search_radius / min(csize, lsize))), not from the cell size. What IS proved: the candidates "
                       "are complete for the ground distance U * min(dX, dY) (edge_within_unit_reach_is_candidate, from C08's neighborhood_unit_complete), hence for the search radius when "
                       "min(csize, lsize) <= min(dX, dY) (edge_within_radius_is_candidate_on_coarse_index); both over an exact floor (on floats the boundary distance = U * min(dX, dY) and a "
                       "quotient within an ulp of an integer may fall on either side; compare() samples them on the real candidate lists with the reach taken 1e-7 short). For indexes "
                       "extended by later addEdge calls (edges possibly outside the extent) only C08's late_feature_* theorems apply; near_edge_is_candidate keeps the older conditional form",
                       "the decoder's choice among the candidates (which sound candidate is inferred) is C09's subject; here only that the inferred state is one of STATES[k]",
                       "exceptions: the soundness theorems are about a call that returns; returns_on_regular_geometries says when it does (no kept vertical segment, no edge with fewer than two "
                       "vertices, candidates = existing edge numbers, in-range decoder). Outside: ZeroDivisionError of the projection on a vertical segment (finding D16, class "
                       "vertical-segment-zerodiv), IndexError on a candidate edge with fewer than two vertices — mirrored by the models and "
                       "compared —; a candidate edge all of whose vertices coincide is an ordinary candidate since fix 563eeba (zero_length_edge_candidate; former class zero-length-edge-unbound); AnalyticalFeatureError on a track without observation; that the index of a built network only answers numbers of existing "
                       "edges is proved here (candidates_are_edge_numbers); that the index QUERY itself does not raise (neighborhood on a built index) is C08's subject and stays a hypothesis "
                       "of states_returned_on_built_network",
                       "IEEE rounding: the theorems are over an ordered field with an exact square root; the float behaviour is sampled by the transfer check (tolerance 1e-9 relative)",
                       "which length 'the edge length' is: the code measures planimetrically (abs_curv = sums of distance2DTo, assigned point with U = 0, __distToNode with distance2DTo): the "
                       "theorems of Part IV state d0 + d1 = planimetric length of the stored geometry; Track.length() / Edge.weight is the 3D length (weight_is_3d_length) and differs on every "
                       "edge that is not level. The oracle accepts either reading, consistently (sum AND abscissa planimetric, or sum AND abscissa 3D). Outside the statement, noted: the "
                       "transition model (__tst_log -> Network.distanceBtwPts) subtracts the planimetric abscissa from the 3D Track.length() of the edge",
                       "time stamps: the model's observations carry an opaque stamp that nothing reads (order_and_stamps_kept, time_stamps_never_read); that HMM.estimate itself is time-blind "
                       "(Decoder.TimeBlind) is a hypothesis here — the decoder is C09's subject — and is sampled by the transfer check on tracks with tied / absent / decreasing / shuffled stamps",
                       "coordinates other than ENUCoords (GeoCoords / ECEFCoords networks: distance2DTo goes through a local ENU frame) are not modelled"]
    modelled = ("algo/mapping.py mapOnNetwork (bare track / collection / iterable, gps_noise, transition_cost, search_radius, debug, verbose), __mapOnNetwork (obs_noise column, search unit, "
                "neighborhood call, the observations with their time stamps as opaque keys — never read, handed back in the order given —, candidate loop: projection on EDGES[getEdgeId(elem)].geom, d < search_radius, __distToNode from abs_curv; flag state; hmm_inference from the decoded "
                "indices; created feature columns; positions untouched for mode 1), __distToNode, __projOnTrack; core/network.py Node, Edge, Network.addNode / addEdge (node table, EDGES, "
                "__idx_edges, registration in an attached index), getEdgeId, getNumberOfEdges, __getitem__, bbox; algo/cinematics.py computeAbsCurv (ds + INTEGRATOR) on edge geometries; ON DATA WITH ALTITUDES (Model/MapMatchZ: the same "
                "functions on ENUCoords(E, N, U)): ENUCoords.distance2DTo / distanceTo, algo/analytics.py ds, Track.length() (the edge weight of NetworkReader without weight column and of the "
                "builders), Track.getX() / getY() + ENUCoords(xproj, yproj, 0) of __projOnTrack (C20's projOnTrack3), the flag state holding the observation's own position, the index reading "
                "x, y only, io/network_reader.py wktLineStringToObs keeping the third number of LINESTRING(x y z, ...) (exercised through the reader, not translated); "
                "core/spatial_index.py through Model/Grid (C08): constructor on the network, addFeature, neighborhood(coord, unit). Parameter of the model (taken from the real run): the "
                "HMM-decoded states (given to the composed model as edge numbers, to the core model as indices); the core model is also run on the real candidate lists in their real order")
    rule = ("grid-like and random networks on an integer lattice and on two-decimal coordinates (oblique / horizontal / vertical, 2..4-vertex edges, arbitrary edge and node ids); REAL "
            "stream: networks as data delivers them — node ids shared by edges whose end vertices differ (tolerance-merged, 0.01..0.6), separate node tables, edges with up to 13 vertices, "
            "repeated vertices, zero-length edges (all vertices coincide; 12 % of the real networks carry one, three in four of them AT a node of the network, where the observations around that node have it as a candidate — an ordinary candidate since fix 563eeba, judged like any other), loops, parallel edges, one-way edges, two components — built by hand (Node from the end positions), from a node table, through "
            "NetworkReader.readFromFile (CSV/WKT, string ids), or with the index attached before the last edges (addEdge registers them), integer or string ids; spatial index of several "
            "cell sizes and margins, tracks of 1..7 observations (a third of the real stream: 1..2) on / near / far from the network, exactly on nodes and vertices, outside the index "
            "extent, several radii and noise values; SESSION stream: on one network / index object, 1..3 calls of mapOnNetwork, the first on a TrackCollection of 2..3 tracks of different "
            "lengths that are not co-located, later calls on collections, plain lists or bare tracks, tracks matched again (their obs_noise / hmm_inference / hmm_cost columns already "
            "exist), user features with those names, radius and noise changing between calls, transition_cost / debug / verbose / positional arguments, search_radius or gps_noise left to their defaults (50), integral arguments passed as ints, for 30 % of the sessions the module "
            "was used before on another (one-edge) network; the oracle is applied to every "
            "track of every call through its own hmm_inference column and measures on Edge.geom as read back from the network after the call; the network state after construction "
            "(geometries with altitudes, abs_curv columns, edge weights (3D cases), node table with altitudes, edge ends, grid) and per track STATES (as sets, and in the real order), hmm_inference, feature names, obs_noise column and "
            "positions (3D) are compared with the model's. REACH: on every returned track with the index built on all edges, compare() also samples edge_within_unit_reach_is_candidate on the REAL "
            "candidate lists (every edge at a brute-force distance <= U * min(dX, dY) - 1e-7 relative of an observation of the extent must be a candidate; about 4 observations per case; over half of them on a "
            "coarse index where that reach covers the search radius; about 9 % have an edge within the search radius that is NOT a candidate — the class of the witness edge_within_radius_missed, allowed by the property). ALTITUDES: 40 % of the cases of every stream (and the enumerated scope enum-z) "
            "carry altitudes (20 % of the TIMES stream) — hill (one altitude per planimetric position, lattice or two-decimal values 0..30), plateau (one non-zero altitude everywhere), mixed (some edges 2D: "
            "LINESTRING(x y, ...) next to LINESTRING(x y z, ...) in one file), obs (2D network, observations with altitudes), node tables with altitudes, observations with altitudes half "
            "of the time; such cases run on Model/MapMatchZ (commands net3 / match3), the others on the 2D models. TIME STAMPS: the tracks of the streams above are stamped chronologically (10 s apart); the "
            "TIMES stream (enumerated: 3 observations x every assignment of the stamps {0, 10, 20} s, + no time information; random: single tracks, a quarter of them LONG — 17..40 observations —, "
            "and sessions; 20 % of the ordinary sessions too) carries stamps as logs, merged files and positions-only data deliver them: none at all (Obs(coords): all 01/01/1970), one stamp "
            "everywhere, reverse chronological, shuffled, one step back, runs of equal stamps, sub-second stamps, stamped and unstamped observations mixed; the stamps are given to the composed model "
            "(opaque keys, in the order of the track) and the stamps read back after the call, field by field (milliseconds included), are compared with the model's and with those read before the call. non-trivial = at least one observation within the radius of an edge")
    trusted = ["the decoded states (HMM.estimate) are an input of the model, captured from the real call (class attribute wrapped for the duration of a case, no source hook); the candidate "
               "lists the decoder receives for each track are read through the HMM's own state function at the entry of HMM.estimate; the real candidate order (SpatialIndex.neighborhood "
               "returns list(set)) is captured by wrapping the instance attribute and fed to the core model, the composed model computes the candidates itself (compared as sets)"]

    def setup(self):
        import tracklib
        from tracklib import Obs, ObsTime, ENUCoords, Track, TrackCollection, Network, Node, Edge, SpatialIndex, computeAbsCurv
        from tracklib import NetworkReader, NetworkFormat
        from tracklib.algo import mapping
        self.tl = dict(Obs=Obs, ObsTime=ObsTime, E=ENUCoords, Track=Track, Network=Network, Node=Node, Edge=Edge,
                       SI=SpatialIndex, curv=computeAbsCurv, mapping=mapping, TC=TrackCollection,
                       NR=NetworkReader, NF=NetworkFormat)
        self._cache = {}
        # classes of findings listed for this property (known_findings.json is read, never written): inputs of a class that
        # is not listed are generated only where they cannot reach the defect
        self.listed = set()
        try:
            with open(os.path.join(os.path.dirname(os.path.dirname(os.path.dirname(os.path.abspath(__file__)))), "known_findings.json")) as fh:
                self.listed = {e.get("class") for e in json.load(fh).get("entries", []) if e.get("property") == "C10" and e.get("status") == "finding"}
        except Exception:
            pass

    # ------------------------------------------------------------------ generators
    def exhaustive_scopes(self, tier):
        return ["one 2-vertex edge in each of the 8 lattice directions (and 3 lengths) x observations on a 7x7 lattice around it x radii {1, 2.5}",
                "one 3-vertex edge WITH ALTITUDES (4 directions x 3 altitude profiles: hill, plateau, ramp) followed by a 2D edge x observations on a 9x9 "
                "lattice around it (half of them with an altitude) x radii {1, 2.5}",
                "a track of 3 observations next to a 2-edge network x every assignment of the time stamps {0, 10, 20} s to the observations (27: every order, every "
                "tie pattern) + no time information + stamped / unstamped mixed"]

    def cases(self, rng, tier):
        out = []
        # enumerated: single edge of every orientation, observation everywhere around it
        for (dx, dy) in [(1, 0), (0, 1), (1, 1), (1, -1), (2, 1), (1, 2), (-2, 1), (3, 0), (0, 3), (-1, -3)]:
            for radius in (1.0, 2.5):
                pts = [[float(x), float(y)] for x in range(-2, 5) for y in range(-2, 5)]
                for chunk in range(0, len(pts), 7):
                    out.append({"kind": "single", "stream": "enum",
                                "edges": [{"id": 7, "s": 1, "t": 2, "g": [[0.0, 0.0], [float(dx), float(dy)]]},
                                          {"id": 3, "s": 2, "t": 5, "g": [[float(dx), float(dy)], [float(dx) + 2.0, float(dy) + 1.0]]}],
                                "res": [1.0, 1.0], "margin": 0.3, "track": pts[chunk:chunk + 7], "radius": radius, "noise": 2.0})
        # enumerated, with altitudes: a 3-vertex edge over a hill / on a plateau / up a ramp, then an edge given in 2D
        for (dx, dy) in [(1, 0), (0, 1), (1, 1), (2, -1)]:
            for prof in [(0.0, 2.0, 0.0), (1.5, 1.5, 1.5), (0.0, 3.0, 5.0)]:
                for radius in (1.0, 2.5):
                    pts = [[float(x), float(y)] for x in range(-2, 7) for y in range(-2, 7)]
                    for chunk in range(0, len(pts), 9):
                        tr = pts[chunk:chunk + 9]
                        if (chunk // 9) % 2:
                            tr = [p + [3.0 + 0.5 * i] for i, p in enumerate(tr)]
                        out.append({"kind": "single", "stream": "enum-z",
                                    "edges": [{"id": 7, "s": 1, "t": 2, "g": [[0.0, 0.0, prof[0]], [2.0 * dx, 2.0 * dy, prof[1]], [4.0 * dx, 4.0 * dy, prof[2]]]},
                                              {"id": 3, "s": 2, "t": 5, "g": [[4.0 * dx, 4.0 * dy], [4.0 * dx + 2.0, 4.0 * dy + 1.0]]}],
                                    "res": [1.0, 1.0], "margin": 0.3, "track": tr, "radius": radius, "noise": 2.0})
        n = 15000 if tier == "thorough" else 3000
        for k in range(n):
            out.append(self.add_z(rng, self.random_case(rng, ["grid", "random", "decimal"][k % 3])))
        # networks as real data delivers them (merged nodes, long / repeated / zero-length geometries, loops, parallel and
        # one-way edges, components), through every construction path
        for k in range(15000 if tier == "thorough" else 3000):
            out.append(self.add_z(rng, self.real_case(rng)))
        for k in range(40 if tier == "thorough" else 6):
            c = self.random_case(rng, "grid")
            c["track"] = c["track"][:2] + [[c["track"][0][0] + 9000.0, c["track"][0][1] + 500.0], [c["track"][0][0] + 19000.0, c["track"][0][1]]]
            c["stream"] = "farjump"      # regression stream of fix 8080b8c (the transition likelihood overflowed on jumps > ~7.1 km)
            out.append(c)
        # sessions: collections of several tracks, several calls on the same objects, re-matched tracks
        for k in range(6000 if tier == "thorough" else 900):
            out.append(self.add_z(rng, self.random_session(rng, ["grid", "random", "decimal", "real"][k % 4])))
        # TIME STAMPS as data delivers them: the property is stated for every track, not for chronologically stored ones.
        # enumerated: 3 observations x every assignment of the stamps {0, 10, 20} s (all orders, all tie patterns) + no time information
        tri = [{"id": 4, "s": 1, "t": 2, "g": [[0.0, 0.0], [4.0, 0.0]]}, {"id": 9, "s": 2, "t": 3, "g": [[4.0, 0.0], [6.0, 3.0]]}]
        for ts in [[a, b, c] for a in (0, 10, 20) for b in (0, 10, 20) for c in (0, 10, 20)] + [[None, None, None], [None, 5, None]]:
            out.append({"kind": "net", "stream": "enum-times", "edges": tri, "res": [1.0, 1.0], "margin": 0.3,
                        "track": [[0.5, 0.5], [3.5, -0.25], [5.25, 1.0]], "times": ts, "radius": 2.0, "noise": 2.0})
        # random: single tracks (a quarter of them LONG, 17..40 observations) and sessions whose tracks carry stamps that are
        # tied / absent / decreasing / shuffled / stepping back once / sub-second
        for k in range(3000 if tier == "thorough" else 500):
            if k % 5 == 4:
                c = self.random_session(rng, ["grid", "random", "decimal", "real"][(k // 5) % 4], timed=1.0, long=0.3)
            else:
                c = self.real_case(rng) if k % 5 == 3 else self.random_case(rng, ["grid", "random", "decimal"][k % 3])
                if rng.random() < 0.25:
                    xs = [p[0] for e in c["edges"] for p in e["g"]]
                    c["track"] = self.long_track(rng, "decimal" if c["stream"] in ("decimal", "real") else c["stream"], self.live_edges(c["edges"]),
                                                 c["radius"], max(xs) - min(xs))
                c["times"] = self.gen_times(rng, len(c["track"]))
                c["stream"] = "times-" + c["stream"]
            out.append(self.add_z(rng, c, p=0.2))
        return out

    TIME_MODES = ["none", "tied", "dec", "shuffle", "stepback", "pairs", "subsec", "mixed"]

    def gen_times(self, rng, n, mode=None):
        """time stamps (seconds since 1970; None = observation built without one) for a track of n observations, as logs,
        merged files and positions-only data deliver them:
          none     : no time information at all (`Obs(coords)`: every stamp is the default 01/01/1970 00:00:00)
          tied     : one and the same stamp everywhere
          dec      : stored in reverse chronological order
          shuffle  : arbitrary order (distinct stamps)
          stepback : chronological with one step back (two logs merged, a clock reset)
          pairs    : 2 Hz data stamped to the second (runs of equal stamps, non-decreasing)
          subsec   : chronological, sub-second stamps (the millisecond field is in use)
          mixed    : some observations without time information among stamped ones"""
        mode = mode or rng.choice(self.TIME_MODES)
        base = rng.choice([0, 86400 * 365 * 30 + 3600 * 7, 1600000000])
        inc = [base + rng.choice([1, 10, 60]) * i for i in range(n)]
        if mode == "none":
            return [None] * n
        if mode == "tied":
            return [base] * n
        if mode == "dec":
            return inc[::-1]
        if mode == "shuffle":
            rng.shuffle(inc)
            return inc
        if mode == "stepback":
            j = rng.randrange(n)
            return inc[:j] + [max(0, t - (inc[j] - inc[0]) - rng.choice([0, 5])) for t in inc[j:]]
        if mode == "pairs":
            return [base + i // rng.choice([2, 3]) for i in range(n)]
        if mode == "subsec":
            return [base + 0.25 * i for i in range(n)]
        return [None if rng.random() < 0.4 else t for t in inc]

    def long_track(self, rng, stream, edges, radius, ax, n=None):
        """17..40 observations (a log at a high rate along the network): pieces of gen_track, end to end"""
        n = n or rng.choice([17, 17, 18, 20, 24, 33, 40])
        track = []
        while len(track) < n:
            track += self.gen_track(rng, stream, edges, radius, ax, home=[rng.choice(edges)] if rng.random() < 0.5 else None, avoid_vertical=True)
        return track[:n]

    def add_z(self, rng, case, p=0.4):
        """altitudes for a case generated planimetrically (a share `p` of the cases): networks as a 3D source delivers them
        (`LINESTRING(x y z, ...)`, BD TOPO-like data, hand-built networks with `ENUCoords(x, y, z)`) and GPS tracks with altitudes.
          hill    : every vertex has its own altitude (one per planimetric position, so that shared end vertices agree)
          plateau : every vertex has the SAME non-zero altitude (flat, but not at 0)
          mixed   : hill, but some edges stay 2D (a file that mixes `x y` and `x y z` lines; their altitude is 0), and some
                    `x y z` lines have `x y` vertices
          obs     : the network stays 2D, only the observations carry an altitude
        the observations of the other modes carry an altitude half of the time; a node table (`via` = table) gets altitudes too
        (its own: nodes are separate objects). Nothing planimetric is changed."""
        if rng.random() >= p:
            return case
        mode = rng.choice(["hill", "hill", "hill", "plateau", "mixed", "obs"])
        lattice = all(float(v) == round(float(v) * 4) / 4 for e in case["edges"] for q in e["g"] for v in q)
        zval = (lambda: rng.randint(0, 24) / 2.0) if lattice else (lambda: round(rng.uniform(0.0, 30.0), 2))
        plateau = rng.choice([0.5, 3.0, 12.25, 250.0])
        zmap = {}
        if mode != "obs":
            edges = []
            for e in case["edges"]:
                if mode == "mixed" and rng.random() < 0.4:
                    edges.append(e)
                    continue
                g = [[q[0], q[1], plateau if mode == "plateau" else zmap.setdefault(xyt(q), zval())] for q in e["g"]]
                if mode == "mixed" and rng.random() < 0.3:
                    g = [q[:2] if rng.random() < 0.3 else q for q in g]           # `x y` vertices inside an `x y z` line
                edges.append(dict(e, g=g))
            case = dict(case, edges=edges)
            if case.get("nodes"):
                case["nodes"] = {k: [v[0], v[1], plateau if mode == "plateau" else zmap.get(xyt(v), zval())] for k, v in case["nodes"].items()}
        if mode == "obs" or rng.random() < 0.5:
            oz = (lambda: plateau) if rng.random() < 0.3 else zval
            if case["kind"] == "session":
                case = dict(case, tracks=[[[q[0], q[1], oz()] for q in t] for t in case["tracks"]])
            else:
                case = dict(case, track=[[q[0], q[1], oz()] for q in case["track"]])
        return case

    def coord(self, rng, stream):
        if stream == "decimal":
            return round(rng.randint(0, 2000) / 100.0, 2)
        return float(rng.randint(0, 12))

    def random_case(self, rng, stream):
        edges = []
        if stream == "grid":
            nx, ny = rng.randint(2, 4), rng.randint(1, 3)
            sp = float(rng.choice([2, 3, 5]))
            node = lambda i, j: (i * sp, j * sp)
            nid = lambda i, j: 1 + i * 10 + j
            links = []
            for i in range(nx):
                for j in range(ny):
                    if i + 1 < nx:
                        links.append(((i, j), (i + 1, j)))
                    if j + 1 < ny:
                        links.append(((i, j), (i, j + 1)))
                    if i + 1 < nx and j + 1 < ny and rng.random() < 0.3:
                        links.append(((i, j), (i + 1, j + 1)))
            rng.shuffle(links)
            links = links[:rng.randint(1, 7)]
            for (a, b) in links:
                pa, pb = node(*a), node(*b)
                g = [list(pa)]
                r = rng.random()
                if r < 0.3:      # intermediate vertex on the straight line
                    g.append([(pa[0] + pb[0]) / 2, (pa[1] + pb[1]) / 2])
                elif r < 0.5:    # bent edge
                    g.append([(pa[0] + pb[0]) / 2 + rng.choice([-1.0, 1.0]), (pa[1] + pb[1]) / 2 + rng.choice([-1.0, 0.0, 1.0])])
                g.append(list(pb))
                if rng.random() < 0.3:
                    g.reverse()
                    a, b = b, a
                edges.append({"s": nid(*a), "t": nid(*b), "g": g})
        else:
            nodes = {}
            for k in range(rng.randint(2, 6)):
                nodes[100 + k] = (self.coord(rng, stream), self.coord(rng, stream))
            ids = list(nodes)
            for _ in range(rng.randint(1, 6)):
                a, b = rng.sample(ids, 2)
                if nodes[a] == nodes[b]:
                    continue
                g = [list(nodes[a])]
                for _ in range(rng.choice([0, 0, 1, 2])):
                    kind = rng.random()
                    last = g[-1]
                    if kind < 0.3:
                        g.append([last[0], self.coord(rng, stream)])          # vertical piece
                    elif kind < 0.6:
                        g.append([self.coord(rng, stream), last[1]])          # horizontal piece
                    else:
                        g.append([self.coord(rng, stream), self.coord(rng, stream)])
                g.append(list(nodes[b]))
                edges.append({"s": a, "t": b, "g": g})
            if not edges:
                edges.append({"s": 100, "t": 101, "g": [[0.0, 0.0], [3.0, 4.0]]})
        eids = rng.sample(range(1, 60), len(edges))
        for e, i in zip(edges, eids):
            e["id"] = i
        res, margin, ax = self.index_params(rng, edges)
        radius = rng.choice([0.5, 1.0, 2.0, 3.0, 5.5, 10.0])
        track = self.gen_track(rng, stream, edges, radius, ax)
        return {"kind": "net", "stream": stream, "edges": edges, "res": res, "margin": margin, "track": track,
                "radius": radius, "noise": rng.choice([1.0, 5.0, 50.0])}

    def index_params(self, rng, edges, upto=None):
        """cell sizes and margin of the spatial index for these geometries (the first `upto` of them when given: the index of
        the `late` construction path is built before the other edges exist); widens a flat extent with an oblique stub edge
        (the index cannot be built on a flat extent: C08's domain)"""
        first = edges if upto is None else edges[:upto]
        xs = [p[0] for e in first for p in e["g"]]
        ys = [p[1] for e in first for p in e["g"]]
        ax, ay = max(xs) - min(xs), max(ys) - min(ys)
        margin = rng.choice([0.05, 0.15, 0.3, 0.6])
        if ax == 0 or ay == 0:
            edges.insert(len(first), {"s": 900, "t": 901, "id": 99, "g": [[min(xs), min(ys)], [min(xs) + 2.0, min(ys) + 1.0]]})
            xs += [min(xs) + 2.0]; ys += [min(ys) + 1.0]
            ax, ay = max(xs) - min(xs), max(ys) - min(ys)
        ex, ey = ax * (1 + margin), ay * (1 + margin)
        res = [min(rng.choice([1.0, 2.0, 3.0, 5.0, 10.0]), ex), min(rng.choice([1.0, 2.0, 3.0, 5.0, 10.0]), ey)]
        if rng.random() < 0.1 and 0.02 < ax / ay < 50:
            res = None
        return res, margin, ax

    def real_case(self, rng):
        """a network as real data delivers it: node ids shared by edges whose end vertices differ slightly (tolerance-merged
        nodes, or a separate node table), edges with many vertices, repeated vertices, zero-length edges, loops, parallel edges,
        one-way edges, disconnected components; built by hand, from a node table, through NetworkReader, or with edges added
        after the index exists; ids integers or strings"""
        dec = rng.random() < 0.6
        c = (lambda lo, hi: round(rng.uniform(lo, hi), 2)) if dec else (lambda lo, hi: float(rng.randint(int(lo), int(hi))))
        nodes = {}
        ncomp = 2 if rng.random() < 0.25 else 1
        for k in range(rng.randint(3, 7)):
            off = 0.0 if (ncomp == 1 or k % 2 == 0) else 40.0          # second component far to the east
            nodes[10 + k] = (c(0, 14) + off, c(0, 14))
        ids = list(nodes)
        merged = rng.random() < 0.6
        edges = []
        pairs = []
        for _ in range(rng.randint(2, 7)):
            r = rng.random()
            if r < 0.12:
                a = b = rng.choice(ids)                                 # loop
            elif r < 0.27 and pairs:
                a, b = rng.choice(pairs)                                # parallel edge (or its reverse)
                if rng.random() < 0.4:
                    a, b = b, a
            else:
                a, b = rng.sample(ids, 2)
                if ncomp == 2 and (a % 2) != (b % 2):
                    b = rng.choice([i for i in ids if i % 2 == a % 2])  # keep the components apart
            pairs.append((a, b))
            def end(i):
                x, y = nodes[i]
                if merged and rng.random() < 0.5:                       # digitised separately: ends near the node, not on it
                    m = rng.choice([0.01, 0.05, 0.2, 0.6])
                    return [round(x + rng.uniform(-m, m), 3), round(y + rng.uniform(-m, m), 3)]
                return [x, y]
            pa, pb = end(a), end(b)
            nv = rng.choice([0, 0, 1, 1, 2, 3, 5, 8, 11])
            if a == b:
                nv = max(nv, 2)
            g = [pa]
            for j in range(nv):
                t = (j + 1) / (nv + 1)
                bx, by = pa[0] + t * (pb[0] - pa[0]), pa[1] + t * (pb[1] - pa[1])
                amp = rng.choice([0.0, 0.5, 1.5, 3.0]) if a != b else rng.choice([1.5, 3.0])
                v = [bx + rng.uniform(-amp, amp), by + rng.uniform(-amp, amp)]
                v = [round(v[0], 2), round(v[1], 2)] if dec else [round(v[0] * 2) / 2, round(v[1] * 2) / 2]
                g.append(v)
            g.append(pb)
            if rng.random() < 0.2:                                      # repeated vertices (zero-length segments)
                j = rng.randrange(len(g))
                g = g[:j + 1] + [list(g[j])] * rng.choice([1, 1, 2]) + g[j + 1:]
            if len({tuple(v) for v in g}) == 1:
                g = [g[0], [g[0][0] + 1.0, g[0][1] + 0.5]] + g[1:]      # (zero-length edges are made below, on purpose)
            edges.append({"s": a, "t": b, "g": [[float(x), float(y)] for x, y in g], "o": rng.choice([0, 0, 0, 1, -1])})
        zero = None
        if rng.random() < 0.12:
            # a zero-length edge (all its vertices coincide), at a node of the network: it is a candidate of the observations
            # around that node like any other edge (since fix 563eeba: position = that vertex, both abscissas 0; before,
            # proj_polyligne raised UnboundLocalError — former class zero-length-edge-unbound). One in four is put in a far
            # corner instead, where no observation comes (it still takes an edge number and a place in the index).
            i = rng.choice(ids)
            far = rng.random() < 0.25
            pos = [-60.0, -60.0 - rng.randint(0, 5)] if far else list(nodes[i])
            zero = {"s": 77 if far else i, "t": 78, "g": [[float(pos[0]), float(pos[1])]] * rng.choice([2, 3]), "o": 0}
            edges.insert(rng.randrange(len(edges) + 1), zero)
        eids = rng.sample(range(1, 90), len(edges))
        for e, i in zip(edges, eids):
            e["id"] = i
        via = rng.choice(["direct", "direct", "table", "reader", "late"])
        late = rng.randint(1, max(1, len(edges) - 1))
        res, margin, ax = self.index_params(rng, edges, upto=max(1, len(edges) - late) if via == "late" else None)
        radius = rng.choice([0.5, 1.0, 2.0, 3.0, 5.5, 10.0])
        live = self.live_edges(edges)
        track = self.gen_track(rng, "decimal" if dec else "grid", live, radius, ax, short=rng.random() < 0.3)
        case = {"kind": "net", "stream": "real", "edges": edges, "res": res, "margin": margin, "track": track,
                "radius": radius, "noise": rng.choice([1.0, 5.0, 50.0])}
        if via == "table":
            case["nodes"] = {str(i): [float(nodes[i][0]), float(nodes[i][1])] for i in ids if rng.random() < 0.8}
        if via == "late":
            case["late"] = late
        if via in ("direct", "table", "late") and rng.random() < 0.3:
            case["strids"] = True
        if via != "direct":
            case["via"] = via
        return case

    def live_edges(self, edges):
        """the edges observations are generated around: those that have a length (a zero-length edge sits at a node of
        such an edge: the observations around that node have it among their candidates)"""
        live = [e for e in edges if len({tuple(p) for p in e["g"]}) > 1]
        return live or [{"g": [[200.0, 200.0], [203.0, 204.0]]}]

    def gen_track(self, rng, stream, edges, radius, ax, home=None, avoid_vertical=False, short=False):
        """1..7 observations on / near / far from / outside the network; `home` = edges the track stays around"""
        track = []
        for _ in range(rng.randint(1, 2) if short else rng.randint(1, 7)):
            e = rng.choice(home if home else edges)
            i = rng.randrange(len(e["g"]) - 1)
            (x1, y1), (x2, y2) = e["g"][i], e["g"][i + 1]
            t = rng.choice([0.0, 0.25, 0.5, 0.75, 1.0, rng.random()])
            bx, by = x1 + t * (x2 - x1), y1 + t * (y2 - y1)
            how = rng.choices(["on", "near", "far", "out"], weights=[3, 6, 1.5, 0.5])[0]
            if how == "on":
                p = [bx, by]
            elif how == "near":
                p = [bx + rng.uniform(-1, 1) * min(radius, 3.0), by + rng.uniform(-1, 1) * min(radius, 3.0)]
            elif how == "far":
                p = [bx + rng.choice([-1, 1]) * radius * rng.uniform(1.0, 3.0), by + rng.choice([-1, 1]) * radius * rng.uniform(1.0, 3.0)]
            else:
                p = [bx + rng.choice([-1, 1]) * (ax + 50.0), by + rng.uniform(-100, 100)]
            if stream != "decimal" and how != "on":
                p = [round(p[0] * 4) / 4, round(p[1] * 4) / 4]
            elif stream == "decimal":
                p = [round(p[0], 2), round(p[1], 2)]
            if avoid_vertical:
                # keep the listed defect D16 (observation with the abscissa of a vertical segment) rare in the session
                # streams, whose purpose is the state carried from one track / call to the next
                for _ in range(4):
                    if any(g[j][0] == g[j + 1][0] == p[0] for ed in edges for g in [ed["g"]] for j in range(len(g) - 1)):
                        p[0] = p[0] + (0.01 if stream == "decimal" else 0.125)
            track.append([float(p[0]), float(p[1])])
        return track

    def random_session(self, rng, stream, timed=0.2, long=0.05):
        """several mapOnNetwork calls on the SAME network / index objects: collections of 2..3 tracks that are not
        co-located, tracks matched again in a later call (their obs_noise / hmm_* columns already exist), user
        features with those names, radii and noise changing from call to call"""
        base = self.real_case(rng) if stream == "real" else self.random_case(rng, stream)
        edges = base["edges"]
        if stream == "real":
            edges = self.live_edges(edges)
            stream = "decimal"
        xs = [p[0] for e in base["edges"] for p in e["g"]]
        ax = max(xs) - min(xs)
        ntr = rng.randint(2, 4)
        tracks = []
        for k in range(ntr):
            home = [rng.choice(edges)] if rng.random() < 0.6 else None
            tracks.append(self.gen_track(rng, stream, edges, base["radius"], ax, home=home, avoid_vertical=rng.random() < 0.9))
        if rng.random() < 0.15:
            tracks[rng.randrange(ntr)] = [[p[0] + ax + 60.0, p[1] - 40.0] for p in tracks[0]]      # a track entirely off the network
        calls = []
        ids = list(range(ntr))
        first = rng.sample(ids, rng.randint(2, min(3, ntr)))
        calls.append({"t": first, "radius": base["radius"], "noise": base["noise"], "bare": False})
        for _ in range(rng.randint(0, 2)):
            m = rng.randint(1, min(3, ntr))
            t = rng.sample(ids, m)
            calls.append({"t": t, "radius": rng.choice([base["radius"], 0.5, 1.0, 2.0, 3.0, 5.5, 10.0]),
                          "noise": rng.choice([1.0, 5.0, 50.0]), "bare": m == 1 and rng.random() < 0.6})
        if rng.random() < 0.3:
            calls.reverse()
        for c in calls:                         # the other arguments of the front end
            r = rng.random()
            if r < 0.15:
                c["tc"] = rng.choice([1.0, 10, 200.0])
            elif r < 0.25:
                c["debug"] = True
            elif r < 0.32:
                c["verbose"] = True
            elif r < 0.40:
                c["positional"] = True
                c["tc"] = rng.choice([5, 10])
            elif r < 0.50 and not c["bare"]:
                c["form"] = "list"
            elif r < 0.56:
                c["defaults"] = "radius"              # search_radius left to its default (50, an int)
                c["radius"] = 50.0
            elif r < 0.60:
                c["defaults"] = "noise"               # gps_noise left to its default (50)
                c["noise"] = 50.0
            elif r < 0.66:
                c["ints"] = True                      # integral arguments passed as Python ints
        pre = {}
        for k in range(ntr):
            if rng.random() < 0.25:
                pre[str(k)] = rng.choice([{"obs_noise": 3.0}, {"hmm_inference": 0.0}, {"hmm_cost": 0.0, "speed": 1.5},
                                          {"speed": 2.5}, {"obs_noise": 20.0, "hmm_inference": 0.0, "hmm_cost": 0.0}])
        out = {"kind": "session", "stream": "session-" + base["stream"], "edges": base["edges"], "res": base["res"], "margin": base["margin"],
               "tracks": tracks, "calls": calls, "pre": pre}
        for k in ("via", "nodes", "late", "strids"):
            if k in base:
                out[k] = base[k]
        if rng.random() < 0.3:
            out["warm"] = rng.choice([1, 2, 9])     # the module was used before, on another network, for a track of that many observations
        if rng.random() < long:
            k = rng.randrange(ntr)
            tracks[k] = self.long_track(rng, stream, edges, base["radius"], ax)
        if rng.random() < timed:
            # time stamps that are not chronological / not distinct / absent, on some of the tracks (None = the default increasing ones)
            out["times"] = [self.gen_times(rng, len(t)) if rng.random() < 0.7 else None for t in tracks]
            if all(t is None for t in out["times"]):
                out["times"][0] = self.gen_times(rng, len(tracks[0]))
            out["stream"] = "session-times-" + base["stream"]
        return out

    @staticmethod
    def as_session(case):
        """every case is run as a session; the single-track kinds are one call with a bare Track"""
        if case["kind"] == "session":
            return case
        S = {"tracks": [case["track"]], "pre": {},
             "calls": [{"t": [0], "radius": case["radius"], "noise": case["noise"], "bare": True}]}
        if case.get("times") is not None:
            S["times"] = [case["times"]]
        return S

    @staticmethod
    def stamps(S, ti):
        """the time stamps of track `ti` of a session: the case's own (`times`: per observation, seconds since 1970, or None =
        the observation is built without time information, `Obs(coords)`), else strictly increasing ones (10 s apart)"""
        every = S.get("times") or []
        ts = every[ti] if ti < len(every) else None
        n = len(S["tracks"][ti])
        if ts is None:
            return [1000 * (ti + 1) + 10 * i for i in range(n)]
        return (list(ts) + [None] * n)[:n]

    def mk_obs(self, q, ts):
        T = self.tl
        pos = T["E"](q[0], q[1], zof(q))
        if ts is None:
            return T["Obs"](pos)                     # positions only: the default time stamp 01/01/1970 00:00:00
        return T["Obs"](pos, T["ObsTime"].readUnixTime(ts))

    def describe(self, case):
        orient = set()
        for e in case["edges"]:
            for sg in segments([p[0] for p in e["g"]], [p[1] for p in e["g"]]):
                orient.add("z" if degenerate(sg) else "v" if sg[0] == sg[2] else "h" if sg[1] == sg[3] else "o")
        S = self.as_session(case)
        seen, rematch = set(), False
        for c in S["calls"]:
            rematch = rematch or any(t in seen for t in c["t"])
            seen.update(c["t"])
        ends = {}
        gap = False
        for e in case["edges"]:
            for nid, p in ((e["s"], e["g"][0]), (e["t"], e["g"][-1])):
                q = (case.get("nodes") or {}).get(str(nid)) if case.get("via") == "table" else None
                q = ends.setdefault(nid, q or p)
                gap = gap or list(q)[:2] != list(p)[:2]
        pairs = [frozenset((e["s"], e["t"])) for e in case["edges"]]
        shape = "".join(sorted(set(
            (["L"] if any(e["s"] == e["t"] for e in case["edges"]) else []) +
            (["P"] if len(set(pairs)) < len(pairs) else []) +
            (["1"] if any(e.get("o", 0) != 0 for e in case["edges"]) else []) +
            (["Z"] if any(flat_geom(e["g"]) for e in case["edges"]) else []) +
            (["R"] if any(xyt(e["g"][i]) == xyt(e["g"][i + 1]) for e in case["edges"] for i in range(len(e["g"]) - 1)) else []) +
            (["M"] if max(len(e["g"]) for e in case["edges"]) >= 6 else []))))
        zs = [[zof(p) for p in e["g"]] for e in case["edges"] if any(len(p) > 2 for p in e["g"])]
        znet = "-" if not zs else ("plateau" if len({z for g in zs for z in g}) == 1 else "sloped") + ("+2D" if len(zs) < len(case["edges"]) else "")
        return {"kind": case["kind"], "stream": case.get("stream", "?"), "edges": len(case["edges"]),
                "z_net": znet, "z_obs": any(len(p) > 2 for t in S["tracks"] for p in t),
                "via": case.get("via", "direct") + ("+strids" if case.get("strids") else ""), "node_gap": gap, "shape": shape,
                "warm": bool(case.get("warm")),
                "args": "".join(sorted(set("".join(("t" if "tc" in c else "") + ("d" if c.get("debug") else "") + ("v" if c.get("verbose") else "") +
                                                        ("p" if c.get("positional") else "") + ("l" if c.get("form") == "list" else "") + ("D" if c.get("defaults") else "") + ("i" if c.get("ints") else "") for c in S["calls"])))),
                "obs": sum(len(t) for t in S["tracks"]), "calls": len(S["calls"]),
                "times": self.times_tag(S), "long_track": max(len(t) for t in S["tracks"]) >= 17,
                "max_tracks_per_call": max(len(c["t"]) for c in S["calls"]), "rematch": rematch, "pre_features": bool(S.get("pre")),
                "orient": "".join(sorted(orient)), "multi_vertex": any(len(e["g"]) > 2 for e in case["edges"])}

    def times_tag(self, S):
        """how the time stamps of the tracks are ordered: chrono (strictly increasing), ties (non-decreasing with equal
        stamps), unsorted (a decreasing step), with '+none' when observations without time information occur"""
        tags = set()
        for ti in range(len(S["tracks"])):
            ts = self.stamps(S, ti)
            v = [0 if t is None else t for t in ts]
            tags.add("unsorted" if any(v[i + 1] < v[i] for i in range(len(v) - 1)) else
                     "ties" if any(v[i + 1] == v[i] for i in range(len(v) - 1)) else "chrono")
            if any(t is None for t in ts):
                tags.add("+none")
        return ",".join(sorted(tags))

    def nontrivial(self, case):
        # at least one observation within the radius of some edge (exact geometry)
        S = self.as_session(case)
        for c in S["calls"]:
            for ti in c["t"]:
                for q in S["tracks"][ti]:
                    for e in case["edges"]:
                        X, Y = [p[0] for p in e["g"]], [p[1] for p in e["g"]]
                        if min(seg_d2(fr(q[0]), fr(q[1]), *sg) for sg in segments(X, Y)) < fr(c["radius"]) ** 2:
                            return True
        return False

    # ------------------------------------------------------------------ implementation
    def edge_track(self, e):
        T = self.tl
        tr = T["Track"]([T["Obs"](T["E"](p[0], p[1], zof(p)), T["ObsTime"]()) for p in e["g"]])
        T["curv"](tr)
        return tr

    def add_edge(self, net, e, case):
        """one edge the way hand-written builders (test/algo/test_mapping.py) and NetworkReader do it: computeAbsCurv on the
        geometry, then Edge, then addEdge with nodes made from the end positions of the geometry (`via` = direct), or from a
        separate node table (`via` = table: the node coordinates are their own objects and may differ from the end vertices)"""
        T = self.tl
        tr = self.edge_track(e)
        conv = str if case.get("strids") else (lambda v: v)
        ed = T["Edge"](conv(e["id"]), tr)
        ed.orientation = e.get("o", 0)
        ed.weight = tr.length()
        tab = case.get("nodes") or {}
        def node(nid, pos):
            if case.get("via") == "table" and str(nid) in tab:
                return T["Node"](conv(nid), T["E"](tab[str(nid)][0], tab[str(nid)][1], zof(tab[str(nid)])))
            return T["Node"](conv(nid), pos)
        net.addEdge(ed, node(e["s"], tr.getFirstObs().position), node(e["t"], tr.getLastObs().position))

    def build(self, case):
        """the network and its spatial index, through one of the construction paths (`via`):
        direct / table : Network.addEdge edge by edge, index built on the complete network
        reader         : the edges written as a CSV file (WKT geometries, ids, orientation) and read with NetworkReader.readFromFile
        late           : index built on the first edges, attached to the network, the other edges added afterwards
                         (Network.addEdge then registers them in the index itself)"""
        T = self.tl
        via = case.get("via", "direct")
        si_args = dict(resolution=None if case["res"] is None else tuple(case["res"]), margin=case["margin"], verbose=False)
        if via == "reader":
            fmt = T["NF"]({"name": "c10", "pos_edge_id": 0, "pos_source": 1, "pos_target": 2, "pos_wkt": 3, "pos_direction": 4,
                           "separator": ";", "header": 1, "srid": "ENU"})
            with tempfile.TemporaryDirectory() as tmp:
                path = os.path.join(tmp, "network.csv")
                with open(path, "w") as fh:
                    fh.write("edge;source;target;wkt;direction\n")
                    for e in case["edges"]:
                        fh.write("%s;%s;%s;LINESTRING(%s);%d\n" % (e["id"], e["s"], e["t"], ", ".join(" ".join("%r" % float(v) for v in q) for q in e["g"]), e.get("o", 0)))
                net = T["NR"].readFromFile(path, fmt, verbose=False)
            net.spatial_index = T["SI"](net, **si_args)
        elif via == "late":
            net = T["Network"]()
            m = max(1, len(case["edges"]) - int(case.get("late", 1)))
            for e in case["edges"][:m]:
                self.add_edge(net, e, case)
            net.spatial_index = T["SI"](net, **si_args)
            for e in case["edges"][m:]:
                self.add_edge(net, e, case)
        else:
            net = T["Network"]()
            for e in case["edges"]:
                self.add_edge(net, e, case)
            net.spatial_index = T["SI"](net, **si_args)
        net.prepare(verbose=False)
        return net

    @staticmethod
    def net_geoms(net):
        """the edge geometries AS THEY ARE in the network, by edge number (what `hmm_inference` refers to)"""
        out = []
        for k in range(net.getNumberOfEdges()):
            g = net.EDGES[net.getEdgeId(k)].geom
            out.append([[float(o.position.getX()), float(o.position.getY()), float(o.position.getZ())] for o in g])
        return out

    @staticmethod
    def net_state(net):
        """what the construction left: geometries and abs_curv columns by edge number, node table in registration order,
        grid parameters of the index"""
        curv = []
        for k in range(net.getNumberOfEdges()):
            g = net.EDGES[net.getEdgeId(k)].geom
            try:
                curv.append([float(g["abs_curv", i]) for i in range(len(g))])
            except BaseException as e:
                if isinstance(e, KeyboardInterrupt):
                    raise
                curv.append(None)
        si = net.spatial_index
        weights = []
        for k in range(net.getNumberOfEdges()):
            try:
                weights.append(float(net.EDGES[net.getEdgeId(k)].weight))
            except BaseException as e:
                if isinstance(e, KeyboardInterrupt):
                    raise
                weights.append(None)
        return {"geoms": P.net_geoms(net), "curv": curv, "weights": weights,
                "nodes": [[str(i), float(net.NODES[i].coord.getX()), float(net.NODES[i].coord.getY()), float(net.NODES[i].coord.getZ())] for i in net.getIndexNodes()],
                "ends": [[str(net.EDGES[net.getEdgeId(k)].source.id), str(net.EDGES[net.getEdgeId(k)].target.id)] for k in range(net.getNumberOfEdges())],
                "grid": [float(si.xmin), float(si.xmax), float(si.ymin), float(si.ymax), int(si.csize), int(si.lsize)]}

    @staticmethod
    def state_row(s):
        try:
            return [float(s[0].getX()), float(s[0].getY()), int(s[1]), float(s[2]), float(s[3]), float(s[0].getZ())]
        except Exception:
            return ["?", repr(s)[:80]]

    @staticmethod
    def stamp_row(t):
        """every field of an ObsTime (its printed form drops the milliseconds / the zone depending on the print format)"""
        try:
            return [int(t.year), int(t.month), int(t.day), int(t.hour), int(t.min), int(t.sec), int(t.ms), int(getattr(t, "zone", 0))]
        except Exception:
            return ["?", str(t)]

    @staticmethod
    def snap_track(o):
        noise = None
        if o.hasAnalyticalFeature("obs_noise"):
            try:
                noise = [float(o["obs_noise", k]) for k in range(o.size())]
            except BaseException as e:
                if isinstance(e, KeyboardInterrupt):
                    raise
        return {"pos": [[b.position.getX(), b.position.getY(), b.position.getZ()] for b in o],
                "t": [P.stamp_row(b.timestamp) for b in o], "n": o.size(), "features": list(o.getListAnalyticalFeatures()), "noise": noise}

    def impl(self, case):
        """runs the whole session on ONE network / index and the same Track objects; output: per call, per track"""
        T = self.tl
        mp = T["mapping"]
        S = self.as_session(case)
        key = json.dumps(case, sort_keys=True)
        try:
            net = self.build(case)
        except BaseException as e:   # building the network / its index is a precondition, not the property
            if isinstance(e, KeyboardInterrupt):
                raise
            self._cache[key] = ([], None)
            return {"invalid": "network or spatial index cannot be built: %s %s" % (err_kind(e), str(e)[:100]), "kind": err_kind(e)}
        net0 = self.net_state(net)
        tracks = []
        for ti, pts in enumerate(S["tracks"]):
            trk = T["Track"]([self.mk_obs(q, ts) for q, ts in zip(pts, self.stamps(S, ti))])
            for name, val in sorted((S.get("pre") or {}).get(str(ti), {}).items()):
                trk.createAnalyticalFeature(name, val)
            tracks.append(trk)
        # every case starts from the module as it is after import (the globals STATES / net do not exist yet) and leaves it so:
        # what a case can read from earlier uses of the module is only what the case itself did (`warm`, earlier calls)
        for name in ("STATES", "net"):
            if hasattr(mp, name):
                delattr(mp, name)
        if S.get("warm"):
            # module-level state left by an EARLIER use of the module on ANOTHER network (mapping.STATES, mapping.net):
            # a one-edge network far away is matched first; nothing of it may be read by the calls of the session
            try:
                wnet = self.build({"edges": [{"id": 500, "s": 500, "t": 501, "g": [[1000.0, 1000.0], [1004.0, 1003.0]]}], "res": [1.0, 1.0], "margin": 0.3})
                wt = T["Track"]([T["Obs"](T["E"](1001.0 + 2 * i, 1001.5 + i, 0), T["ObsTime"].readUnixTime(10 * i)) for i in range(S["warm"])])
                mp.mapOnNetwork(wt, wnet, gps_noise=3.0, search_radius=2.0)
            except BaseException as e:
                if isinstance(e, KeyboardInterrupt):
                    raise
        captured, snaps, done = [], [], []
        si = net.spatial_index
        orig = si.neighborhood

        def wrap(obj, j=None, unit=0):
            r = orig(obj, j, unit)
            if isinstance(obj, T["E"]):
                captured.append(None if r is None else [int(v) for v in r])
            return r
        si.neighborhood = wrap
        HMM = mp.HMM
        orig_est = HMM.estimate

        def est(self_, track, *a, **kw):
            # what the decoder is given for THIS track: S(track, k) for every epoch (mapping.STATES[k])
            try:
                snaps.append([list(self_.S(track, k)) for k in range(len(track))])
            except BaseException as e:
                snaps.append(None)
            r = orig_est(self_, track, *a, **kw)
            done.append(True)
            return r
        HMM.estimate = est
        calls_out = []
        try:
            for call in S["calls"]:
                objs = [tracks[i] for i in call["t"]]
                before = [self.snap_track(o) for o in objs]
                del captured[:], snaps[:], done[:]
                if call.get("bare") and len(objs) == 1:
                    arg = objs[0]
                elif call.get("form") == "list":
                    arg = list(objs)                      # `for track in tracks` accepts any iterable of tracks
                else:
                    arg = self.tl["TC"](objs)
                num = (lambda v: int(v) if call.get("ints") and float(v).is_integer() else v)
                kw = dict(gps_noise=num(call["noise"]), search_radius=num(call["radius"]))
                if call.get("defaults") == "radius" and call["radius"] == 50.0:
                    del kw["search_radius"]
                if call.get("defaults") == "noise" and call["noise"] == 50.0:
                    del kw["gps_noise"]
                if "tc" in call:
                    kw["transition_cost"] = call["tc"]
                if call.get("verbose"):
                    kw["verbose"] = True
                err = None
                cwd = os.getcwd()
                tmp = None
                try:
                    if call.get("debug"):                 # debug=True appends to ./observation.dat
                        tmp = tempfile.TemporaryDirectory()
                        os.chdir(tmp.name)
                        kw["debug"] = True
                    if call.get("positional"):
                        mp.mapOnNetwork(arg, net, call["noise"], call.get("tc", 10), call["radius"])
                    else:
                        mp.mapOnNetwork(arg, net, **kw)
                except BaseException as e:
                    if isinstance(e, KeyboardInterrupt):
                        raise
                    err = {"err": err_kind(e), "detail": str(e)[:200]}
                finally:
                    os.chdir(cwd)
                    if tmp is not None:
                        tmp.cleanup()
                geoms = self.net_geoms(net)
                touts, pos = [], 0
                for j, o in enumerate(objs):
                    n = o.size()
                    c = captured[pos:pos + n]
                    pos += len(c)
                    if j < len(done):
                        states = snaps[j] or []
                        idx, inf = [], []
                        for k in range(n):
                            v = o["hmm_inference", k]
                            hit = [i for i, st in enumerate(states[k]) if st is v] if k < len(states) else []
                            idx.append(hit[0] if hit else -1)
                            inf.append(self.state_row(v))
                        after = self.snap_track(o)
                        touts.append({"ti": call["t"][j], "cand": c, "states": [[self.state_row(st) for st in L] for L in states],
                                      "idx": idx, "inf": inf, "pos_after": after["pos"], "t_after": after["t"], "n_after": after["n"],
                                      "features": after["features"], "noise_after": after["noise"], "before": before[j],
                                      "nedges": net.getNumberOfEdges(), "geoms": geoms})
                    elif err and j == len(done):
                        states = snaps[j] if j < len(snaps) and snaps[j] is not None else (getattr(mp, "STATES", None) or [])
                        if j < len(snaps) and snaps[j] is None:
                            states = []
                        t = {"ti": call["t"][j], "cand": c, "states": [[self.state_row(st) for st in L] for L in states], "before": before[j]}
                        t.update(err)
                        touts.append(t)
                co = {"tracks": touts, "global_states_len": len(getattr(mp, "STATES", None) or []), "geoms": geoms}
                if err:
                    co.update(err)
                calls_out.append(co)
                if err:
                    break
        finally:
            HMM.estimate = orig_est
            for name in ("STATES", "net"):
                if hasattr(mp, name):
                    delattr(mp, name)
        out = {"calls": calls_out, "net": net0}
        self._cache[key] = ([(ci, t) for ci, co in enumerate(calls_out) for t in co["tracks"] if t["cand"]], out)
        if calls_out and "err" in calls_out[-1]:
            out["err"] = calls_out[-1]["err"]
            out["detail"] = calls_out[-1].get("detail")
        return out

    # ------------------------------------------------------------------ model
    @staticmethod
    def idmaps(case):
        """node ids and edge ids -> naturals, injectively (the dictionaries of Network only compare ids for equality)"""
        nm, em = {}, {}
        for e in case["edges"]:
            for v in (e["s"], e["t"]):
                nm.setdefault(str(v), len(nm))
            em.setdefault(str(e["id"]), len(em))
        return nm, em

    def net_request(self, case, out):
        """the whole scenario for `Model/MapMatchNet`: the addEdge sequence with the Node objects handed over, the moment the index
        is built, its parameters, then every call that ran with, per track, its features / obs_noise column before the call and
        the decoder's choice given as edge numbers"""
        S = self.as_session(case)
        nm, em = self.idmaps(case)
        tab = (case.get("nodes") or {}) if case.get("via") == "table" else {}
        z3 = has_z(case)          # altitudes somewhere: the 3D model (command net3), every point is x,y,z
        pt2 = lambda p: "%s,%s" % (fbits(float(p[0])), fbits(float(p[1])))
        pt = (lambda p: ",".join(fbits(float(v)) for v in p)) if z3 else pt2          # a vertex given as x,y in a 3D case: wktVertex
        es = []
        for e in case["edges"]:
            ca = tab.get(str(e["s"]), e["g"][0])
            cb = tab.get(str(e["t"]), e["g"][-1])
            es.append("%d:%d:%d:%d:%s:%s:%s" % (em[str(e["id"])], nm[str(e["s"])], nm[str(e["t"])], e.get("o", 0), pt(ca), pt(cb),
                                              ";".join(pt(p) for p in e["g"])))
        late = min(int(case.get("late", 1)), len(case["edges"]) - 1) if case.get("via") == "late" else 0
        res = "none" if case["res"] is None else pt2(case["res"])
        calls = []
        for ci, co in enumerate((out or {}).get("calls", [])):
            call = S["calls"][ci]
            ts = []
            for t in co["tracks"]:
                b = t["before"]
                pts = S["tracks"][t["ti"]]
                names = ",".join(b["features"]) or "_"
                noise = ",".join(fbits(v) for v in b["noise"]) if b.get("noise") else "_"
                if "err" in t or "inf" not in t or any(len(r) != 6 or r[0] == "?" for r in t["inf"]):
                    ch = "x"
                else:
                    ch = ",".join(str(r[2]) for r in t["inf"]) or "_"
                # the time stamps as the track carries them (any order, ties): one injective natural key per observation
                tm = ",".join(str(self.stamp_key(r)) for r in b["t"]) or "_"
                ts.append("%s~%s~%s~%s~%s" % (names, noise, ";".join(pt(p) for p in pts) or "_", ch, tm))
            if not ts:
                continue
            one = bool(call.get("bare")) and len(call["t"]) == 1
            calls.append("%s:%s:%s:%s" % (fbits(call["radius"]), fbits(call["noise"]), "one" if one else "many", "/".join(ts)))
        return "C10.%s %s %d %s %s%s" % ("net3" if z3 else "net", "|".join(es), late, res, fbits(case["margin"]), "".join(" " + c for c in calls))

    @staticmethod
    def stamp_key(row):
        """an ObsTime (row of stamp_row) as one natural number, injectively (the model's time stamps are opaque keys)"""
        if len(row) != 8 or row[0] == "?" or any(v < 0 for v in row[:7]):
            return 0
        y, mo, d, h, mi, sec, ms = row[:7]
        return (((((y * 13 + mo) * 32 + d) * 25 + h) * 61 + mi) * 61 + sec) * 1000 + ms

    def requests(self, case):
        key = json.dumps(case, sort_keys=True)
        if key not in self._cache:
            self.impl(case)
        S = self.as_session(case)
        z3 = has_z(case)
        pt = (lambda p: ",".join(fbits(float(v)) for v in p)) if z3 else (lambda p: "%s,%s" % (fbits(p[0]), fbits(p[1])))
        es = "|".join(";".join(pt(p) for p in e["g"]) for e in case["edges"])
        lines = [self.net_request(case, self._cache[key][1])]
        for ci, t in self._cache[key][0]:
            cand, idx = t["cand"], t.get("idx")
            n = len(cand)
            track = S["tracks"][t["ti"]][:n]
            tr = ";".join(pt(p) for p in track)
            cs = ";".join("n" if c is None else ("_" if not c else ",".join(str(v) for v in c)) for c in cand)
            if idx is None or any(i < 0 for i in idx) or len(idx) != n:
                ix = "x"
            else:
                ix = ",".join(str(i) for i in idx)
            lines.append("C10.%s %s %s %s %s %s" % ("match3" if z3 else "match", fbits(S["calls"][ci]["radius"]), es, tr, cs, ix))
        return lines

    ERR = {"zerodiv": "err:zerodiv", "index": "err:index", "overflow": "err:OverflowError"}

    @staticmethod
    def parse_states(tok):
        if tok == "_":
            return []
        rows = []
        for item in tok.split(";"):
            a = item.split(",")
            rows.append([bitsf(a[0]), bitsf(a[1]), int(a[2]), bitsf(a[3]), bitsf(a[4]), bitsf(a[5]) if len(a) > 5 else 0.0])
        return rows

    def decode_one(self, reply):
        r = reply.split()
        if r[0] == "err":
            return {"err": self.ERR[r[1]]}
        if r[0] != "ok":
            raise ValueError(reply)
        states = [self.parse_states(t) for t in r[1].split("|")]
        inf = self.parse_states(r[3]) if r[3] != "_" else None
        return {"states": states, "inf": inf}

    NERR = {"Ezerodiv": "err:zerodiv", "Eoverflow": "err:OverflowError", "Eindex": "err:index", "Etype": "err:type", "Eexit": "err:exit",
            "Enoindex": "err:AttributeError", "Eempty": "err:AnalyticalFeatureError"}

    def decode_net(self, reply, z3=False):
        r = reply.split(" ")
        if r[0].startswith("err:"):
            return {"err": r[0]}
        if r[0] != "ok":
            raise ValueError(reply[:200])
        fl = lambda tok: [bitsf(v) for v in tok.split(",")] if tok != "_" else []
        p3 = lambda tok: (fl(tok) + [0.0])[:3]                 # the 2D commands answer x,y: altitude 0
        geoms = [[p3(v) for v in g.split(";")] if g != "_" else [] for g in r[1].split("|")] if r[1] != "_" else []
        curvs = [fl(c) for c in r[2].split("|")] if r[2] != "_" else []
        weights = None
        if z3:
            weights = fl(r[3])
            r = r[:3] + r[4:]
        nodes = [[int(a.split(",")[0])] + p3(",".join(a.split(",")[1:])) for a in r[3].split(";")] if r[3] != "_" else []
        ends = [[int(v) for v in a.split(",")] for a in r[4].split(";")] if r[4] != "_" else []
        g = r[5].split(",")
        grid = None if r[5] == "none" else [bitsf(g[0]), bitsf(g[1]), bitsf(g[2]), bitsf(g[3]), int(g[4]), int(g[5])]
        calls = []
        for tok in r[6:]:
            ts = []
            for t in tok.split("/"):
                if t.startswith("E"):
                    ts.append({"err": self.NERR.get(t, t)})
                    continue
                f = t.split("#")
                ts.append({"states": [self.parse_states(x) for x in f[0].split("|")] if f[0] != "_" else [],
                           "inf": self.parse_states(f[1]) if f[1] != "_" else None,
                           "names": f[2].split(",") if f[2] != "_" else [], "noise": fl(f[3]),
                           "pos": [p3(x) for x in f[4].split(";")] if f[4] != "_" else [],
                           "times": ([int(v) for v in f[5].split(",")] if f[5] != "_" else []) if len(f) > 5 else None})
            calls.append(ts)
        return {"geoms": geoms, "curv": curvs, "weights": weights, "nodes": nodes, "ends": ends, "grid": grid, "calls": calls}

    def decode(self, case, replies):
        return {"net": self.decode_net(replies[0], has_z(case)), "tracks": [self.decode_one(r) for r in replies[1:]]}

    def compare_net(self, case, impl_out, m):
        """construction path, index and front end: `Model/MapMatchNet` against the real network / tracks"""
        if "invalid" in impl_out:
            if "err" not in m:
                return "the network / index cannot be built (%s), the model builds it" % impl_out["invalid"]
            return None if m["err"] == impl_out.get("kind") else "construction raised %s, model says %s" % (impl_out.get("kind"), m["err"])
        if "err" in m:
            return "the model's construction raises %s, the real one returned" % m["err"]
        net = impl_out["net"]
        nm, em = self.idmaps(case)
        if m["geoms"] != net["geoms"]:
            return "edge geometries in the network differ from the model's (addEdge stores the geometry as given): impl=%s model=%s" % (
                json.dumps(net["geoms"])[:300], json.dumps(m["geoms"])[:300])
        if not close(net["curv"], m["curv"], self.rel_tol):
            return "abs_curv columns of the edge geometries differ: impl=%s model=%s" % (json.dumps(net["curv"])[:300], json.dumps(m["curv"])[:300])
        if m.get("weights") is not None and not close(net["weights"], m["weights"], self.rel_tol):
            return "edge weights (Track.length() of the geometry, 3D) differ: impl=%s model=%s" % (json.dumps(net["weights"])[:300], json.dumps(m["weights"])[:300])
        if [[nm.get(a[0], -1), a[1], a[2], a[3]] for a in net["nodes"]] != m["nodes"]:
            return "node table differs: impl=%s model=%s" % (json.dumps(net["nodes"])[:300], json.dumps(m["nodes"])[:300])
        if [[nm.get(a, -1), nm.get(b, -1)] for a, b in net["ends"]] != m["ends"]:
            return "edge ends differ: impl=%s model=%s" % (net["ends"], m["ends"])
        if m["grid"] is None or not close(net["grid"][:4], m["grid"][:4], self.rel_tol) or net["grid"][4:] != m["grid"][4:]:
            return "spatial index extent / dimensions differ: impl=%s model=%s" % (net["grid"], m["grid"])
        for ci, co in enumerate(impl_out["calls"]):
            if co.get("geoms") is not None and co["geoms"] != net["geoms"]:
                return "call %d: mapOnNetwork changed the edge geometries of the network (the model never writes to the network)" % ci
        cos = [co for co in impl_out["calls"] if co["tracks"]]
        if len(cos) != len(m["calls"]):
            return "%d calls ran, %d model calls" % (len(cos), len(m["calls"]))
        key = lambda row: (row[2], row[0], row[1])
        for ci, (co, mc) in enumerate(zip(cos, m["calls"])):
            if len(mc) > len(co["tracks"]):
                return "call %d: %d tracks, model %d" % (ci, len(co["tracks"]), len(mc))
            for t, mt in zip(co["tracks"], mc):
                where = "call %d, track %d (composed model): " % (ci, t["ti"])
                if "err" in t or "err" in mt:
                    # which of two possible exceptions of the candidate loop comes first depends on the order of the candidates
                    # (list(set) in Python, free): a vertical segment (zerodiv) and an edge with fewer than two vertices (IndexError) among
                    # the candidates of one observation may be met in either order; the core model, fed with the REAL order,
                    # compares the exact exception (compare_track)
                    both = {t.get("err"), mt.get("err")} == {"err:zerodiv", "err:index"}
                    if t.get("err") != mt.get("err") and t.get("err") in ("err:zerodiv", "err:index") and not both:
                        return where + "impl raised %s, model says %s" % (t.get("err"), mt.get("err", "no error"))
                    if "err" in mt and "err" not in t:
                        return where + "model raised %s, impl returned" % mt["err"]
                    if "err" in mt:
                        continue
                # STATES[i] up to the order of the candidates (list(set) in Python)
                ist = [sorted(L, key=key) for L in t["states"]]
                mst = [sorted(L, key=key) for L in mt["states"]]
                if "err" in t:
                    ist = ist[:len(mst)]
                    if len(mst) < len(t["states"]) - 1:
                        return where + "model STATES shorter than the real ones"
                    mst = mst[:len(ist)]
                if not close(ist, mst, self.rel_tol):
                    return where + "STATES differ as sets: impl=%s model=%s" % (json.dumps(ist)[:300], json.dumps(mst)[:300])
                if "err" in t:
                    continue
                if mt["inf"] is None or not close(t["inf"], mt["inf"], self.rel_tol):
                    return where + "hmm_inference differs: impl=%s model=%s" % (json.dumps(t["inf"])[:300], json.dumps(mt["inf"])[:300])
                if sorted(t["features"]) != sorted(mt["names"]) or t["features"][:len(t["before"]["features"])] != mt["names"][:len(t["before"]["features"])]:
                    return where + "feature names: impl=%s model=%s" % (t["features"], mt["names"])
                if t.get("noise_after") is not None and not close(t["noise_after"], mt["noise"], self.rel_tol):
                    return where + "obs_noise column: impl=%s model=%s" % (t["noise_after"], mt["noise"])
                if [p[:3] for p in t["pos_after"]] != mt["pos"]:
                    return where + "positions after the call: impl=%s model=%s" % (t["pos_after"][:4], mt["pos"][:4])
                if mt.get("times") is not None and [self.stamp_key(r) for r in t["t_after"]] != mt["times"]:
                    return where + "time stamps after the call (in the order of the track): impl=%s model=%s" % (t["t_after"][:4], mt["times"][:4])
        return None

    def compare(self, case, impl_out, model_out):
        w = self.compare_net(case, impl_out, model_out["net"])
        if w:
            return w
        if "invalid" in impl_out:
            return None
        touts = [(ci, t) for ci, co in enumerate(impl_out["calls"]) for t in co["tracks"] if t["cand"]]
        if len(touts) != len(model_out["tracks"]):
            return "%d matched tracks on the implementation side, %d model replies" % (len(touts), len(model_out["tracks"]))
        for (ci, t), m in zip(touts, model_out["tracks"]):
            w = self.compare_track(t, m)
            if w:
                return "call %d, track %d: %s" % (ci, t["ti"], w)
        return self.reach_check(case, impl_out)

    @staticmethod
    def dist_to_polyline(q, g):
        """planimetric distance from q to the polyline g, closed form per segment (independent of tracklib's projection)"""
        best = min(math.hypot(q[0] - p[0], q[1] - p[1]) for p in g)
        for a, b in zip(g, g[1:]):
            dx, dy = b[0] - a[0], b[1] - a[1]
            n2 = dx * dx + dy * dy
            if n2 > 0:
                t = min(1.0, max(0.0, ((q[0] - a[0]) * dx + (q[1] - a[1]) * dy) / n2))
                best = min(best, math.hypot(q[0] - a[0] - t * dx, q[1] - a[1] - t * dy))
        return best

    def reach_check(self, case, impl_out):
        """TV.C10.edge_within_unit_reach_is_candidate / edge_within_radius_is_candidate_on_coarse_index sampled on the REAL
        candidate lists (a consequence of theorems about the model, so a disagreement, not a verdict: the property does not
        claim completeness): with U = ceil(radius / min(csize, lsize)) read from the real index, every edge with a point
        within U * min(dX, dY) of an observation of the extent must be among the candidates neighborhood() answered.
        Exact arithmetic in the theorem: the reach is taken 1e-7 short here. Counts the observations that have an edge within
        the search radius that is NOT a candidate (the witness class of edge_within_radius_missed) in self.reach_stats."""
        grid = (impl_out.get("net") or {}).get("grid")
        if not grid or case.get("via") == "late" or "late" in case:
            return None                                                   # (late edges may leave the extent: C08's late_feature_* theorems)
        xmin, xmax, ymin, ymax, cs, ls = grid
        if cs < 1 or ls < 1:
            return None
        side = min((xmax - xmin) / cs, (ymax - ymin) / ls)
        st = self.__dict__.setdefault("reach_stats", {"obs": 0, "missed_within_radius": 0, "coarse": 0})
        for ci, co, pc, t in self.walk(case, impl_out):
            cand = t.get("cand")
            if not cand or pc["radius"] < 0:
                continue
            U = math.ceil(pc["radius"] / min(cs, ls))
            geoms = [[[float(p[0]), float(p[1])] for p in g] for g in pc["geoms"]]
            for k, c in enumerate(cand):
                if c is None or k >= len(pc["track"]):
                    continue
                q = pc["track"][k]
                if not (xmin <= q[0] <= xmax and ymin <= q[1] <= ymax):
                    continue
                st["obs"] += 1
                st["coarse"] += min(cs, ls) <= side
                missed = False
                for n, g in enumerate(geoms):
                    if not g or n in c:
                        continue
                    d = self.dist_to_polyline(q, g)
                    if d <= U * side * (1 - 1e-7):
                        return ("call %d, track %d, observation %d: edge number %d has a point at %.9g <= U * min(dX, dY) = %d * %.9g of the observation "
                                "but is not among the candidates %s of neighborhood(p, unit=%d) (TV.C10.edge_within_unit_reach_is_candidate)"
                                % (ci, t["ti"], k, n, d, U, side, c, U))
                    missed = missed or d < pc["radius"] * (1 - 1e-7)
                st["missed_within_radius"] += missed
        return None

    def compare_track(self, impl_out, model_out):
        if "err" in impl_out:
            if impl_out["err"] == "err:zerodiv":
                if model_out.get("err") != impl_out["err"]:
                    return "impl raised %s, model says %s" % (impl_out["err"], json.dumps(model_out)[:300])
                return None
            # an exception of the decoder (a parameter of the model): only the candidate states can be compared
            if "err" in model_out:
                return "impl raised %s, model raised %s" % (impl_out["err"], model_out["err"])
            n = len(model_out["states"])
            if len(impl_out["states"]) >= n and close(impl_out["states"][:n], model_out["states"], self.rel_tol):
                return None
            return "STATES differ: impl=%s model=%s" % (json.dumps(impl_out["states"])[:300], json.dumps(model_out["states"])[:300])
        if "err" in model_out:
            return "model raised %s, impl returned" % model_out["err"]
        if not close(impl_out["states"], model_out["states"], self.rel_tol):
            return "the candidate lists given to the decoder differ from the model's STATES: impl=%s model=%s" % (
                json.dumps(impl_out["states"])[:400], json.dumps(model_out["states"])[:400])
        if model_out["inf"] is None:
            return "hmm_inference holds an object that is not one of STATES[k] (indices %s)" % impl_out.get("idx")
        if not close(impl_out["inf"], model_out["inf"], self.rel_tol):
            return "hmm_inference differs: impl=%s model=%s" % (json.dumps(impl_out["inf"])[:400], json.dumps(model_out["inf"])[:400])
        return None

    # ------------------------------------------------------------------ oracle
    def check_state(self, case, k, row):
        """the property for one observation: flagged, or a point of an existing edge within the radius with
        along-edge distances to the two end nodes that add up to the edge length"""
        if len(row) != 6 or row[0] == "?":
            return "hmm_inference[%d] is not a state tuple: %s" % (k, row)
        px, py, elem, d0, d1 = row[:5]
        q = case["track"][k]
        if elem == -1:
            if d0 == -1 and d1 == -1 and px == q[0] and py == q[1]:
                return None
            return "observation %d: flag state %s is not (position, -1, -1, -1)" % (k, row)
        for v in (px, py, d0, d1):
            if v != v or math.isinf(v):
                return "observation %d: non-finite state %s" % (k, row)
        # the geometry of edge number `elem` AS IT IS in the network (Edge.geom read back after the call), not as it was given
        geoms = case["geoms"]
        if not (0 <= elem < len(geoms)):
            return "observation %d: edge number %s does not exist (0..%d)" % (k, elem, len(geoms) - 1)
        g = geoms[elem]
        if len(g) < 2:
            return "observation %d: edge number %d has no geometry to lie on (%d vertices)" % (k, elem, len(g))
        X, Y = [p[0] for p in g], [p[1] for p in g]
        segs = segments(X, Y)
        sc = max([1.0] + [abs(v) for v in X + Y + [q[0], q[1]]])
        tol = TOL * sc
        fx, fy = fr(px), fr(py)
        offs = [seg_d2(fx, fy, *s) for s in segs]
        if min(offs) > F(tol) ** 2:
            return "observation %d: point (%r, %r) is not on the geometry of edge number %d (off by %.3g)" % (k, px, py, elem, fsqrt(min(offs)))
        dq = fsqrt((fr(q[0]) - fx) ** 2 + (fr(q[1]) - fy) ** 2)
        if dq > case["radius"] + tol:
            return "observation %d: assigned point (%r, %r) is %.6g away, search radius %s" % (k, px, py, dq, case["radius"])
        # "distances to the edge's two end nodes measured along the edge that add up to the edge length". Map-matching is
        # planimetric (the assigned point is a planimetric point of the geometry) and tracklib measures the edge planimetrically
        # (abs_curv = sums of distance2DTo); on a geometry with altitudes the statement can also be read with the 3D length
        # (Track.length(), the edge weight) and the 3D abscissa of the point of the 3D segment above the assigned point. The
        # statement does not say which: either reading is accepted, but ONE of them must hold for the sum AND for the abscissa
        # (a mixture — 3D up to a vertex, planimetric after it — measures nothing along the edge). On a geometry without
        # altitude differences the two readings coincide.
        Z = [zof(p) for p in g]
        seg2 = [fsqrt((s[2] - s[0]) ** 2 + (s[3] - s[1]) ** 2) for s in segs]
        seg3 = [math.sqrt(seg2[i] ** 2 + (Z[i + 1] - Z[i]) ** 2) for i in range(len(segs))]
        L2, L3 = edge_length(g), math.fsum(seg3)
        ltol = TOL * max(1.0, L2, L3, sc)
        why = []
        for name, L, seg in (("planimetric", L2, seg2), ("3D", L3, seg3)):
            if abs(d0 + d1 - L) > ltol:
                why.append("%r + %r != %s edge length %r" % (d0, d1, name, L))
                continue
            acc = 0.0
            ok = False
            for i, s in enumerate(segs):
                if offs[i] <= F(tol) ** 2:
                    h = fsqrt((fx - s[0]) ** 2 + (fy - s[1]) ** 2)
                    if seg2[i] > 0:
                        lo = hi = acc + (h if seg is seg2 else h / seg2[i] * seg[i])
                    else:                       # a segment that is a point in the plane: any point of it is above (px, py)
                        lo, hi = acc, acc + seg[i]
                    if lo - ltol <= d0 <= hi + ltol:
                        ok = True
                acc += seg[i]
            if ok:
                return None
            why.append("%r is not the %s along-edge abscissa of the assigned point" % (d0, name))
        return "observation %d: distances to the end nodes of edge number %d: %s" % (k, elem, "; ".join(why))

    def spec_track(self, pc, out):
        """the property for one track of one call; pc = {"edges", "track", "radius"}"""
        b = out["before"]
        n = len(pc["track"])
        if out["n_after"] != n or b["n"] != n:
            return "the track has %d observations after map-matching, %d before" % (out["n_after"], n)
        if out["pos_after"] != b["pos"]:
            k = [i for i in range(n) if out["pos_after"][i] != b["pos"][i]][0]
            return "positions changed: observation %d was at %s before map-matching, is at %s after" % (k, b["pos"][k], out["pos_after"][k])
        if out["t_after"] != b["t"]:
            k = [i for i in range(n) if out["t_after"][i] != b["t"][i]][0]
            return "timestamps changed: observation %d had the stamp %s before map-matching, has %s after" % (k, b["t"][k], out["t_after"][k])
        # (which feature columns exist after the call is not part of the statement — a version that writes a further column
        # still satisfies it —: the names are compared with the model's in compare_net, not judged here)
        if len(out["inf"]) != n:
            return "hmm_inference has %d entries for %d observations" % (len(out["inf"]), n)
        for k in range(n):
            w = self.check_state(pc, k, out["inf"][k])
            if w:
                return w
        return None

    def walk(self, case, out):
        """(call index, pseudo-case, track output) in the order of the session"""
        S = self.as_session(case)
        for ci, co in enumerate(out["calls"]):
            for t in co["tracks"]:
                yield ci, co, {"edges": case["edges"], "track": S["tracks"][t["ti"]], "radius": S["calls"][ci]["radius"],
                               "geoms": t.get("geoms") or co.get("geoms") or [e["g"] for e in case["edges"]]}, t

    def spec(self, case, out):
        if "invalid" in out:
            return None      # outside the domain: no network / index to match on
        S = self.as_session(case)
        multi = case["kind"] == "session"
        for ci, co, pc, t in self.walk(case, out):
            where = ("call %d, track %d: " % (ci, t["ti"])) if multi else ""
            if "err" in t:
                return where + "mapOnNetwork raised %s" % t["err"]
            w = self.spec_track(pc, t)
            if w:
                return where + w
        for ci, co in enumerate(out["calls"]):
            if "err" in co:
                return "call %d: mapOnNetwork raised %s" % (ci, co["err"])
            if len(co["tracks"]) != len(S["calls"][ci]["t"]):
                return "call %d: %d of %d tracks were map-matched" % (ci, len(co["tracks"]), len(S["calls"][ci]["t"]))
        if len(out["calls"]) != len(S["calls"]):
            return "%d of %d calls ran" % (len(out["calls"]), len(S["calls"]))
        return None

    # ------------------------------------------------------------------ known findings
    def classify(self, case, impl_out, msg):
        if not msg or not impl_out or "err" not in impl_out or "calls" not in impl_out:
            return None
        # the first failure of the session must be the exception, and it must be of a listed kind
        for ci, co, pc, t in self.walk(case, impl_out):
            if "err" in t:
                return self.classify_track(pc, t)
            if self.spec_track(pc, t):
                return None
        return None

    def classify_track(self, case, impl_out):
        cand = impl_out.get("cand") or []
        if impl_out["err"] == "err:zerodiv" and cand and cand[-1]:
            # D16 reached through __projOnTrack: the observation being processed has the abscissa of a vertical
            # segment of a candidate edge and the code's pseudo-foot (x, y2 - y1) passes the inclusion test
            q = case["track"][len(cand) - 1]
            for elem in cand[-1]:
                if not (0 <= elem < len(case["edges"])):
                    continue
                g = case["edges"][elem]["g"]
                for j in range(len(g) - 1):
                    x1, y1, x2, y2 = g[j][0], g[j][1], g[j + 1][0], g[j + 1][1]
                    if x1 == x2 and y1 != y2 and q[0] == x1 and min(y1, y2) <= (y2 - y1) <= max(y1, y2):
                        return "vertical-segment-zerodiv"
            return None
        return None

    # ------------------------------------------------------------------ shrinking / search
    def shrink(self, case):
        es = case["edges"]
        if case["kind"] == "session":
            calls, tracks = case["calls"], case["tracks"]
            if len(calls) > 1:
                for k in range(len(calls)):
                    yield dict(case, calls=calls[:k] + calls[k + 1:])
            for k, c in enumerate(calls):
                if len(c["t"]) > 1:
                    for j in range(len(c["t"])):
                        yield dict(case, calls=calls[:k] + [dict(c, t=c["t"][:j] + c["t"][j + 1:])] + calls[k + 1:])
            if case.get("pre"):
                yield dict(case, pre={})
            times = case.get("times")
            if times is not None:
                yield {k: v for k, v in case.items() if k != "times"}          # chronological stamps
            for ti, t in enumerate(tracks):
                if len(t) > 1:
                    for k in range(len(t)):
                        c = dict(case, tracks=tracks[:ti] + [t[:k] + t[k + 1:]] + tracks[ti + 1:])
                        if times is not None and ti < len(times) and times[ti] is not None:
                            c["times"] = times[:ti] + [times[ti][:k] + times[ti][k + 1:]] + times[ti + 1:]
                        yield c
        else:
            t = case["track"]
            times = case.get("times")
            if times is not None:
                yield {k: v for k, v in case.items() if k != "times"}          # chronological stamps
            if len(t) > 8:                                                      # long tracks: halves first
                for a, b in ((0, len(t) // 2), (len(t) // 2, len(t))):
                    c = dict(case, track=t[a:b])
                    if times is not None:
                        c["times"] = times[a:b]
                    yield c
            if len(t) > 1:
                for k in range(len(t)):
                    c = dict(case, track=t[:k] + t[k + 1:])
                    if times is not None:
                        c["times"] = times[:k] + times[k + 1:]
                    yield c
        if has_z(case):
            flat = dict(case, edges=[dict(e, g=[q[:2] for q in e["g"]]) for e in es])
            if case.get("nodes"):
                flat["nodes"] = {k: v[:2] for k, v in case["nodes"].items()}
            yield flat                                      # the network without altitudes
            if case["kind"] == "session":
                yield dict(case, tracks=[[q[:2] for q in t] for t in case["tracks"]])
            else:
                yield dict(case, track=[q[:2] for q in case["track"]])
            for k, e in enumerate(es):
                if any(len(q) > 2 for q in e["g"]):
                    yield dict(case, edges=es[:k] + [dict(e, g=[q[:2] for q in e["g"]])] + es[k + 1:])
        if len(es) > 1:
            used = set()
            for k in range(len(es)):
                yield dict(case, edges=es[:k] + es[k + 1:])
        for k, e in enumerate(es):
            if len(e["g"]) > 2:
                for j in range(1, len(e["g"]) - 1):
                    yield dict(case, edges=es[:k] + [dict(e, g=e["g"][:j] + e["g"][j + 1:])] + es[k + 1:])

    @staticmethod
    def lift(case, rng):
        """a neighbour with other altitudes: every vertex gets an altitude of its own (per planimetric position), the
        observations keep theirs"""
        zmap = {}
        return dict(case, edges=[dict(e, g=[[q[0], q[1], zmap.setdefault(xyt(q), rng.randint(0, 24) / 2.0)] for q in e["g"]]) for e in case["edges"]])

    def mutate(self, case, rng):
        if case["kind"] == "session":
            for dx, dy in ((0.5, 0), (0, 0.5)):
                yield dict(case, tracks=[[[p[0] + dx, p[1] + dy] + p[2:] for p in t] for t in case["tracks"]])
            yield self.lift(case, rng)
            for mode in ("dec", "none"):            # the same session on tracks stored anti-chronologically / without time information
                yield dict(case, times=[self.gen_times(rng, len(t), mode) for t in case["tracks"]])
            return
        for mode in ("dec", "none", "shuffle"):
            yield dict(case, times=self.gen_times(rng, len(case["track"]), mode))
        for dx, dy in ((0.5, 0), (0, 0.5), (-0.5, 0), (0, -0.5)):
            yield dict(case, track=[[p[0] + dx, p[1] + dy] + p[2:] for p in case["track"]])
        yield self.lift(case, rng)
        for r in (0.5, 1.0, 2.0, 5.5):
            if r != case["radius"]:
                yield dict(case, radius=r)


# ---- tie to the source by translation (tools/py2lean.py -> lean/TracklibVerif/Gen/Geometry.lean, regenerated on every run)
P.tie_modules = ["TracklibVerif.Tie.C10"]
P.theorems = P.theorems + [
    ("TracklibVerif.Tie.C10", "TV.Tie.C10.tie_proj_segment", "the Lean translation of the CURRENT source of geometry.proj_segment (with cartesienne, projection_droite) equals the model's projSegment on all arguments, exceptions included"),
    ("TracklibVerif.Tie.C10", "TV.Tie.C10.tie_projection_droite", "the translation of the CURRENT source of geometry.projection_droite equals the model's projectionDroite on all arguments"),
]
P.theorems = P.theorems + [
    ("TracklibVerif.Tie.C10", "TV.Tie.C10.tie_proj_polyligne", "the translation of the CURRENT source of geometry.proj_polyligne equals the model's projPolyligneXY (np=false, eps=1e-16) on all arguments whose kept distances are < inf (the sentinel 1e400), exceptions included"),
    ("TracklibVerif.Tie.C10", "TV.Tie.C10.tie_proj_polyligne_pairs", "the translated proj_polyligne on the abscissas/ordinates of a vertex list equals the kernel model projPolyligne (same sentinel hypothesis), exceptions included"),
]
P.theorems = P.theorems + [
    ("TracklibVerif.Tie.C10", "TV.Tie.C10.tie_proj_polyligne_exact", "EXACT (model correction): the translation of the CURRENT source of geometry.proj_polyligne equals the sentinel-faithful model projPolyligneXYS (np=false, sentinel inf, eps=1e-16) on ALL arguments, no sentinel hypothesis, exceptions included"),
    ("TracklibVerif.Tie.C10", "TV.Tie.C10.tie_proj_polyligne_pairs_exact", "EXACT: the translated proj_polyligne on the abscissas/ordinates of a vertex list equals the sentinel-faithful kernel model projPolyligneS on ALL arguments (= projPolyligne whenever every distance met is < inf: Lemmas/ProjSentinel.lean)"),
]
