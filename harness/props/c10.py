"""C10 — map-matched positions lie on a real edge within the search radius
(tracklib/algo/mapping.py mapOnNetwork / __mapOnNetwork / __distToNode / __projOnTrack; the candidate edge
numbers come from the real spatial index and the decoded indices from the real HMM — both are parameters of
the model, which covers the candidate construction, the flag state, the inference column and the track)."""
import json, math
from fractions import Fraction as F
from engine import Prop, fbits, bitsf, close, err_kind
from props.c20 import fr, seg_d2, segments, degenerate

TOL = 1e-9
OVERFLOW_JUMP = 7000.0   # exp(-(dtopo - dgeom)/10) overflows when dgeom - dtopo > ~7097


def fsqrt(x):
    return math.sqrt(float(x))


def edge_length(g):
    return sum(fsqrt((fr(g[i + 1][0]) - fr(g[i][0])) ** 2 + (fr(g[i + 1][1]) - fr(g[i][1])) ** 2) for i in range(len(g) - 1))


class P(Prop):
    id = "C10"
    design_ref = "DESIGN.md section 5, C10"
    M = "TracklibVerif.Props.C10"
    theorems = [
        (M, "TV.C10.candidate_sound", "STATES[i] is never empty and holds the flag state or sound candidates: existing edge number, point on a segment of its geometry, d < radius, d0 + d1 = edge length"),
        (M, "TV.C10.all_states_sound", "STATES has one such list per observation, in order"),
        (M, "TV.C10.inferred_is_candidate", "for every decoder: hmm_inference[k] is one of STATES[k], so every observation is flagged or assigned a sound candidate"),
        (M, "TV.C10.track_preserved", "mode 1 (any mode outside {3,4,5}): same observations, order, positions, timestamps; only obs_noise / hmm_inference / hmm_cost are created"),
        (M, "TV.C10.timestamps_preserved", "every mode: count and timestamps unchanged"),
        (M, "TV.C10.decoder_in_range_total", "a decoder answering in-range indices never makes the backward step fail"),
        (M, "TV.C10.viterbi_decoder_total", "with the Viterbi model of C09 over any cost tables, the decoded indices are in range (candidate lists are never empty), so the backward step never fails"),
    ]
    partial = []
    open_statements = ["the spatial index (candidate edge numbers) and the HMM decoder (indices) are parameters: completeness of the candidates (no edge within the radius is missed) "
                       "is not claimed by the property and not proved; exceptions (ZeroDivisionError on vertical segments, OverflowError in the transition model) are outside the "
                       "theorems and reported as findings"]
    modelled = ("algo/mapping.py __mapOnNetwork: candidate loop (projection on the edge geometry, d < search_radius, __distToNode from abs_curv), flag state, "
                "hmm_inference from the decoded indices, created feature columns, positions untouched for mode 1; computeAbsCurv (ds + INTEGRATOR). "
                "Parameters of the model (taken from the real run): spatial_index.neighborhood results, HMM-decoded state indices")
    rule = ("grid-like and random networks on an integer lattice and on two-decimal coordinates (oblique / horizontal / vertical, 2..4-vertex edges, arbitrary "
            "edge and node ids), spatial index of several cell sizes and margins, tracks of 1..7 observations on / near / far from the network (outside the index "
            "included), several radii and noise values. non-trivial = at least one observation has a non-flag candidate")
    trusted = ["the candidate edge numbers (SpatialIndex.neighborhood) and the decoded indices (HMM.estimate) are inputs of the model, captured from the real call"]

    def setup(self):
        import tracklib
        from tracklib import Obs, ObsTime, ENUCoords, Track, Network, Node, Edge, SpatialIndex, computeAbsCurv
        from tracklib.algo import mapping
        self.tl = dict(Obs=Obs, ObsTime=ObsTime, E=ENUCoords, Track=Track, Network=Network, Node=Node, Edge=Edge,
                       SI=SpatialIndex, curv=computeAbsCurv, mapping=mapping)
        self._cache = {}

    # ------------------------------------------------------------------ generators
    def exhaustive_scopes(self, tier):
        return ["one 2-vertex edge in each of the 8 lattice directions (and 3 lengths) x observations on a 7x7 lattice around it x radii {1, 2.5}"]

    def cases(self, rng, tier):
        out = []
        # enumerated: single edge of every orientation, observation everywhere around it
        for (dx, dy) in [(1, 0), (0, 1), (1, 1), (1, -1), (2, 1), (1, 2), (-2, 1), (3, 0), (0, 3), (-1, -3)]:
            for radius in (1.0, 2.5):
                pts = [[float(x), float(y)] for x in range(-2, 5) for y in range(-2, 5)]
                for chunk in range(0, len(pts), 7):
                    out.append({"kind": "single", "stream": "enum",
                                "edges": [{"id": 7, "s": 1, "t": 2, "g": [[0.0, 0.0], [float(dx), float(dy)]]},
                                          {"id": 3, "s": 2, "t": 5, "g": [[float(dx), float(dy)], [float(dx) + 2.0, float(dy) + 1.0]]}],
                                "res": [1.0, 1.0], "margin": 0.3, "track": pts[chunk:chunk + 7], "radius": radius, "noise": 2.0})
        n = 15000 if tier == "thorough" else 3000
        for k in range(n):
            out.append(self.random_case(rng, ["grid", "random", "decimal"][k % 3]))
        for k in range(40 if tier == "thorough" else 6):
            c = self.random_case(rng, "grid")
            c["track"] = c["track"][:2] + [[c["track"][0][0] + 9000.0, c["track"][0][1] + 500.0], [c["track"][0][0] + 19000.0, c["track"][0][1]]]
            c["stream"] = "farjump"
            out.append(c)
        return out

    def coord(self, rng, stream):
        if stream == "decimal":
            return round(rng.randint(0, 2000) / 100.0, 2)
        return float(rng.randint(0, 12))

    def random_case(self, rng, stream):
        edges = []
        if stream == "grid":
            nx, ny = rng.randint(2, 4), rng.randint(1, 3)
            sp = float(rng.choice([2, 3, 5]))
            node = lambda i, j: (i * sp, j * sp)
            nid = lambda i, j: 1 + i * 10 + j
            links = []
            for i in range(nx):
                for j in range(ny):
                    if i + 1 < nx:
                        links.append(((i, j), (i + 1, j)))
                    if j + 1 < ny:
                        links.append(((i, j), (i, j + 1)))
                    if i + 1 < nx and j + 1 < ny and rng.random() < 0.3:
                        links.append(((i, j), (i + 1, j + 1)))
            rng.shuffle(links)
            links = links[:rng.randint(1, 7)]
            for (a, b) in links:
                pa, pb = node(*a), node(*b)
                g = [list(pa)]
                r = rng.random()
                if r < 0.3:      # intermediate vertex on the straight line
                    g.append([(pa[0] + pb[0]) / 2, (pa[1] + pb[1]) / 2])
                elif r < 0.5:    # bent edge
                    g.append([(pa[0] + pb[0]) / 2 + rng.choice([-1.0, 1.0]), (pa[1] + pb[1]) / 2 + rng.choice([-1.0, 0.0, 1.0])])
                g.append(list(pb))
                if rng.random() < 0.3:
                    g.reverse()
                    a, b = b, a
                edges.append({"s": nid(*a), "t": nid(*b), "g": g})
        else:
            nodes = {}
            for k in range(rng.randint(2, 6)):
                nodes[100 + k] = (self.coord(rng, stream), self.coord(rng, stream))
            ids = list(nodes)
            for _ in range(rng.randint(1, 6)):
                a, b = rng.sample(ids, 2)
                if nodes[a] == nodes[b]:
                    continue
                g = [list(nodes[a])]
                for _ in range(rng.choice([0, 0, 1, 2])):
                    kind = rng.random()
                    last = g[-1]
                    if kind < 0.3:
                        g.append([last[0], self.coord(rng, stream)])          # vertical piece
                    elif kind < 0.6:
                        g.append([self.coord(rng, stream), last[1]])          # horizontal piece
                    else:
                        g.append([self.coord(rng, stream), self.coord(rng, stream)])
                g.append(list(nodes[b]))
                edges.append({"s": a, "t": b, "g": g})
            if not edges:
                edges.append({"s": 100, "t": 101, "g": [[0.0, 0.0], [3.0, 4.0]]})
        eids = rng.sample(range(1, 60), len(edges))
        for e, i in zip(edges, eids):
            e["id"] = i
        xs = [p[0] for e in edges for p in e["g"]]
        ys = [p[1] for e in edges for p in e["g"]]
        ax, ay = max(xs) - min(xs), max(ys) - min(ys)
        margin = rng.choice([0.05, 0.15, 0.3, 0.6])
        # cell sizes: keep at least one cell per side (the index divides the extent by the cell size)
        ex, ey = max(ax, 1e-9) * (1 + margin), max(ay, 1e-9) * (1 + margin)
        if ax == 0 or ay == 0:
            # degenerate extent in one direction: the index cannot be built with explicit cell sizes; widen with an oblique stub edge
            edges.append({"s": 900, "t": 901, "id": 99, "g": [[min(xs), min(ys)], [min(xs) + 2.0, min(ys) + 1.0]]})
            xs += [min(xs) + 2.0]; ys += [min(ys) + 1.0]
            ax, ay = max(xs) - min(xs), max(ys) - min(ys)
            ex, ey = ax * (1 + margin), ay * (1 + margin)
        res = [min(rng.choice([1.0, 2.0, 3.0, 5.0, 10.0]), ex), min(rng.choice([1.0, 2.0, 3.0, 5.0, 10.0]), ey)]
        if rng.random() < 0.1 and 0.02 < ax / ay < 50:
            res = None
        radius = rng.choice([0.5, 1.0, 2.0, 3.0, 5.5, 10.0])
        track = []
        for _ in range(rng.randint(1, 7)):
            e = rng.choice(edges)
            i = rng.randrange(len(e["g"]) - 1)
            (x1, y1), (x2, y2) = e["g"][i], e["g"][i + 1]
            t = rng.choice([0.0, 0.25, 0.5, 0.75, 1.0, rng.random()])
            bx, by = x1 + t * (x2 - x1), y1 + t * (y2 - y1)
            how = rng.choices(["on", "near", "far", "out"], weights=[3, 6, 1.5, 0.5])[0]
            if how == "on":
                p = [bx, by]
            elif how == "near":
                p = [bx + rng.uniform(-1, 1) * min(radius, 3.0), by + rng.uniform(-1, 1) * min(radius, 3.0)]
            elif how == "far":
                p = [bx + rng.choice([-1, 1]) * radius * rng.uniform(1.0, 3.0), by + rng.choice([-1, 1]) * radius * rng.uniform(1.0, 3.0)]
            else:
                p = [bx + rng.choice([-1, 1]) * (ax + 50.0), by + rng.uniform(-100, 100)]
            if stream != "decimal" and how != "on":
                p = [round(p[0] * 4) / 4, round(p[1] * 4) / 4]
            elif stream == "decimal":
                p = [round(p[0], 2), round(p[1], 2)]
            track.append([float(p[0]), float(p[1])])
        return {"kind": "net", "stream": stream, "edges": edges, "res": res, "margin": margin, "track": track,
                "radius": radius, "noise": rng.choice([1.0, 5.0, 50.0])}

    def describe(self, case):
        orient = set()
        for e in case["edges"]:
            for s in segments([p[0] for p in e["g"]], [p[1] for p in e["g"]]):
                orient.add("z" if degenerate(s) else "v" if s[0] == s[2] else "h" if s[1] == s[3] else "o")
        return {"kind": case["kind"], "stream": case.get("stream", "?"), "edges": len(case["edges"]), "obs": len(case["track"]),
                "orient": "".join(sorted(orient)), "multi_vertex": any(len(e["g"]) > 2 for e in case["edges"])}

    def nontrivial(self, case):
        # at least one observation within the radius of some edge (exact geometry)
        for q in case["track"]:
            for e in case["edges"]:
                X, Y = [p[0] for p in e["g"]], [p[1] for p in e["g"]]
                if min(seg_d2(fr(q[0]), fr(q[1]), *s) for s in segments(X, Y)) < fr(case["radius"]) ** 2:
                    return True
        return False

    # ------------------------------------------------------------------ implementation
    def build(self, case):
        T = self.tl
        net = T["Network"]()
        for e in case["edges"]:
            tr = T["Track"]([T["Obs"](T["E"](x, y, 0), T["ObsTime"]()) for x, y in e["g"]])
            T["curv"](tr)
            ed = T["Edge"](e["id"], tr)
            ed.orientation = T["Edge"].DOUBLE_SENS
            ed.weight = tr.length()
            net.addEdge(ed, T["Node"](e["s"], tr.getFirstObs().position), T["Node"](e["t"], tr.getLastObs().position))
        si = T["SI"](net, resolution=None if case["res"] is None else tuple(case["res"]), margin=case["margin"], verbose=False)
        net.spatial_index = si
        net.prepare(verbose=False)
        return net

    @staticmethod
    def state_row(s):
        try:
            return [float(s[0].getX()), float(s[0].getY()), int(s[1]), float(s[2]), float(s[3])]
        except Exception:
            return ["?", repr(s)[:80]]

    def impl(self, case):
        T = self.tl
        mp = T["mapping"]
        key = json.dumps(case, sort_keys=True)
        try:
            net = self.build(case)
        except BaseException as e:   # building the network / its index is a precondition, not the property
            if isinstance(e, KeyboardInterrupt):
                raise
            self._cache[key] = ([], None)
            return {"invalid": "network or spatial index cannot be built: %s %s" % (err_kind(e), str(e)[:100])}
        trk = T["Track"]([T["Obs"](T["E"](x, y, 0), T["ObsTime"].readUnixTime(1000 + 10 * i)) for i, (x, y) in enumerate(case["track"])])
        before = {"pos": [[o.position.getX(), o.position.getY(), o.position.getZ()] for o in trk],
                  "t": [str(o.timestamp) for o in trk], "n": trk.size(), "features": list(trk.getListAnalyticalFeatures())}
        captured = []
        si = net.spatial_index
        orig = si.neighborhood

        def wrap(obj, j=None, unit=0):
            r = orig(obj, j, unit)
            if isinstance(obj, T["E"]):
                captured.append(None if r is None else [int(v) for v in r])
            return r
        si.neighborhood = wrap
        saved = getattr(mp, "STATES", None)
        err = None
        try:
            mp.mapOnNetwork(trk, net, gps_noise=case["noise"], search_radius=case["radius"])
        except BaseException as e:
            if isinstance(e, KeyboardInterrupt):
                raise
            err = {"err": err_kind(e), "detail": str(e)[:200]}
        states = getattr(mp, "STATES", None) or []
        rows = [[self.state_row(s) for s in L] for L in states]
        out = {"cand": captured, "states": rows}
        if err:
            out.update(err)
            self._cache[key] = (captured, None)
        else:
            idx, inf = [], []
            for k in range(trk.size()):
                v = trk["hmm_inference", k]
                j = [i for i, s in enumerate(states[k]) if s is v] if k < len(states) else []
                idx.append(j[0] if j else -1)
                inf.append(self.state_row(v))
            out.update({"idx": idx, "inf": inf,
                        "pos_after": [[o.position.getX(), o.position.getY(), o.position.getZ()] for o in trk],
                        "t_after": [str(o.timestamp) for o in trk], "n_after": trk.size(),
                        "features": list(trk.getListAnalyticalFeatures()), "before": before,
                        "nedges": net.getNumberOfEdges()})
            self._cache[key] = (captured, idx)
        if saved is not None:
            mp.STATES = saved
        return out

    # ------------------------------------------------------------------ model
    def requests(self, case):
        key = json.dumps(case, sort_keys=True)
        if key not in self._cache:
            self.impl(case)
        cand, idx = self._cache[key]
        n = len(cand)
        if n == 0:
            return []
        track = case["track"][:n]
        es = "|".join(";".join("%s,%s" % (fbits(p[0]), fbits(p[1])) for p in e["g"]) for e in case["edges"])
        tr = ";".join("%s,%s" % (fbits(p[0]), fbits(p[1])) for p in track)
        cs = ";".join("n" if c is None else ("_" if not c else ",".join(str(v) for v in c)) for c in cand)
        if idx is None or any(i < 0 for i in idx) or len(idx) != n:
            ix = "x"
        else:
            ix = ",".join(str(i) for i in idx)
        return ["C10.match %s %s %s %s %s" % (fbits(case["radius"]), es, tr, cs, ix)]

    ERR = {"zerodiv": "err:zerodiv", "unbound": "err:UnboundLocalError", "index": "err:index"}

    @staticmethod
    def parse_states(tok):
        if tok == "_":
            return []
        rows = []
        for item in tok.split(";"):
            a = item.split(",")
            rows.append([bitsf(a[0]), bitsf(a[1]), int(a[2]), bitsf(a[3]), bitsf(a[4])])
        return rows

    def decode(self, case, replies):
        if not replies:
            return {"states": [], "inf": []}
        r = replies[0].split()
        if r[0] == "err":
            return {"err": self.ERR[r[1]]}
        if r[0] != "ok":
            raise ValueError(replies[0])
        states = [self.parse_states(t) for t in r[1].split("|")]
        inf = self.parse_states(r[3]) if r[3] != "_" else None
        return {"states": states, "inf": inf}

    def compare(self, case, impl_out, model_out):
        if "invalid" in impl_out:
            return None
        if "err" in impl_out:
            if impl_out["err"] in ("err:zerodiv", "err:UnboundLocalError"):
                if model_out.get("err") != impl_out["err"]:
                    return "impl raised %s, model says %s" % (impl_out["err"], json.dumps(model_out)[:300])
                return None
            # an exception of the decoder (a parameter of the model): only the candidate states can be compared
            if "err" in model_out:
                return "impl raised %s, model raised %s" % (impl_out["err"], model_out["err"])
            n = len(model_out["states"])
            if len(impl_out["states"]) >= n and close(impl_out["states"][:n], model_out["states"], self.rel_tol):
                return None
            return "STATES differ: impl=%s model=%s" % (json.dumps(impl_out["states"])[:300], json.dumps(model_out["states"])[:300])
        if "err" in model_out:
            return "model raised %s, impl returned" % model_out["err"]
        if not close(impl_out["states"], model_out["states"], self.rel_tol):
            return "STATES differ: impl=%s model=%s" % (json.dumps(impl_out["states"])[:400], json.dumps(model_out["states"])[:400])
        if model_out["inf"] is None:
            return "hmm_inference holds an object that is not one of STATES[k] (indices %s)" % impl_out.get("idx")
        if not close(impl_out["inf"], model_out["inf"], self.rel_tol):
            return "hmm_inference differs: impl=%s model=%s" % (json.dumps(impl_out["inf"])[:400], json.dumps(model_out["inf"])[:400])
        return None

    # ------------------------------------------------------------------ oracle
    def check_state(self, case, k, row):
        """the property for one observation: flagged, or a point of an existing edge within the radius with
        along-edge distances to the two end nodes that add up to the edge length"""
        if len(row) != 5 or row[0] == "?":
            return "hmm_inference[%d] is not a state tuple: %s" % (k, row)
        px, py, elem, d0, d1 = row
        q = case["track"][k]
        if elem == -1:
            if d0 == -1 and d1 == -1 and px == q[0] and py == q[1]:
                return None
            return "observation %d: flag state %s is not (position, -1, -1, -1)" % (k, row)
        for v in (px, py, d0, d1):
            if v != v or math.isinf(v):
                return "observation %d: non-finite state %s" % (k, row)
        if not (0 <= elem < len(case["edges"])):
            return "observation %d: edge number %s does not exist (0..%d)" % (k, elem, len(case["edges"]) - 1)
        g = case["edges"][elem]["g"]
        X, Y = [p[0] for p in g], [p[1] for p in g]
        segs = segments(X, Y)
        sc = max([1.0] + [abs(v) for v in X + Y + [q[0], q[1]]])
        tol = TOL * sc
        fx, fy = fr(px), fr(py)
        offs = [seg_d2(fx, fy, *s) for s in segs]
        if min(offs) > F(tol) ** 2:
            return "observation %d: point (%r, %r) is not on the geometry of edge number %d (off by %.3g)" % (k, px, py, elem, fsqrt(min(offs)))
        dq = fsqrt((fr(q[0]) - fx) ** 2 + (fr(q[1]) - fy) ** 2)
        if dq > case["radius"] + tol:
            return "observation %d: assigned point (%r, %r) is %.6g away, search radius %s" % (k, px, py, dq, case["radius"])
        L = edge_length(g)
        ltol = TOL * max(1.0, L, sc)
        if abs(d0 + d1 - L) > ltol:
            return "observation %d: distances to the end nodes %r + %r != edge length %r" % (k, d0, d1, L)
        # measured along the edge: consistent with one of the segments that carry the point
        acc = 0.0
        ok = False
        for i, s in enumerate(segs):
            if offs[i] <= F(tol) ** 2:
                along = acc + fsqrt((fx - s[0]) ** 2 + (fy - s[1]) ** 2)
                if abs(d0 - along) <= ltol:
                    ok = True
            acc += fsqrt((s[2] - s[0]) ** 2 + (s[3] - s[1]) ** 2)
        if not ok:
            return "observation %d: distance to the source node %r is not the along-edge abscissa of the assigned point" % (k, d0)
        return None

    def spec(self, case, out):
        if "invalid" in out:
            return None      # outside the domain: no network / index to match on
        if "err" in out:
            return "mapOnNetwork raised %s" % out["err"]
        b = out["before"]
        n = len(case["track"])
        if out["n_after"] != n or b["n"] != n:
            return "the track has %d observations after map-matching, %d before" % (out["n_after"], n)
        if out["pos_after"] != b["pos"]:
            return "positions changed: before %s after %s" % (b["pos"][:4], out["pos_after"][:4])
        if out["t_after"] != b["t"]:
            return "timestamps changed"
        if sorted(out["features"]) != sorted(b["features"] + ["obs_noise", "hmm_inference", "hmm_cost"]):
            return "feature columns after map-matching: %s" % out["features"]
        if len(out["inf"]) != n:
            return "hmm_inference has %d entries for %d observations" % (len(out["inf"]), n)
        for k in range(n):
            w = self.check_state(case, k, out["inf"][k])
            if w:
                return w
        return None

    # ------------------------------------------------------------------ known findings
    def classify(self, case, impl_out, msg):
        if not msg or not impl_out or "err" not in impl_out:
            return None
        cand = impl_out.get("cand") or []
        if impl_out["err"] == "err:zerodiv" and cand and cand[-1]:
            # D16 reached through __projOnTrack: the observation being processed has the abscissa of a vertical
            # segment of a candidate edge and the code's pseudo-foot (x, y2 - y1) passes the inclusion test
            q = case["track"][len(cand) - 1]
            for elem in cand[-1]:
                if not (0 <= elem < len(case["edges"])):
                    continue
                g = case["edges"][elem]["g"]
                for j in range(len(g) - 1):
                    (x1, y1), (x2, y2) = g[j], g[j + 1]
                    if x1 == x2 and y1 != y2 and q[0] == x1 and min(y1, y2) <= (y2 - y1) <= max(y1, y2):
                        return "vertical-segment-zerodiv"
            return None
        if impl_out["err"] == "err:OverflowError" and len(cand) == len(case["track"]):
            # exp(-(dtopo - dgeom) / 10) in the transition model: two consecutive observations farther apart than ~7.1 km
            t = case["track"]
            for k in range(len(t) - 1):
                if math.hypot(t[k + 1][0] - t[k][0], t[k + 1][1] - t[k][1]) > OVERFLOW_JUMP - 2 * case["radius"]:
                    return "far-jump-overflow"
        return None

    # ------------------------------------------------------------------ shrinking / search
    def shrink(self, case):
        t = case["track"]
        if len(t) > 1:
            for k in range(len(t)):
                yield dict(case, track=t[:k] + t[k + 1:])
        es = case["edges"]
        if len(es) > 1:
            for k in range(len(es)):
                yield dict(case, edges=es[:k] + es[k + 1:], res=None if case["res"] is None else case["res"])
        for k, e in enumerate(es):
            if len(e["g"]) > 2:
                for j in range(1, len(e["g"]) - 1):
                    yield dict(case, edges=es[:k] + [dict(e, g=e["g"][:j] + e["g"][j + 1:])] + es[k + 1:])

    def mutate(self, case, rng):
        for dx, dy in ((0.5, 0), (0, 0.5), (-0.5, 0), (0, -0.5)):
            yield dict(case, track=[[p[0] + dx, p[1] + dy] for p in case["track"]])
        for r in (0.5, 1.0, 2.0, 5.5):
            if r != case["radius"]:
                yield dict(case, radius=r)
