"""C06 — network shortest distances are the true minimum over permitted walks (tracklib/core/network.py)."""
from fractions import Fraction
from engine import Prop
from props import netcommon as nc


def vtok(x):
    """implementation value -> canonical token (`big` = the 1e300 'not reachable / not prepared' value)"""
    if isinstance(x, float) and x >= 1e299:
        return "big"
    return nc.tok(Fraction(x))


def cut_tokens(case, dist):
    if "cuts" in case:
        return list(case["cuts"])
    return ["none"] + [nc.tok(c) for c in nc.cuts_for(dist)]


def prep_combos(cuts):
    """(cut of the first prepare, cut of a second prepare on the same DISTANCES or '-')"""
    out = [(c, "-") for c in cuts]
    for i in range(min(3, len(cuts))):
        out.append((cuts[i], cuts[-1 - i]))
    return out


def cutval(tokn):
    return None if tokn == "none" else Fraction(tokn)


def within(d, c):
    """true distance d (None = unreachable) does not exceed the cut c (None = no cut)"""
    return d is not None and (c is None or d <= c)


class P(Prop):
    id = "C06"
    design_ref = "DESIGN.md section 5, C06; appendix A.2"
    M = "TracklibVerif.Props.C06"
    theorems = [
        (M, "TV.C06.forward_invariant", "the loop invariants of run_routing_forward (appendix A.2) are preserved by one iteration (pop the minimum, settle, relax NEXT_EDGES)"),
        (M, "TV.C06.forward_correct", "after run_routing_forward(s) every label is the minimum weight over permitted walks; unlabelled (-1) iff no walk"),
        (M, "TV.C06.shortest_distance_correct", "shortest_distance(s,t) (run stopped when t is popped) = the true distance; sentinel iff t unreachable"),
        (M, "TV.C06.shortest_distance_cut", "shortest_distance(s,t,cut) = the true distance whenever it is <= cut; sentinel whenever t is unreachable"),
        (M, "TV.C06.shortest_distance_list_correct", "shortest_distance(s) list form: per node in insertion order the true distance, or none (1e300) iff unreachable"),
        (M, "TV.C06.cutoff_entries", "output_dict entries of run_routing_forward(s,cut) = exactly the nodes with true distance <= cut, with that distance"),
        (M, "TV.C06.cutoff_table", "all_shortest_distances(cut) maps (s,v) to y iff s is a node, y is the true distance s->v and y <= cut"),
        (M, "TV.C06.prepared_correct", "prepare(cut) + prepared_shortest_distance(s,v): stored value = true distance exactly for pairs within the cut-off"),
        (M, "TV.C06.prepared_twice_correct", "a second prepare(cut2) on the same DISTANCES: stored exactly for pairs within cut1 or cut2, always the true distance"),
    ]
    partial = []
    open_statements = ["priority_dict's heap with lazy deletion is not proved to extract the minimum (priority, key); it is modelled as such and exercised by the correspondence",
                       "weights are elements of a linearly ordered additive commutative monoid in the theorems; float rounding of sums of non-dyadic weights is outside them"]
    modelled = ("Network.addEdge (NEXT_EDGES by orientation), run_routing_forward in Dijkstra mode (pop by (poids, node id), stop tests "
                "before recording, 'other end' rule, visite guard, strict < relaxation, output_dict), shortest_distance (pair and list form), "
                "all_shortest_distances, prepare, prepared_shortest_distance; priority_dict.pop_smallest as 'extract the minimum (priority, key)'")
    trusted = ["priority_dict (heapq with lazy deletion) is modelled as extract-min by (priority, node id); its bookkeeping is exercised by the correspondence only",
               "A* routing mode (routing_mode = 1) is outside the model"]
    rule = ("every multigraph on <= 3 nodes with <= 2 edges as ordered edge lists (quick) and with 3 edges as multisets in shuffled order (thorough), "
            "weights {0,1,2}, orientations {-1,0,1}, self-loops and parallel edges included, node insertion order shuffled; random graphs to 12 nodes / 40 edges "
            "with integer and dyadic weights. Per graph: every ordered pair, cut-offs below/equal/above each distinct distance (a sample of them for the "
            "large random graphs), all API forms. non-trivial = at least one ordered pair s != t is joined by a walk")

    def setup(self):
        self.mods = nc.import_mods()

    # ---------------------------------------------------------------- generators
    def exhaustive_scopes(self, tier):
        s = ["all edge lists (ordered) of length 0..2 on 1..3 nodes over {src,tgt} x weights {0,1,2} x orientations {-1,0,1} (8067 graphs) x all ordered pairs x cut-offs {d-1/2, d, d+1/2 : d a distance} and none"]
        if tier == "thorough":
            s.append("all multisets of 3 edges on 1..3 nodes over the same alphabet (100482 multigraphs), edge and node insertion order shuffled")
        return s

    def cases(self, rng, tier):
        out = []
        for n in (1, 2, 3):
            for k in (0, 1, 2):
                for e in nc.enum_graphs(n, k, ordered=True):
                    order = list(range(n)); rng.shuffle(order)
                    out.append({"kind": "ex", "n": n, "order": order, "e": list(e)})
        if tier == "thorough":
            for n in (1, 2, 3):
                for e in nc.enum_graphs(n, 3, ordered=False):
                    e = list(e); rng.shuffle(e)
                    order = list(range(n)); rng.shuffle(order)
                    out.append({"kind": "ex3", "n": n, "order": order, "e": e})
        nsmall, nbig = (1500, 500) if tier == "quick" else (20000, 6000)
        for _ in range(nsmall):
            out.append(dict(nc.random_graph(rng, small=True), kind="rnd-small"))
        for _ in range(nbig):
            g = nc.random_graph(rng, nmax=rng.choice([5, 8, 12]), emax=rng.choice([8, 20, 40]))
            dist = nc.floyd_warshall(g["n"], g["edges"])
            allc = nc.cuts_for(dist)
            g["cuts"] = ["none"] + sorted({nc.tok(c) for c in rng.sample(allc, min(3, len(allc)))}, key=Fraction)
            out.append(dict(g, kind="rnd"))
        return out

    def describe(self, case):
        edges = nc.expand(case)
        ws = [nc.num(e[3]) for e in edges]
        pairs = [(min(e[1], e[2]), max(e[1], e[2])) for e in edges]
        return {"kind": case["kind"], "n": case["n"] if case["n"] <= 4 else "5-8" if case["n"] <= 8 else "9-12",
                "m": len(edges) if len(edges) <= 3 else "4-10" if len(edges) <= 10 else "11-40",
                "zero_weight": any(w == 0 for w in ws), "self_loop": any(e[1] == e[2] for e in edges),
                "parallel": len(set(pairs)) < len(pairs), "one_way": any(e[4] != 0 for e in edges)}

    def nontrivial(self, case):
        n = case["n"]
        d = nc.floyd_warshall(n, nc.expand(case))
        return any(d[s][t] is not None for s in range(n) for t in range(n) if s != t)

    # ---------------------------------------------------------------- implementation
    def impl(self, case):
        n = case["n"]
        edges = nc.expand(case)
        dist = nc.floyd_warshall(n, edges)          # only to choose the cut-offs
        cuts = cut_tokens(case, dist)
        with nc.time_limit(3 if n <= 4 else 20):
            net = nc.build_network(self.mods, case)
            out = {"cuts": cuts, "pairs": [], "lists": [], "all": [], "prep": []}
            for c in cuts:
                kw = {} if c == "none" else {"cut": nc.pynum(c)}
                out["pairs"].append([[vtok(net.shortest_distance(s, t, **kw)) for t in range(n)] for s in range(n)])
                out["lists"].append([[vtok(x) for x in net.shortest_distance(s, **kw)] for s in range(n)])
                tb = net.all_shortest_distances(**kw)
                out["all"].append(sorted([k[0], k[1], vtok(v)] for k, v in tb.items()))
            for (c1, c2) in prep_combos(cuts):
                net.DISTANCES = None
                net.prepare(verbose=False, **({} if c1 == "none" else {"cut": nc.pynum(c1)}))
                if c2 != "-":
                    net.prepare(verbose=False, **({} if c2 == "none" else {"cut": nc.pynum(c2)}))
                out["prep"].append([[vtok(net.prepared_shortest_distance(s, t)) for t in range(n)] for s in range(n)])
        return out

    # ---------------------------------------------------------------- model
    def requests(self, case):
        n = case["n"]
        edges = nc.expand(case)
        cuts = cut_tokens(case, nc.floyd_warshall(n, edges))
        es = nc.edges_token(edges)
        order = ",".join(map(str, case["order"])) if case["order"] else "_"
        out = []
        for c in cuts:
            out.append("C06.pairs %d %s %s" % (n, es, c))
            out.append("C06.lists %d %s %s %s" % (n, order, es, c))
            out.append("C06.all %d %s %s %s" % (n, order, es, c))
        for (c1, c2) in prep_combos(cuts):
            out.append("C06.prep %d %s %s %s %s" % (n, order, es, c1, c2))
        return out

    @staticmethod
    def matrix(reply, none_as):
        if reply == "bad-request":
            raise ValueError("bad-request")
        rows = [] if reply in ("_", "") else reply.split(";")
        return [[none_as if x == "none" else x for x in r.split(",")] for r in rows]

    def decode(self, case, replies):
        n = case["n"]
        edges = nc.expand(case)
        cuts = cut_tokens(case, nc.floyd_warshall(n, edges))
        out = {"cuts": cuts, "pairs": [], "lists": [], "all": [], "prep": []}
        i = 0
        for _ in cuts:
            out["pairs"].append(self.matrix(replies[i], "-1"))
            out["lists"].append(self.matrix(replies[i + 1], "big"))
            if replies[i + 2] == "bad-request":
                raise ValueError("bad-request")
            ent = [] if replies[i + 2] == "_" else [x.split(",") for x in replies[i + 2].split(";")]
            out["all"].append(sorted([int(a), int(b), d] for a, b, d in ent))
            i += 3
        for _ in prep_combos(cuts):
            out["prep"].append(self.matrix(replies[i], "big"))
            i += 1
        return out

    def compare(self, case, impl_out, model_out):
        if isinstance(impl_out, dict) and impl_out.get("err") == "err:Skipped":
            return None
        return Prop.compare(self, case, impl_out, model_out)

    # ---------------------------------------------------------------- oracle
    def spec(self, case, out):
        if "err" in out:
            if out["err"] == "err:Skipped":
                return None     # not evaluated (see netcommon.time_limit); the cases that timed out are the failures
            return "the implementation failed: %s %s" % (out["err"], out.get("detail", ""))
        n = case["n"]
        edges = nc.expand(case)
        d = nc.floyd_warshall(n, edges)
        order = case["order"]
        for ci, ctok in enumerate(out["cuts"]):
            c = cutval(ctok)
            for s in range(n):
                for t in range(n):
                    got = out["pairs"][ci][s][t]
                    if d[s][t] is None:
                        if got != "-1":
                            return "shortest_distance(%d,%d,cut=%s) = %s but no permitted walk exists (expected -1)" % (s, t, ctok, got)
                    elif within(d[s][t], c):
                        if got != nc.tok(d[s][t]):
                            return "shortest_distance(%d,%d,cut=%s) = %s, the minimum over permitted walks is %s" % (s, t, ctok, got, nc.tok(d[s][t]))
                row = out["lists"][ci][s]
                if len(row) != n:
                    return "shortest_distance(%d) returns %d values for %d nodes" % (s, len(row), n)
                for i, v in enumerate(order):
                    if d[s][v] is None:
                        if row[i] != "big":
                            return "shortest_distance(%d,cut=%s)[node %d] = %s but the node is unreachable (expected 1e300)" % (s, ctok, v, row[i])
                    elif within(d[s][v], c):
                        if row[i] != nc.tok(d[s][v]):
                            return "shortest_distance(%d,cut=%s)[node %d] = %s, true distance %s" % (s, ctok, v, row[i], nc.tok(d[s][v]))
            want = sorted([s, t, nc.tok(d[s][t])] for s in range(n) for t in range(n) if within(d[s][t], c))
            if out["all"][ci] != want:
                got = out["all"][ci]
                extra = [x for x in got if x not in want][:3]
                missing = [x for x in want if x not in got][:3]
                return "all_shortest_distances(cut=%s): entries not among the pairs with distance <= cut: %s; missing or wrong: %s" % (ctok, extra, missing)
        for k, (c1, c2) in enumerate(prep_combos(out["cuts"])):
            cs = [cutval(c1)] + ([cutval(c2)] if c2 != "-" else [])
            for s in range(n):
                for t in range(n):
                    ok = any(within(d[s][t], c) for c in cs)
                    want = nc.tok(d[s][t]) if ok else "big"
                    if out["prep"][k][s][t] != want:
                        return "after prepare(cut=%s)%s prepared_shortest_distance(%d,%d) = %s, expected %s" % (
                            c1, "" if c2 == "-" else " and prepare(cut=%s)" % c2, s, t, out["prep"][k][s][t], want)
        return None

    # ---------------------------------------------------------------- shrinking / search
    def shrink(self, case):
        for c in nc.shrink_graph(case):
            yield c
        if "cuts" in case and len(case["cuts"]) > 1:
            for k in range(len(case["cuts"])):
                yield dict(case, cuts=case["cuts"][:k] + case["cuts"][k + 1:])
        elif "cuts" not in case and "edges" in case:
            d = nc.floyd_warshall(case["n"], case["edges"])
            yield dict(case, cuts=cut_tokens(case, d))

    def mutate(self, case, rng):
        c = nc.explicit(case)
        for k, e in enumerate(c["edges"]):
            for o in (-1, 0, 1):
                if o != e[4]:
                    yield dict(c, edges=c["edges"][:k] + [e[:4] + [o]] + c["edges"][k + 1:])
            yield dict(c, edges=c["edges"][:k] + [e[:3] + [0, e[4]]] + c["edges"][k + 1:])
