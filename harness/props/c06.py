"""C06 — network shortest distances are the true minimum over permitted walks (tracklib/core/network.py)."""
from fractions import Fraction
from engine import Prop, fbits, bitsf, close
from props import netcommon as nc


def vtok(x):
    """implementation value -> canonical token (`big` = the 1e300 'not reachable / not prepared' value)"""
    if isinstance(x, float) and x >= 1e299:
        return "big"
    return nc.tok(Fraction(x))


def cut_tokens(case, dist):
    if "cuts" in case:
        return list(case["cuts"])
    return ["none"] + [nc.tok(c) for c in nc.cuts_for(dist)]


def prep_combos(cuts):
    """(cut of the first prepare, cut of a second prepare on the same DISTANCES or '-')"""
    out = [(c, "-") for c in cuts]
    for i in range(min(3, len(cuts))):
        out.append((cuts[i], cuts[-1 - i]))
    return out


def cutval(tokn):
    return None if tokn == "none" else Fraction(tokn)


def within(d, c):
    """true distance d (None = unreachable) does not exceed the cut c (None = no cut)"""
    return d is not None and (c is None or d <= c)


# ---------------------------------------------------------------------------------------------------
# sessions: one Network object, a sequence of calls (see Model/GraphSession.lean)
# op forms (JSON): ["n", v] addNode · ["e", id, src, tgt, w, ori] addEdge · ["r", s, t|None, cut, ud, obj] run_routing_forward
#   ["d", s, t, cut, ud, obj] shortest_distance · ["l", s, cut, ud, obj] list form · ["a", cut, ud] all_shortest_distances
#   ["p", cut] prepare · ["q", s, t, obj] prepared_shortest_distance · ["h", s, t, obj] has_prepared_shortest_distance
#   ["s", s, cut, obj] sub_network(TOPOLOGIC) [+ a search on every node of the returned network, which shares the Node objects]
#   ["v"] save_prep(file) then load_prep(file)
# cut: "none" or a number token; ud: 1 = the caller's dictionary is passed as output_dict; obj: 0 ids, 1 the network's Node
# objects, 2 fresh Node objects with the same ids
# ---------------------------------------------------------------------------------------------------
SESS_CUTS = ["none", "none", 0, "1/2", 1, 2, 3, 5]
SESS_W = [0, 0, 1, 1, 2, 3, "1/2", "3/2"]


def sess_valid(case):
    """every call is inside the session's domain (known nodes, fresh edge ids, prepare before prepared_*)"""
    n = case["n"]
    nodes, eids, prepared = set(), set(), False
    for op in case["ops"]:
        k = op[0]
        if k == "n":
            if not 0 <= op[1] < n:
                return False
            nodes.add(op[1])
        elif k == "e":
            if op[1] in eids or not (0 <= op[2] < n and 0 <= op[3] < n):
                return False
            eids.add(op[1]); nodes.update([op[2], op[3]])
        elif k in ("r", "d"):
            if op[1] not in nodes or (op[2] is not None and op[2] not in nodes):
                return False
        elif k in ("l", "s"):
            if op[1] not in nodes:
                return False
        elif k == "p":
            prepared = True
        elif k in ("q", "h", "v"):
            if not prepared:
                return False
    return True


def random_session(rng):
    n = rng.randint(2, 6)
    ops, nodes, eid, prepared = [], [], 0, False
    cut = lambda: rng.choice(SESS_CUTS)
    obj = lambda: rng.choice([0, 0, 1, 2])
    for step in range(rng.randint(4, 22)):
        r = rng.random()
        if not nodes or r < (0.6 if step < 3 else 0.22):
            a = rng.randrange(n)
            b = rng.choice(nodes) if nodes and rng.random() < 0.5 else rng.randrange(n)
            if rng.random() < 0.5:
                a, b = b, a
            ops.append(["e", eid, a, b, rng.choice(SESS_W), rng.choice([-1, 0, 0, 1])])
            eid += rng.choice([1, 1, 2])
            for v in (a, b):
                if v not in nodes:
                    nodes.append(v)
        elif r < 0.27:
            v = rng.randrange(n)
            ops.append(["n", v])
            if v not in nodes:
                nodes.append(v)
        elif r < 0.47:
            ops.append(["d", rng.choice(nodes), rng.choice(nodes), cut(), rng.choice([0, 0, 1]), obj()])
        elif r < 0.57:
            ops.append(["l", rng.choice(nodes), cut(), rng.choice([0, 0, 1]), obj()])
        elif r < 0.67:
            ops.append(["r", rng.choice(nodes), rng.choice(nodes + [None, None]), cut(), rng.choice([0, 0, 1]), obj()])
        elif r < 0.75:
            ops.append(["a", cut(), rng.choice([0, 1])])
        elif r < 0.82:
            ops.append(["p", cut()]); prepared = True
        elif r < 0.84 and prepared:
            ops.append(["v"])
        elif r < 0.91 and prepared:
            ops.append([rng.choice(["q", "q", "h"]), rng.choice(nodes), rng.choice(nodes), obj()])
        else:
            ops.append(["s", rng.choice(nodes), cut(), obj()])
    # node ids as the network reader produces them (strings) in a third of the sessions; "n0" < "n1" < … keeps the id order
    return {"kind": "sess", "n": n, "ids": rng.choice(["int", "int", "str"]), "ops": ops}


# ---------------------------------------------------------------------------------------------------
# worlds: several Network objects alive at the same time, each with its own routing settings
# case: {"kind": "world", "nets": [{"n": n, "pos": [[x, y], ...]}, ...], "ops": [[k, op], ...]}; op = a session op (above, minus `v`),
#   ["c"] Network() (creates object k: k = number of objects so far) · ["m", mode] setRoutingMethod · ["w", weight] setAStarWeight
# Node v of network k sits at nets[k]["pos"][v]; the layouts keep every distance between two nodes rational (exact stream).
# ---------------------------------------------------------------------------------------------------
WORLD_WGT = [0, "1/2", 1, 1, 1, "3/2", 2]
WORLD_WGT_F = [0.0, 0.5, 1.0, 1.0, 1.0, 1.5, 2.0, 0.3]


def world_layout(rng, n):
    r = rng.random()
    if r < 0.45:          # on a line
        sc = rng.choice([1, 1, 2, "1/2"])
        return [[nc.tok(Fraction(rng.randint(0, 6)) * Fraction(sc)), 0] for _ in range(n)]
    if r < 0.55:          # on a vertical line
        return [[3, rng.randint(0, 5)] for _ in range(n)]
    if r < 0.9:           # corners of a 3k x 4k rectangle (sides 3k, 4k, diagonal 5k)
        k = rng.choice([1, 1, 2])
        x0, y0 = rng.randint(0, 3), rng.randint(0, 3)
        return [[x0 + 3 * k * rng.randint(0, 1), y0 + 4 * k * rng.randint(0, 1)] for _ in range(n)]
    p = [rng.randint(0, 4), rng.randint(0, 4)]          # all nodes at the same place: the heuristic is 0
    return [list(p) for _ in range(n)]


def fsqrt(q):
    """exact square root of a rational that is a square"""
    import math
    q = Fraction(q)
    a, b = math.isqrt(q.numerator), math.isqrt(q.denominator)
    assert a * a == q.numerator and b * b == q.denominator, q
    return Fraction(a, b)


def random_world(rng, floats=False):
    """`floats`: the float stream — nodes anywhere on a 1/16 lattice in space (squares and their sums are exact doubles, the
    distances are irrational), float weights. Searches with a target on an object switched to A* with a consistent
    heuristic (the class of the former finding astar-label-accumulates-heuristic, repaired by c78e3ab) are generated like
    any other call."""
    import math
    nn = rng.choice([2, 2, 2, 3])
    nets = []
    for _ in range(nn):
        n = rng.randint(2, 5)
        if floats:
            flat = rng.random() < 0.5
            pts = [[rng.randint(0, 128) / 16.0, rng.randint(0, 128) / 16.0, 0.0 if flat else rng.randint(0, 64) / 16.0] for _ in range(n)]
            if rng.random() < 0.3:
                pts[rng.randrange(n)] = list(pts[rng.randrange(n)])
            nets.append({"n": n, "pos": pts})
        else:
            nets.append({"n": n, "pos": world_layout(rng, n)})
    fw = lambda: rng.choice([0.0, rng.uniform(0, 10), rng.uniform(0, 10), rng.uniform(0, 0.01), float(rng.randint(0, 5))])
    st = [None] * nn      # per created object: nodes, next edge id, prepared, mode, wgt, edges, weight style
    ops = []
    cut = lambda: rng.choice(SESS_CUTS)
    obj = lambda: rng.choice([0, 0, 0, 1, 2])
    created = 0
    for step in range(rng.randint(8, 34)):
        if created == 0 or (created < nn and rng.random() < 0.12):
            ops.append([created, ["c"]])
            st[created] = {"nodes": [], "eid": 0, "prep": False, "mode": 0, "wgt": 1, "edges": [],
                           "metric": rng.random() < 0.6, "calls": 0}
            created += 1
            if rng.random() < 0.4:        # configured right after its creation
                S = st[created - 1]
                S["mode"] = 1
                ops.append([created - 1, ["m", 1]])
                if rng.random() < 0.6:
                    S["wgt"] = rng.choice(WORLD_WGT_F) if floats else rng.choice(WORLD_WGT)
                    ops.append([created - 1, ["w", S["wgt"]]])
            continue
        k = rng.randrange(created)
        S, net = st[k], nets[k]
        n, nodes = net["n"], S["nodes"]
        r = rng.random()
        S["calls"] += 1
        if not nodes or r < (0.7 if S["calls"] <= 3 else 0.15):
            a = rng.randrange(n)
            b = rng.choice(nodes) if nodes and rng.random() < 0.5 else rng.randrange(n)
            if rng.random() < 0.5:
                a, b = b, a
            if floats:
                dab = math.sqrt(float(sqdist(net["pos"], a, b)))
                w = dab * rng.choice([1.0, 1.0, 1.5, 2.0, rng.uniform(1, 3), rng.uniform(0.9, 1.1)]) if S["metric"] and dab > 0 else fw()
            else:
                dab = fsqrt(sqdist(net["pos"], a, b))
                if S["metric"] and dab > 0:
                    w = nc.tok(dab * Fraction(rng.choice([1, 1, 1, "3/2", 2, 3])))      # at least the straight-line distance
                    w = int(w) if "/" not in w else w
                else:
                    w = rng.choice(SESS_W)
            e = ["e", S["eid"], a, b, w, rng.choice([-1, 0, 0, 0, 1])]
            ops.append([k, e]); S["edges"].append(e[1:])
            S["eid"] += rng.choice([1, 1, 2])
            for v in (a, b):
                if v not in nodes:
                    nodes.append(v)
        elif r < 0.19:
            v = rng.randrange(n)
            ops.append([k, ["n", v]])
            if v not in nodes:
                nodes.append(v)
        elif r < 0.30:
            S["mode"] = rng.choice([1, 1, 1, 0])
            ops.append([k, ["m", S["mode"]]])
        elif r < 0.37:
            S["wgt"] = (rng.choice(WORLD_WGT_F) if rng.random() < 0.7 else rng.uniform(0, 2)) if floats else rng.choice(WORLD_WGT)
            ops.append([k, ["w", S["wgt"]]])
        elif r < 0.70:
            t = rng.choice(nodes)
            q = ["d", rng.choice(nodes), t, cut(), rng.choice([0, 0, 0, 1]), obj()] if rng.random() < 0.75 else \
                ["r", rng.choice(nodes), t, cut(), rng.choice([0, 0, 1]), obj()]
            ops.append([k, q])
        elif r < 0.76:
            ops.append([k, ["l", rng.choice(nodes), cut(), rng.choice([0, 0, 1]), obj()]])
        elif r < 0.80:
            ops.append([k, ["r", rng.choice(nodes), None, cut(), rng.choice([0, 0, 1]), obj()]])
        elif r < 0.86:
            ops.append([k, ["a", cut(), rng.choice([0, 1])]])
        elif r < 0.91:
            ops.append([k, ["p", cut()]]); S["prep"] = True
        elif r < 0.96 and S["prep"]:
            ops.append([k, [rng.choice(["q", "q", "h"]), rng.choice(nodes), rng.choice(nodes), obj()]])
        else:
            ops.append([k, ["s", rng.choice(nodes), cut(), obj()]])
    if floats:      # cut-offs as floats; a third of them off the integers
        for _, op in ops:
            i = {"d": 3, "r": 3, "l": 2, "a": 1, "p": 1, "s": 2}.get(op[0])
            if i is not None and op[i] != "none":
                op[i] = float(Fraction(op[i])) if rng.random() < 0.6 else rng.uniform(0, 12)
    return {"kind": "fworld" if floats else "world", "nets": nets, "ops": ops}


def world_valid(case):
    """objects are created in order before they are used; each object's calls are a valid session"""
    created = 0
    per = {}
    for k, op in case["ops"]:
        if op[0] == "c":
            if k != created or k >= len(case["nets"]):
                return False
            created += 1; per[k] = []
        elif k not in per:
            return False
        elif op[0] not in "mw":
            per[k].append(op)
    return all(sess_valid({"n": case["nets"][k]["n"], "ops": ops}) for k, ops in per.items())


def world_regimes(case):
    """for the histogram: what kinds of searches with a target the case holds"""
    tags = {"dijkstra": 0, "dijkstra_while_another_is_astar": 0, "astar_weight_0": 0, "astar_consistent": 0, "astar_approx": 0}
    S = {}
    for k, op in case["ops"]:
        if op[0] == "c":
            S[k] = {"mode": 0, "wgt": 1, "edges": []}
        elif op[0] == "m":
            S[k]["mode"] = op[1]
        elif op[0] == "w":
            S[k]["wgt"] = op[1]
        elif op[0] == "e":
            S[k]["edges"].append(op[1:])
        elif op[0] == "d" or (op[0] == "r" and op[2] is not None) or op[0] == "s":
            if S[k]["mode"] != 1 or op[0] == "s":
                others = any(j != k and x["mode"] == 1 and Fraction(nc.num(x["wgt"])) > 0 for j, x in S.items())
                tags["dijkstra_while_another_is_astar" if others else "dijkstra"] += 1
            elif Fraction(nc.num(S[k]["wgt"])) == 0:
                tags["astar_weight_0"] += 1
            elif heuristic_consistent(case["nets"][k]["pos"], S[k]["edges"], S[k]["wgt"]):
                tags["astar_consistent"] += 1
            else:
                tags["astar_approx"] += 1
    return tags


def json_op(op):
    return "%s(%s)" % ({"n": "addNode", "e": "addEdge", "r": "run_routing_forward", "d": "shortest_distance", "l": "shortest_distance[list]",
                        "a": "all_shortest_distances", "p": "prepare", "q": "prepared_shortest_distance",
                        "h": "has_prepared_shortest_distance", "s": "sub_network", "v": "save_prep+load_prep",
                        "c": "Network", "m": "setRoutingMethod", "w": "setAStarWeight", "x": "sub_network[kept]", "W": "edge.weight="}[op[0]], ",".join(str(x) for x in op[1:]))


def dtok(x):
    """a label / distance read from the real code -> token (`none` = -1 or 1e300)"""
    if x == -1 or (isinstance(x, float) and x >= 1e299):
        return "none"
    return nc.tok(Fraction(x))


def table_tok(tb, unlab=lambda x: x):
    return sorted([unlab(k[0]), unlab(k[1]), nc.tok(Fraction(v))] for k, v in tb.items())



def sqdist(pos, a, b):
    """squared straight-line distance between the nodes a and b (exact)"""
    return sum((Fraction(nc.num(q)) - Fraction(nc.num(p))) ** 2 for p, q in zip(pos[a], pos[b]))


def heuristic_consistent(pos, edges, wgt):
    """the 'theoretical assumptions on the metrics used to set weights' of setRoutingMethod's docstring, for the heuristic
    astar_wgt * (straight-line distance to the target): 0 <= astar_wgt and every edge weighs at least astar_wgt times the
    straight-line distance between its two ends. Then h(u) <= w(u,v) + h(v) along every arc whatever the target (triangle
    inequality): the heuristic is consistent, and A* returns the exact minimum."""
    wgt = Fraction(nc.num(wgt))
    if wgt < 0:
        return False
    return all(Fraction(nc.num(e[3])) ** 2 >= wgt ** 2 * sqdist(pos, e[1], e[2]) for e in edges)


class SessOracle:
    """The property's oracle for ONE Network object, fed call by call: every answer against Floyd-Warshall on the graph
    as built so far. Checked: what the property states — sentinel iff unreachable; true distance whenever it is within the
    cut-off; a table filled by all_shortest_distances / prepare / a search without target holds exactly the pairs within
    the cut-off, each with its true distance; every entry written to a dictionary is a true distance of the graph at that
    moment. Left free: labels beyond the cut-off, which nodes a search stopped at a target has recorded, entries written
    before an edge was added (they are not distances of the current graph).

    Routing method: the object's OWN settings (setRoutingMethod / setAStarWeight called on it) decide. Dijkstra (the
    default): the statement applies always. A* matters only for a search with a target (without one the code never
    computes the heuristic): the statement applies when the heuristic is consistent (`heuristic_consistent`, which
    includes astar_wgt = 0) — the configuration for which the docstring promises the exact solution; otherwise A* is
    documented as approximate and only what every A* guarantees is checked: sentinel iff unreachable (no cut-off), and a
    reported value is never below the true minimum. (Since fix c78e3ab the node label is the travelled distance in A* mode
    too: wherever the statement applies, the entries written to output_dict and the labels of the nodes a
    run_routing_forward marked visited are judged as true distances, as in Dijkstra mode.)"""

    def __init__(self, n, pos=None, tol=None):
        self.n = n
        self.tol = tol         # None: exact stream (tokens compared for equality); else relative tolerance (float stream)
        self.nodes, self.edges, self.ver = [], [], 0
        self.E = {}            # expected content of the caller's dictionary: key -> (token, graph version when written)
        self.D = None          # expected DISTANCES, same form
        self.fw = None
        self.mode, self.wgt = 0, 1
        self.pos = pos if pos is not None else [[v, 0] for v in range(n)]

    def dist(self):
        if self.fw is None:
            self.fw = nc.floyd_warshall(self.n, self.edges)
        return self.fw

    def eq(self, got, true):
        """the reported token `got` is the true value `true` (None = none)"""
        if true is None or got is None or got == "none":
            return (got == "none" or got is None) and true is None
        if self.tol is None:
            return got == nc.tok(true)
        return abs(Fraction(got) - true) <= self.tol * max(1, abs(true))

    def above(self, got, true):
        return Fraction(got) > true + (0 if self.tol is None else self.tol * max(1, abs(true)))

    def regime(self, t):
        """'exact' (the statement applies: Dijkstra; A* without a target — the heuristic is never computed; A* with a
        consistent heuristic), 'approx' (A* with a target, heuristic not consistent: the statement does not apply)"""
        if self.mode != 1 or t is None:
            return "exact"
        if heuristic_consistent(self.pos, self.edges, self.wgt):
            return "exact"
        return "approx"

    def check_value(self, what, got, true, c, regime):
        """one reported distance `got` (token, 'none' = -1) for a pair of true distance `true` (None = unreachable)"""
        if true is None:
            if got != "none":
                return "%s = %s but no permitted walk exists (expected -1)" % (what, got)
            return None
        if regime == "exact":
            if within(true, c) and not self.eq(got, true):
                return "%s = %s, the minimum over permitted walks is %s" % (what, got, nc.tok(true))
            return None
        # approximate A*: never below the minimum; the sentinel only when a cut-off stopped the search
        if got == "none":
            if c is None:
                return "%s = -1 but a permitted walk of weight %s exists (A*, no cut-off)" % (what, nc.tok(true))
        elif not self.eq(got, true) and not self.above(got, true):
            return "%s = %s is below the minimum over permitted walks %s (A*)" % (what, got, nc.tok(true))
        return None

    def check_dict(self, what, got, s_written, complete, c, regime="exact"):
        """`got`: dump of the dictionary; entries of source s_written were (re)written by this call"""
        exp, nodes = self.E, self.nodes
        d = self.dist()
        gotd = {(a, b): v for a, b, v in got}
        srcs = nodes if s_written is None else [s_written]
        for s in srcs:
            for v in nodes:
                w = within(d[s][v], c)
                g = gotd.get((s, v))
                if regime == "approx":
                    if g is not None:
                        exp[(s, v)] = (g, self.ver)
                    continue
                if w and complete:
                    if not self.eq(g, d[s][v]):
                        return "%s: dictionary[(%d,%d)] = %s, the true distance %s is within the cut-off" % (what, s, v, g, nc.tok(d[s][v]))
                    exp[(s, v)] = (g, self.ver)
                elif g is not None and (s, v) not in exp:
                    # written by this call (it was not there before): must be a true distance within the cut-off
                    if not w or not self.eq(g, d[s][v]):
                        return "%s: wrote dictionary[(%d,%d)] = %s; true distance %s, cut-off %s" % (
                            what, s, v, g, "none" if d[s][v] is None else nc.tok(d[s][v]), c)
                    exp[(s, v)] = (g, self.ver)
                elif g is not None and exp[(s, v)][0] != g:
                    # overwritten by this call
                    if not w or not self.eq(g, d[s][v]):
                        return "%s: overwrote dictionary[(%d,%d)] with %s; true distance %s, cut-off %s" % (
                            what, s, v, g, "none" if d[s][v] is None else nc.tok(d[s][v]), c)
                    exp[(s, v)] = (g, self.ver)
        for key in gotd:
            if key not in exp:
                return "%s: dictionary has the key %s, which no call should have written" % (what, list(key))
        for key in exp:
            if key not in gotd:
                return "%s: the key %s disappeared from the dictionary" % (what, list(key))
        return None

    def feed(self, what, op, res, pos):
        """judge one call; `res[pos:]` = its result record(s). Returns (message or None, position after the records of this call)."""
        nodes, edges = self.nodes, self.edges
        if pos >= len(res):
            return "%s: no result" % what, pos
        r = res[pos]; pos += 1
        k = op[0]
        has_dump = (k in "rd" and op[4]) or (k == "l" and op[3]) or (k == "a" and op[2])
        end = pos + (1 if has_dump else 0)
        if r == "err" and k in "rdlsx" and any(v is not None and v not in nodes for v in ([op[1], op[2]] if k in "rd" else [op[1]])):
            return None, end     # a node this network does not hold (see SessRunner.call): the call was not made
        if isinstance(r, str) and r not in ("ok",):
            return "%s: %s" % (what, r), end
        if k == "n":
            if op[1] not in nodes:
                nodes.append(op[1])
            return None, end
        if k == "e":
            edges.append([op[1], op[2], op[3], op[4], op[5]])
            for v in (op[2], op[3]):
                if v not in nodes:
                    nodes.append(v)
            self.ver += 1; self.fw = None
            return None, end
        if k == "m":
            self.mode = op[1]
            return None, end
        if k == "w":
            self.wgt = op[1]
            return None, end
        d = self.dist()
        ver = self.ver
        cv = lambda c: cutval(c if c == "none" else nc.tok(nc.num(c)))
        def dict_fail(m):
            self.E = None      # after a failure the dictionary's content is no longer predictable
            return m, end
        if k == "d":
            s, t, c = op[1], op[2], cv(op[3])
            regime = self.regime(t)
            m = self.check_value(what, r[1], d[s][t], c, regime)
            if m:
                if op[4]:
                    self.E = None
                return m, end
            if op[4] and self.E is not None:
                m = self.check_dict(what, res[pos][1], s, False, c, regime)
                if m:
                    return dict_fail(m)
        elif k in ("l", "r"):
            s = op[1]
            c = cv(op[-3])
            t = op[2] if k == "r" else None
            regime = self.regime(t)
            labels = r[1]
            if len(labels) != len(nodes):
                return "%s: %d values for %d nodes" % (what, len(labels), len(nodes)), end
            for j, v in enumerate(nodes):
                if d[s][v] is None:
                    if labels[j] != "none":
                        return "%s: node %d has the label %s but is unreachable" % (what, v, labels[j]), end
                elif t is None or v == t:
                    m = self.check_value("%s: label of node %d" % (what, v), labels[j], d[s][v], c, regime)
                    if m:
                        if op[-2]:
                            self.E = None
                        return m, end
                if k == "r" and r[2][j] and regime == "exact" and \
                        (d[s][v] is None or not self.eq(labels[j], d[s][v])):
                    return "%s: node %d is marked visited with the label %s, true distance %s" % (what, v, labels[j], d[s][v]), end
            if op[-2] and self.E is not None:
                m = self.check_dict(what, res[pos][1], s, t is None, c, regime)
                if m:
                    return dict_fail(m)
        elif k == "a":
            c = cv(op[1])
            if op[2]:
                if self.E is not None:
                    m = self.check_dict(what, r[1], None, True, c)
                    if m:
                        return dict_fail(m)
                if res[pos][1] != r[1]:
                    self.E = None       # the dictionary was not filled in place (the property does not require it): its content is no longer predictable
            else:
                want = sorted([s, v, nc.tok(d[s][v])] for s in nodes for v in nodes if within(d[s][v], c))
                same = r[1] == want if self.tol is None else (
                    [x[:2] for x in r[1]] == [x[:2] for x in want] and all(self.eq(x[2], d[x[0]][x[1]]) for x in r[1]))
                if not same:
                    extra = [x for x in r[1] if x not in want][:3]
                    missing = [x for x in want if x not in r[1]][:3]
                    return "%s: entries not among the pairs with distance <= cut: %s; missing or wrong: %s" % (what, extra, missing), end
        elif k == "p":
            c = cv(op[1])
            if self.D is None:
                self.D = {}
            for s in nodes:
                for v in nodes:
                    if within(d[s][v], c):
                        self.D[(s, v)] = (d[s][v], ver)
        elif k in ("q", "h"):
            key = (op[1], op[2])
            D = self.D
            if D is None:
                return None, end
            if key not in D:
                if r[1] not in ("none", 0):
                    return "%s = %s but no prepare so far had this pair within its cut-off" % (what, r[1]), end
            elif D[key][1] == ver:
                if (k == "q" and not self.eq(r[1], D[key][0])) or (k == "h" and r[1] != 1):
                    return "%s = %s, expected the prepared distance %s" % (what, r[1], nc.tok(D[key][0])), end
        elif k == "x":
            pass        # the returned network becomes a member of the family, judged on its own edge list (`extracted`)
        elif k == "s":
            # the returned object is a Network: its own distances must be right (its Node objects are shared with `net`)
            ids, eids, probe = r[1], r[2], r[3]
            sub_edges = [e for e in edges if e[0] in eids]
            ds = nc.floyd_warshall(self.n, sub_edges)
            for a, row in zip(ids, probe):
                for b, got in zip(ids, row):
                    want = "none" if ds[a][b] is None else nc.tok(ds[a][b])
                    if not self.eq(got, ds[a][b]):
                        return "%s: on the returned sub-network shortest_distance(%d,%d) = %s, expected %s" % (what, a, b, got, want), end
        return None, end


def has_dump(op):
    """the call passes the caller's dictionary as output_dict: its record is followed by a dump of that dictionary"""
    return bool((op[0] in "rd" and op[4]) or (op[0] == "l" and op[3]) or (op[0] == "a" and op[2]))


def extracted_oracle(parent, rec):
    """the oracle of a network returned by `sub_network` and kept by the caller: the property is about the distances a
    network reports on ITS OWN edges, so its graph is read off the returned object (`rec` = its node ids and edge ids; the
    Edge objects are the parent's) — which edges sub_network selects is outside the statement (compared with the model)"""
    o = SessOracle(parent.n, pos=parent.pos, tol=parent.tol)
    if isinstance(rec, list) and len(rec) >= 3 and rec[0] == "s":
        o.nodes = list(rec[1])
        o.edges = [list(e) for e in parent.edges if e[0] in set(rec[2])]
        for e in o.edges:
            for v in (e[1], e[2]):
                if v not in o.nodes:
                    o.nodes.append(v)
    return o


# ---------------------------------------------------------------------------------------------------
# families: several Network objects built on ONE pool of Node objects (Model/GraphShared.lean). sub_network() returns a
# network that holds its parent's Node objects; a caller may also fill a second Network() with nodes of the first.
# case: {"kind": "fam", "n": n, "ids": "int"|"str", "ops": [[k, op], ...]}; op = a session op on member k (minus `v`),
#   ["c"] Network() (member k = number of members so far) · ["x", s, cut, obj] members.append(members[k].sub_network(s, cut))
#   ["W", eid, w] members[k].getEdge(eid).weight = w (k = a member holding the edge; as the library is, an extract holds its parent's
#   Edge objects, so every member holding the edge sees the new weight — the oracle does not rely on that). Edge ids are unique in a family.
# ---------------------------------------------------------------------------------------------------
def fam_members(case):
    """replays the generator's view of a family: per member its edges and known nodes (an extract's content is predicted
    with Floyd-Warshall on its parent); None when an op addresses a member that does not exist (yet)"""
    n = case["n"]
    mem = []
    for k, op in case["ops"]:
        if op[0] == "c":
            if k != len(mem):
                return None
            mem.append({"nodes": [], "edges": [], "ops": []})
            continue
        if not 0 <= k < len(mem):
            return None
        M = mem[k]
        if op[0] == "W":
            if not any(e[0] == op[1] for e in M["edges"]):
                return None
            for X in mem:
                for e in X["edges"]:
                    if e[0] == op[1]:
                        e[3] = op[2]
            continue
        if op[0] == "x":
            d = nc.floyd_warshall(n, M["edges"])
            c = cutval(op[2] if op[2] == "none" else nc.tok(nc.num(op[2])))
            keep = [e for e in M["edges"] if op[1] in M["nodes"] and within(d[op[1]][e[1]], c) and within(d[op[1]][e[2]], c)]
            nodes = []
            for e in keep:
                for v in (e[1], e[2]):
                    if v not in nodes:
                        nodes.append(v)
            M["ops"].append(["s"] + op[1:])
            mem.append({"nodes": nodes, "edges": [list(e) for e in keep], "ops": [["e"] + list(e) for e in keep]})
            continue
        M["ops"].append(op)
        if op[0] == "n" and op[1] not in M["nodes"]:
            M["nodes"].append(op[1])
        if op[0] == "e":
            M["edges"].append(op[1:])
            for v in (op[2], op[3]):
                if v not in M["nodes"]:
                    M["nodes"].append(v)
    return mem


def fam_valid(case):
    """members are created before they are used; each member's calls form a valid session (known nodes, fresh edge ids)"""
    mem = fam_members(case)
    eids = [op[1] for _, op in case["ops"] if op[0] == "e"]
    return mem is not None and len(eids) == len(set(eids)) and all(sess_valid({"n": case["n"], "ops": M["ops"]}) for M in mem)


def random_family(rng):
    """a network, extracts of it (and of extracts), sometimes a second Network() filled with the same Node objects; searches
    of every form on all of them interleaved, edges added to any of them along the way"""
    n = rng.randint(3, 8)
    ops = [[0, ["c"]]]
    eid = [0]
    case = {"kind": "fam", "n": n, "ids": rng.choice(["int", "int", "str"]), "ops": ops}
    cut = lambda: rng.choice(SESS_CUTS)
    xcut = lambda: rng.choice([0, 1, 1, 2, 2, 3, "3/2", 5, "none"])
    obj = lambda: rng.choice([0, 0, 0, 1, 2])
    wgt = lambda: rng.choice([0, 1, 1, 1, 1, 2, 3, "1/2"])
    def edge(k, a, b):
        ops.append([k, ["e", eid[0], a, b, wgt(), rng.choice([-1, 0, 0, 0, 0, 1])]])
        eid[0] += 1
    # the first network: a chain, a ring or a random skeleton, so that a cut-off extract is a proper part of it
    perm = list(range(n)); rng.shuffle(perm)
    style = rng.random()
    for i in range(1, n):
        edge(0, perm[i - 1] if style < 0.6 else perm[rng.randrange(i)], perm[i])
    for _ in range(rng.randint(0, 3)):
        edge(0, rng.randrange(n), rng.randrange(n))
    prep_heavy = rng.random() < 0.2       # a fifth of the families work mostly with prepared tables (DISTANCES of every member)
    for step in range(rng.randint(6, 30)):
        mem = fam_members(case)
        live = [k for k, M in enumerate(mem) if M["nodes"]]
        r = rng.random()
        if prep_heavy and live and rng.random() < 0.5:
            k = rng.choice(live)
            if rng.random() < 0.3 or not any(o[0] == "p" for o in mem[k]["ops"]):
                ops.append([k, ["p", cut()]])
            else:
                ops.append([k, [rng.choice(["q", "q", "h"]), rng.choice(mem[k]["nodes"]), rng.choice(mem[k]["nodes"]), obj()]])
            continue
        if r < 0.16 and len(mem) < 5 and live:
            k = rng.choice(live)
            ops.append([k, ["x", rng.choice(mem[k]["nodes"]), xcut(), obj()]])
            continue
        if r < 0.19 and len(mem) < 5:
            ops.append([len(mem), ["c"]])
            a, b = rng.randrange(n), rng.randrange(n)
            edge(len(mem), a, b)
            continue
        k = rng.randrange(len(mem)) if rng.random() < 0.3 else (rng.choice(live) if live else 0)
        nodes = mem[k]["nodes"]
        if mem[k]["edges"] and rng.random() < 0.07:
            ops.append([k, ["W", rng.choice(mem[k]["edges"])[0], wgt()]])
            continue
        if not nodes or r < 0.27:
            a = rng.choice(nodes) if nodes and rng.random() < 0.6 else rng.randrange(n)
            edge(k, a, rng.randrange(n))
        elif r < 0.30:
            ops.append([k, ["n", rng.randrange(n)]])
        elif r < 0.62:
            ops.append([k, ["d", rng.choice(nodes), rng.choice(nodes), cut(), rng.choice([0, 0, 0, 1]), obj()]])
        elif r < 0.70:
            ops.append([k, ["l", rng.choice(nodes), cut(), rng.choice([0, 0, 1]), obj()]])
        elif r < 0.80:
            ops.append([k, ["r", rng.choice(nodes), rng.choice(nodes + [None, None]), cut(), rng.choice([0, 0, 1]), obj()]])
        elif r < 0.86:
            ops.append([k, ["a", cut(), rng.choice([0, 0, 1])]])
        elif r < 0.92:
            ops.append([k, ["p", cut()]])
        elif r < 0.98 and any(o[0] == "p" for o in mem[k]["ops"]):
            ops.append([k, [rng.choice(["q", "q", "h"]), rng.choice(nodes), rng.choice(nodes), obj()]])
        else:
            ops.append([k, ["s", rng.choice(nodes), xcut(), obj()]])
    return case


def enum_families(tier):
    """exhaustive small scope of the shared-Node situation: a 3-node path (network A), B = A.sub_network(s0, c0) kept, then every
    sequence of three searches in the pattern A B A and B A B, each search being any list-form or pair-form call on nodes the
    network holds. quick: the two-way unit path; thorough: also the one-way path and a path with a zero-weight edge."""
    graphs = [[[0, 0, 1, 1, 0], [1, 1, 2, 1, 0]]]
    if tier == "thorough":
        graphs += [[[0, 0, 1, 1, 1], [1, 1, 2, 1, 1]], [[0, 0, 1, 0, 0], [1, 2, 1, 2, -1]]]
    def calls(nodes):
        return [["l", s, "none", 0, 0] for s in nodes] + [["d", s, t, "none", 0, 0] for s in nodes for t in nodes if s != t]
    out = []
    for g in graphs:
        head = [[0, ["c"]]] + [[0, ["e"] + e] for e in g]
        for s0 in range(3):
            for c0 in (0, 1, "none"):
                pre = head + [[0, ["x", s0, c0, 0]]]
                mem = fam_members({"n": 3, "ops": pre})
                ca, cb = calls([0, 1, 2]), calls(sorted(mem[1]["nodes"]))
                for (k1, k2, k3, c1, c2, c3) in ((0, 1, 0, ca, cb, ca), (1, 0, 1, cb, ca, cb)):
                    for a in c1:
                        for b in c2:
                            for c in c3:
                                out.append({"kind": "fam", "n": 3, "ids": "int", "ex": 1, "ops": pre + [[k1, a], [k2, b], [k3, c]]})
    return out


class SessRunner:
    """one real `Network` object and what the caller holds (the Node objects handed in, a dictionary passed as
    output_dict); `call(op)` performs one op of the session forms above and returns its result record(s)"""

    def __init__(self, mods, strs=False, pos=None, net=None, mine=None):
        self.mods = mods
        Network = mods[0]
        self.net = Network() if net is None else net      # `net`: a Network the library returned (sub_network)
        self.mine = {} if mine is None else mine          # the Node objects handed to addNode / addEdge (`mine` given: a pool shared with other networks)
        self.ud = {}            # the caller's dictionary
        self.pos = pos          # node id -> [x, y] (default: (v, 0))
        self.lab = (lambda v: None if v is None else "n%d" % v) if strs else (lambda v: v)
        self.unlab = (lambda x: int(x[1:])) if strs else (lambda x: x)

    def coords(self, v, dy=0):
        ENUCoords = self.mods[5]
        if self.pos is None:
            return ENUCoords(v, dy, 0)
        p = self.pos[v]
        return ENUCoords(nc.pynum(p[0]), nc.pynum(p[1]) + dy, nc.pynum(p[2]) if len(p) > 2 else 0)

    def node(self, v):
        if v not in self.mine:
            self.mine[v] = self.mods[1](self.lab(v), self.coords(v))
        return self.mine[v]

    def arg(self, v, obj):
        if v is None or obj == 0:
            return self.lab(v)
        # 2: a fresh Node object with the same id (its own coordinates are never looked at: ids are)
        return self.net.NODES[self.lab(v)] if obj == 1 else self.mods[1](self.lab(v), self.coords(v, 1))

    def call(self, op):
        Network, Node, Edge, Track, Obs, ENUCoords, ObsTime = self.mods
        net, ud, arg, unlab = self.net, self.ud, self.arg, self.unlab
        ckw = lambda c: {} if c == "none" else {"cut": nc.pynum(c)}
        k = op[0]
        if k in "rdlsx" and any(v is not None and self.lab(v) not in net.NODES for v in ([op[1], op[2]] if k in "rd" else [op[1]])):
            # outside the domain (a node this network does not hold — possible only on a network the library built,
            # whose node set the generator predicted): not called; the model answers `err` there too
            r = "err"
        elif k == "n":
            net.addNode(self.node(op[1])); r = "ok"
        elif k == "e":
            e = Edge(op[1], Track())
            e.orientation = op[5]
            e.weight = nc.pynum(op[4])
            net.addEdge(e, self.node(op[2]), self.node(op[3])); r = "ok"
        elif k == "m":
            net.setRoutingMethod(op[1]); r = "ok"
        elif k == "w":
            net.setAStarWeight(nc.pynum(op[1])); r = "ok"
        elif k == "r":
            net.run_routing_forward(arg(op[1], op[5]), arg(op[2], op[5]), output_dict=ud if op[4] else None, **ckw(op[3]))
            ns = [net.NODES[i] for i in net.getNodesId()]
            r = ["f", [dtok(x.poids) for x in ns], [1 if x.visite else 0 for x in ns]]
        elif k == "d":
            r = ["v", dtok(net.shortest_distance(arg(op[1], op[5]), arg(op[2], op[5]), output_dict=ud if op[4] else None, **ckw(op[3])))]
        elif k == "l":
            r = ["l", [dtok(x) for x in net.shortest_distance(arg(op[1], op[4]), output_dict=ud if op[3] else None, **ckw(op[2]))]]
        elif k == "a":
            tb = net.all_shortest_distances(output_dict=ud if op[2] else None, **ckw(op[1]))
            r = ["t", table_tok(tb, unlab)]
        elif k == "p":
            net.prepare(verbose=False, **ckw(op[1])); r = "ok"
        elif k == "q":
            r = ["v", dtok(net.prepared_shortest_distance(arg(op[1], op[3]), arg(op[2], op[3])))]
        elif k == "h":
            r = ["b", 1 if net.has_prepared_shortest_distance(arg(op[1], op[3]), arg(op[2], op[3])) else 0]
        elif k == "v":
            import tempfile, os
            fd, path = tempfile.mkstemp(suffix=".npy")
            os.close(fd)
            try:
                net.save_prep(path)
                net.DISTANCES = None
                net.load_prep(path)
            finally:
                os.remove(path)
            r = "ok"
        elif k == "s":
            sub = net.sub_network(arg(op[1], op[3]), 1e300 if op[2] == "none" else nc.pynum(op[2]), verbose=False)
            ids = sub.getNodesId()
            # searches on the returned network (it shares the Node objects with `net`), then `net` goes on
            probe = [[dtok(sub.shortest_distance(a, b)) for b in ids] for a in ids]
            r = ["s", [unlab(x) for x in ids], list(sub.getEdgesId()), probe]
        elif k == "x":
            # sub_network whose result is KEPT by the caller (it becomes a member of the family: see impl_fam)
            self.extracted = net.sub_network(arg(op[1], op[3]), 1e300 if op[2] == "none" else nc.pynum(op[2]), verbose=False)
            r = ["s", [unlab(x) for x in self.extracted.getNodesId()], list(self.extracted.getEdgesId())]
        else:
            raise ValueError("unknown op %r" % (op,))
        out = [r]
        if (k in "rd" and op[4]) or (k == "l" and op[3]) or (k == "a" and op[2]):
            out.append(["t", table_tok(ud, unlab)])
        return out


class P(Prop):
    id = "C06"
    design_ref = "DESIGN.md section 5, C06; appendix A.2"
    M = "TracklibVerif.Props.C06"
    theorems = [
        (M, "TV.C06.certificate_sound", "any labelling satisfying the invariants with nothing left to pop is the distance function (labels = minimum over walks; unlabelled iff unreachable)"),
        (M, "TV.C06.forward_invariant", "the loop invariants of run_routing_forward (appendix A.2) are preserved by one iteration (pop the minimum, settle, relax NEXT_EDGES)"),
        (M, "TV.C06.forward_correct", "after run_routing_forward(s) every label is the minimum weight over permitted walks; unlabelled (-1) iff no walk"),
        (M, "TV.C06.shortest_distance_correct", "shortest_distance(s,t) (run stopped when t is popped) = the true distance; sentinel iff t unreachable"),
        (M, "TV.C06.shortest_distance_cut", "shortest_distance(s,t,cut) = the true distance whenever it is <= cut; sentinel whenever t is unreachable"),
        (M, "TV.C06.shortest_distance_list_correct", "shortest_distance(s) list form: per node in insertion order the true distance, or none (1e300) iff unreachable"),
        (M, "TV.C06.cutoff_entries", "output_dict entries of run_routing_forward(s,cut) = exactly the nodes with true distance <= cut, with that distance"),
        (M, "TV.C06.cutoff_table", "all_shortest_distances(cut) maps (s,v) to y iff s is a node, y is the true distance s->v and y <= cut"),
        (M, "TV.C06.prepared_correct", "prepare(cut) + prepared_shortest_distance(s,v): stored value = true distance exactly for pairs within the cut-off"),
        (M, "TV.C06.prepared_twice_correct", "a second prepare(cut2) on the same DISTANCES: stored exactly for pairs within cut1 or cut2, always the true distance"),
        (M, "TV.C06.pop_smallest_min", "priority_dict.pop_smallest returns the key with the smallest (priority, key) among the current dict entries despite stale heap tuples, removes only it, keeps the heap invariant"),
        (M, "TV.C06.priority_dict_setitem", "priority_dict.__setitem__ (push or rebuild) sets that entry only and keeps the heap invariant; the constructor establishes it"),
        (M, "TV.C06.forward_uses_priority_dict", "run_routing_forward written with the explicit priority_dict equals the loop with the abstract extract-min, so every theorem holds for it"),
        (M, "TV.C06.shortest_distance_cut_sound", "shortest_distance(s,t,cut): whatever is returned is the weight of a permitted walk; the sentinel is returned only when no walk within the cut-off exists"),
        (M, "TV.C06.next_edges_exactly_permitted_arcs", "orientation semantics: NEXT_EDGES[u] read with the 'other end' rule = exactly the permitted arcs out of u (>= 0 source->target, <= 0 target->source)"),
        (M, "TV.C06.output_dict_entries_sound", "every output_dict entry of any search (any target, any cut-off) is the true distance of its key, within the cut-off; entries = visited nodes"),
        (M, "TV.C06.dictionary_accumulates", "all_shortest_distances / prepare on a dictionary with earlier entries: keys within the cut-off get the true distance, all other keys keep their value (any number of calls)"),
        (M, "TV.C06.sub_network_edges", "sub_network(s, cut, TOPOLOGIC) keeps exactly the edges whose two ends are within the cut-off of s"),
        (M, "TV.C06.search_starts_clean", "__resetFlags + source.poids = 0 yields the initial labelling whatever flags earlier calls left on the nodes"),
        (M, "TV.C06.session_invariant", "after any sequence of addNode / addEdge / searches / all_shortest_distances / prepare / sub_network calls the object satisfies the session invariant"),
        (M, "TV.C06.session_answers_pure", "in any state reached by any call sequence every call answers with the pure function of the current graph (no trace of earlier searches)"),
        (M, "TV.C06.session_distance_correct", "in any state reached by any call sequence shortest_distance(s,t[,cut]) = the minimum over permitted walks of the current graph; sentinel iff no walk"),
        (M, "TV.C06.session_tables_sound", "DISTANCES and a caller's output_dict hold only true distances through every call that does not add an edge"),
        (M, "TV.C06.shared_nodes_search_pure", "run_routing_forward as coded (reset of the own nodes, explicit priority_dict) on Node objects carrying ANY flags — left by this network or by another network holding the same objects: output_dict entries and the flags of its own nodes are those of the pure search; foreign nodes are untouched"),
        (M, "TV.C06.shared_nodes_call_as_private", "any call on a network whose Node objects carry any flags answers as the same network with Node objects of its own (the session model), same object afterwards up to the flags"),
        (M, "TV.C06.family_answers_as_private", "any program over networks built on one pool of Node objects (Network(), addEdge, searches, tables, prepare, sub_network results kept and used, extracts of extracts) returns call by call what it returns with private Node objects"),
        (M, "TV.C06.family_distance_correct", "in any state of such a family, on every member shortest_distance(s,t[,cut]) = the minimum over permitted walks of that member's own graph, sentinel iff none, whatever the other members searched in between"),
        (M, "TV.C06.tuple_order_ok", "Python's order on (priority, key) tuples is a strict weak order (what heapq needs)"),
        (M, "TV.C06.heapq_heappush", "heapq.heappush (append + _siftdown) keeps the heap invariant and adds exactly the item (permutation)"),
        (M, "TV.C06.heapq_heappop_min", "heapq.heappop (_siftup: bubble to a leaf, then _siftdown) returns a minimum of the multiset, leaves the other items, keeps the heap invariant; fails iff empty"),
        (M, "TV.C06.heapq_heapify", "heapq.heapify turns any list into a heap with the same items"),
        (M, "TV.C06.routing_settings_per_object", "several Network objects, setRoutingMethod / setAStarWeight / calls interleaved in any order: each object ends in the state and returns the answers of the calls addressed to it alone (the settings are per instance)"),
        (M, "TV.C06.world_dijkstra_distance_correct", "any program over several Network objects (creations, edges, searches, prepare, sub_network, setRoutingMethod / setAStarWeight on any of them, interleaved): on an object whose own method is Dijkstra shortest_distance(s,t[,cut]) = the minimum over permitted walks of its current graph, sentinel iff none"),
        (M, "TV.C06.own_setting_dijkstra_is_session", "an object whose own routing_mode is not 1 (the default) answers every call as the session model, whatever its astar_wgt; the setters change their own object's two attributes only"),
        (M, "TV.C06.no_target_no_heuristic", "in A* mode every call other than a search with a target (list form, all_shortest_distances, prepare, sub_network) is the Dijkstra call: the heuristic is never computed"),
        (M, "TV.C06.astar_zero_heuristic_is_dijkstra", "A* with a heuristic that is 0 everywhere (astar_wgt = 0, or all nodes at the target's place) runs as Dijkstra: shortest_distance(s,t) = the true minimum, sentinel iff unreachable"),
        (M, "TV.C06.astar_any_heuristic_bounds", "A* (label g, queue priority g + h) with ANY heuristic, any cut-off: a reported value is the weight of a permitted walk (never below the minimum); without a cut-off the sentinel iff no walk exists — what the oracle asks when the heuristic is not consistent"),
        (M, "TV.C06.astar_exact", "A* with a consistent heuristic: shortest_distance(s,t) = the minimum over permitted walks, sentinel iff none"),
        (M, "TV.C06.astar_cut", "A* with a consistent heuristic (smallest at the target), with a cut-off: shortest_distance(s,t,cut) = the true distance whenever it is <= cut; sentinel whenever t is unreachable"),
        (M, "TV.C06.astar_cut_sound", "A* with a consistent heuristic, with a cut-off: whatever is returned is the weight of a permitted walk; the sentinel only when no walk within the cut-off exists"),
        (M, "TV.C06.astar_output_dict_entries_sound", "A* with a consistent heuristic, any target, any cut-off: every output_dict entry is the true distance of its key within the cut-off; entries = visited nodes; every visited node's label is its true distance"),
        (M, "TV.C06.consistent_of_scaled_metric", "edges weighing at least astar_wgt x the distance between their ends + the triangle inequality make the heuristic consistent (the configuration the oracle holds A* to the statement for)"),
        (M, "TV.C06.world_astar_distance_correct", "any program over several Network objects: on an object whose own method is A* at that moment and whose heuristic towards t is consistent on its current graph, shortest_distance(s,t[,cut]) = the minimum over permitted walks, sentinel iff none; with a cut-off the true distance whenever within it"),
        (M, "TV.C06.astar_heuristic_consistent", "Node.distanceTo is the Euclidean distance (triangle inequality proved, any sqrt that is a square root on an ordered field): with 0 <= astar_wgt and every permitted arc weighing at least astar_wgt x the straight-line distance of its ends (the oracle's predicate) the heuristic towards any target is consistent and smallest at the target"),
        (M, "TV.C06.world_astar_metric_distance_correct", "the property for A* at full strength, hypotheses on the configuration only: in any program, on an A* object with 0 <= astar_wgt and arcs >= astar_wgt x straight-line length, shortest_distance(s,t[,cut]) = the minimum over permitted walks, sentinel iff none, true distance whenever within the cut-off"),
        (M, "TV.C06.world_astar_call_is_pure", "in any state of such a program a search with a target on an A* object answers, and fills output_dict, as the pure A* search on its current graph (flags of earlier searches are reset)"),
        (M, "TV.C06.astar_old_inflates", "what fix c78e3ab repaired: on the road 0-10-1-10-2 (consistent heuristic) the PRE-FIX loop (HOld: poids = g + h) reported 30; the model of the present code, Dijkstra and the true distance are 20, also under the cut-off 20"),
    ]
    partial = []
    open_statements = ["float weights: the theorems need only a linear order, a + 0 = a, 0 <= w -> a <= a + w and a <= b -> a + w <= b + w (no associativity: code and Walk both add from the source outwards), "
                       "which IEEE round-to-nearest addition has on non-NaN doubles; they are stated with Mathlib's ordered-monoid classes, so the instance for IEEE doubles is not constructed in Lean "
                       "(the float stream compares with exact rational distances at 1e-9 relative)",
                       "save_prep / load_prep are modelled as 'the dictionary read back is the dictionary written' (numpy's pickle is exercised by the sessions, not modelled); "
                       "sub_network in GEOMETRIC mode is outside the model; in the family model (shared Node objects) every member routes with Dijkstra "
                       "(setRoutingMethod on a member of a family is not modelled: the world model has the settings, with private Node objects)",
                       "A*: exactness is proved in exact arithmetic (ordered cancellative monoid); with float weights the g + h comparisons are subject to rounding (float world stream: 1e-9 relative). "
                       "sqrt is a parameter of the model, assumed to be a square root on the non-negative elements of an ordered field (IsSqrt; the Euclidean triangle inequality is proved from that); A* with a heuristic that is NOT consistent is outside the statement "
                       "(documented as approximate): only astar_any_heuristic_bounds is proved and judged for it"]
    modelled = ("Network.__init__ (routing_mode, astar_wgt as instance attributes), setRoutingMethod, setAStarWeight, the A* branch of run_routing_forward as it is after fix c78e3ab "
                "(heuristic = astar_wgt * fils.distanceTo(NODES[target]) when routing_mode == 1 and a target is given, else its initial 0; fils.poids = pere.poids + e.weight — the label is g, so the stop test "
                "`pere.poids > cut` and output_dict see g —; fil[fils] = fils.poids + heuristic — the queue pops by (g + h, node id)), "
                "Node.distanceTo / ENUCoords.distanceTo / norm, several Network objects alive at once (Model/GraphAStar.lean, which also keeps the pre-fix loop `forwardHOld` as the documented defective variant); "
                "Network.addNode / addEdge (NEXT_EDGES by orientation), __resetFlags, run_routing_forward in Dijkstra mode (pop by (poids, node id), stop tests "
                "before recording, 'other end' rule, visite guard, strict < relaxation, output_dict), shortest_distance (pair and list form, ids or Node objects, with output_dict), "
                "all_shortest_distances (fresh or caller's dictionary), prepare, prepared_shortest_distance, has_prepared_shortest_distance, sub_network (TOPOLOGIC) — "
                "as pure functions (Model/Graph.lean) and as a state machine over call sequences on one object (Model/GraphSession.lean); "
                "several Network objects holding the SAME Node objects — what sub_network returns (__sub_network_routing: sub_net.addEdge(e, e.source, e.target)) and what a caller "
                "obtains by filling two networks from one pool of nodes: one common store of poids / visite / antecedent flags, __resetFlags over the calling network's own NODES only, "
                "the loop with the explicit priority_dict on whatever the store holds; Edge.weight as a live attribute of Edge objects shared by a network and its extracts "
                "(Model/GraphShared.lean: routeOnPD, execSh, Fam / execFam with setWeight; the driver's `fam` command runs exactly that); "
                "priority_dict (tracklib/core/utils.py): constructor, __setitem__ with the rebuild threshold, pop_smallest with lazy deletion, len (Model/PDict.lean) "
                "on top of heapq's heapify / heappush / heappop with _siftdown / _siftup on the list (Model/Heapq.lean); the forward loop over the priority_dict as Model/GraphPD.lean "
                "(proved equal to the abstract loop)")
    trusted = ["CPython's _heapq C accelerator is taken to run the algorithm of Lib/heapq.py (checked position by position on random operation sequences by the hq and pq streams); "
               "Node.__lt__ compares ids, so (poids, Node) tuples are ordered as (priority, id)",
               "math.sqrt on the squared distances of the exact world stream (rational squares: nodes on a line or on the corners of 3k x 4k rectangles) is exact; "
               "int ** 2 / float ** 2 of the coordinates used is exact (float stream: coordinates are multiples of 1/16 below 8, so libm's pow(x, 2.0) has an exactly representable result)"]
    rule = ("every multigraph on <= 3 nodes with <= 2 edges as ordered edge lists (quick) and with 3 edges as multisets in shuffled order (thorough), "
            "weights {0,1,2}, orientations {-1,0,1}, self-loops and parallel edges included, node insertion order shuffled; random graphs to 12 nodes / 40 edges "
            "with integer and dyadic weights. Per graph: every ordered pair, cut-offs below/equal/above each distinct distance (a sample of them for the "
            "large random graphs), all API forms. Random graphs with float weights (model instantiated at Float, oracle in exact rationals, 1e-9 relative). "
            "Random set/pop sequences on priority_dict alone (ties, lowered and raised priorities, pops on empty), comparing results and the _heap list position by position; "
            "random heapify/heappush/heappop sequences on lists of (priority, key) tuples with ties against Python's heapq, list compared position by position. "
            "Sessions: random sequences of 4-22 calls on ONE Network object with <= 6 nodes (addNode, addEdge interleaved with shortest_distance in pair/list form, run_routing_forward with "
            "the flags read back, all_shortest_distances, prepare/prepared/has_prepared, save_prep+load_prep through a temporary file, sub_network followed by searches on the returned network that shares the Node objects; "
            "cut-offs none/0/.5/1/2/3/5; ids, the network's Node objects or fresh equal Node objects as arguments; a caller's dictionary passed repeatedly as output_dict), every answer "
            "checked against Floyd-Warshall on the graph as built so far. "
            "Several (2-3) small networks alive at the same time with their calls interleaved. "
            "Families: 1-5 Network objects on ONE pool of 3-8 Node objects — a first network (chain / tree skeleton plus extra edges, weights 0, 1/2, 1, 2, 3), networks returned by "
            "sub_network(s, cut in 0..5 / none) that are KEPT and used like any other network (extracts of extracts too), further Network() objects filled with nodes of the pool; 6-30 calls "
            "interleaved over all members (shortest_distance pair / list form, run_routing_forward with the flags read back, all_shortest_distances, prepare / prepared, sub_network, "
            "addNode / addEdge on any member, edge.weight = w on an Edge object already in use — seen by every member holding it). Every member's answers are judged against Floyd-Warshall on its OWN edge list as built so far (an extract: the edges the returned object "
            "holds); non-trivial = a distance query on a member after another member has searched (stale foreign labels on shared nodes). "
            "Worlds: 2-3 Network objects (2-5 nodes each, placed on a line, on the corners of a 3k x 4k rectangle, or all at one point, so that every distance is rational), created at "
            "random moments, 8-34 calls interleaved: the session calls above plus setRoutingMethod(0/1) and setAStarWeight(0, 1/2, 1, 3/2, 2) on individual objects; edge weights "
            "either metric (straight-line distance x 1, 3/2, 2, 3) or arbitrary. Each object's answers are judged with ITS OWN settings: Dijkstra -> the statement; A* without a target -> the "
            "statement; A* with a target and a consistent heuristic (0 <= astar_wgt, every weight >= astar_wgt x straight-line length; includes astar_wgt = 0) -> the statement "
            "for the value, for every dictionary entry written and for the label of every node run_routing_forward marked visited (the class of the former finding astar-label-accumulates-heuristic, "
            "repaired by c78e3ab: always generated, judged like any other input; its witnesses are corpus cases); "
            "A* with a target otherwise (documented as approximate) -> sentinel iff unreachable when there is no cut-off, and never below the minimum. "
            "Float worlds: the same with nodes anywhere on a 1/16 lattice in the plane or in space (irrational distances, sqrt = IEEE sqrt), float weights (metric x 1..3 or arbitrary, zeros), "
            "float astar_wgt and cut-offs; model instantiated at Float and compared bit for bit, oracle in exact rationals at 1e-9 relative. "
            "Every case is evaluated on freshly executed definitions of network.py / utils.py "
            "(state kept at module, class or default-argument level cannot leak from one case to the next: a failing case fails in a fresh process). "
            "non-trivial = at least one ordered pair s != t is joined by a walk (graphs) / at least one pop (priority_dict, heapq) / a distance query after an edge was added (sessions)")

    def setup(self):
        self.mods = nc.import_mods()

    def classify(self, case, impl_out, msg):
        return None     # no listed finding: the class astar-label-accumulates-heuristic was repaired by c78e3ab (corpus/C06/world-astar-consistent-inflated.json is its witness)

    def fresh(self):
        """Hermetic evaluation: every case runs on freshly executed definitions of the two anchored modules
        (tracklib/core/utils.py, tracklib/core/network.py), so that state kept at module / class / default-argument
        level by an earlier case cannot reach this one. A failing case therefore fails in a fresh process too
        (`--replay`); state carried from one call or one Network object to the next is exercised INSIDE a case
        (the sessions, the several cut-offs / prepares of a graph case, the `multi` cases with several networks)."""
        import tracklib.core as C
        import tracklib.core.utils as U
        import tracklib.core.network as N
        if getattr(self, "_code", None) is None:
            # the sources are read and compiled once per process; executing them again re-creates every class and function
            self._code = [compile(open(m.__file__).read(), m.__file__, "exec") for m in (U, N)]
        exec(self._code[0], U.__dict__)
        C.priority_dict = U.priority_dict
        exec(self._code[1], N.__dict__)
        self.mods = nc.import_mods()

    # ---------------------------------------------------------------- generators
    def exhaustive_scopes(self, tier):
        s = ["all edge lists (ordered) of length 0..2 on 1..3 nodes over {src,tgt} x weights {0,1,2} x orientations {-1,0,1} (8067 graphs) x all ordered pairs x cut-offs {d-1/2, d, d+1/2 : d a distance} and none"]
        if tier == "thorough":
            s.append("all multisets of 3 edges on 1..3 nodes over the same alphabet (100482 multigraphs), edge and node insertion order shuffled")
        s.append("families (networks sharing their Node objects): the two-way unit path 0-1-2%s as network A, B = A.sub_network(s0, c0) kept, for every s0 in {0,1,2} and c0 in {0, 1, none}; "
                 "every sequence of three searches in the patterns A B A and B A B, each any list-form or pair-form shortest_distance on nodes the network holds (%d cases)"
                 % (("", 6768) if tier == "quick" else (", the one-way path 0->1->2 and a path with a zero-weight and a reverse-oriented edge", len(enum_families("thorough")))))
        s.append("heapq: all lists of 0..%d tuples over priorities {0,1} x keys {0,1} (%d lists): heapify, then heappop until IndexError, the list compared after every step"
                 % ((5, 1365) if tier == "quick" else (6, 5461)))
        return s

    def cases(self, rng, tier):
        out = []
        for n in (1, 2, 3):
            for k in (0, 1, 2):
                for e in nc.enum_graphs(n, k, ordered=True):
                    order = list(range(n)); rng.shuffle(order)
                    out.append({"kind": "ex", "n": n, "order": order, "e": list(e)})
        if tier == "thorough":
            for n in (1, 2, 3):
                for e in nc.enum_graphs(n, 3, ordered=False):
                    e = list(e); rng.shuffle(e)
                    order = list(range(n)); rng.shuffle(order)
                    out.append({"kind": "ex3", "n": n, "order": order, "e": e})
        nsmall, nbig = (1500, 500) if tier == "quick" else (20000, 6000)
        for _ in range(nsmall):
            out.append(dict(nc.random_graph(rng, small=True), kind="rnd-small"))
        for _ in range(nbig):
            g = nc.random_graph(rng, nmax=rng.choice([5, 8, 12]), emax=rng.choice([8, 20, 40]))
            dist = nc.floyd_warshall(g["n"], g["edges"])
            allc = nc.cuts_for(dist)
            g["cuts"] = ["none"] + sorted({nc.tok(c) for c in rng.sample(allc, min(3, len(allc)))}, key=Fraction)
            out.append(dict(g, kind="rnd"))
        # float weights: the same model instantiated at Float, oracle in exact rational arithmetic with a tolerance
        for _ in range(400 if tier == "quick" else 6000):
            g = nc.random_graph(rng, nmax=rng.choice([4, 8, 12]), emax=rng.choice([6, 20, 40]))
            scale = rng.choice([1.0, 1e-3, 1e3])
            for e in g["edges"]:
                e[3] = 0.0 if rng.random() < 0.1 else rng.uniform(0, 10) * scale
            ds = sorted({x for row in nc.floyd_warshall(g["n"], g["edges"]) for x in row if x is not None})
            mids = [float((a + b) / 2) for a, b in zip(ds, ds[1:]) if b - a > Fraction(1, 10**6) * max(1, b)]
            g["cuts"] = ["none"] + sorted(rng.sample(mids, min(2, len(mids))))
            out.append(dict(g, kind="rnd-float"))
        # priority_dict on its own: random set / pop sequences with ties, stale entries (lowered and raised priorities), pops on empty
        for _ in range(1500 if tier == "quick" else 20000):
            nk = rng.randint(1, 6)
            init = [[k, rng.randint(0, 3)] for k in rng.sample(range(nk), rng.randint(0, nk))]
            ops = []
            for _ in range(rng.randint(1, 25)):
                if rng.random() < 0.4:
                    ops.append(["p"])
                else:
                    p = rng.choice([0, 1, 1, 2, 3, "1/2", "3/2"])
                    ops.append(["s", rng.randrange(nk), p])
            out.append({"kind": "pq", "init": init, "ops": ops})
        # heapq, exhaustively: every list of up to 5 (6 in thorough) tuples over {0,1} x {0,1}: heapify, then pop until empty (+ one more)
        import itertools
        for ln in range(0, 6 if tier == "quick" else 7):
            for tp in itertools.product(range(4), repeat=ln):
                out.append({"kind": "hq", "init": [[c // 2, c % 2] for c in tp], "ops": [["h"]] + [["o"]] * (ln + 1), "ex": 1})
        # heapq on its own: the list after every operation, position by position
        for _ in range(800 if tier == "quick" else 12000):
            nk = rng.randint(1, 5)
            tup = lambda: [rng.choice([0, 1, 1, 2, 3, "1/2", "3/2"]), rng.randrange(nk)]
            init = [tup() for _ in range(rng.randint(0, 9))]
            ops = [["h"]] if rng.random() < 0.7 else []
            for _ in range(rng.randint(1, 20)):
                r = rng.random()
                ops.append(["o"] if r < 0.4 else ["h"] if r < 0.47 else ["u"] + tup())
            out.append({"kind": "hq", "init": init, "ops": ops})
        # one Network object, a sequence of calls
        for _ in range(1200 if tier == "quick" else 20000):
            out.append(random_session(rng))
        # two or three Network objects alive at the same time, their calls interleaved
        for _ in range(300 if tier == "quick" else 5000):
            subs = []
            for _ in range(rng.choice([2, 2, 3])):
                g = dict(nc.random_graph(rng, small=True), kind="rnd-small")
                allc = nc.cuts_for(nc.floyd_warshall(g["n"], g["edges"]))
                g["cuts"] = ["none"] + sorted({nc.tok(c) for c in rng.sample(allc, min(2, len(allc)))}, key=Fraction)
                subs.append(g)
            out.append({"kind": "multi", "subs": subs})
        # several Network objects holding the SAME Node objects (sub_network results kept and used, networks filled from one pool)
        out += enum_families(tier)
        for _ in range(1500 if tier == "quick" else 25000):
            out.append(random_family(rng))
        # several Network objects with their own routing settings (setRoutingMethod / setAStarWeight), calls interleaved
        for _ in range(1500 if tier == "quick" else 25000):
            out.append(random_world(rng))
        # the same with float coordinates / weights / cut-offs (model instantiated at Float, sqrt = IEEE sqrt)
        for _ in range(500 if tier == "quick" else 8000):
            out.append(random_world(rng, floats=True))
        return out

    def describe(self, case):
        if case["kind"] == "pq":
            return {"kind": "pq", "pops": min(10, sum(1 for o in case["ops"] if o[0] == "p"))}
        if case["kind"] == "hq":
            return {"kind": "hq", "pops": min(10, sum(1 for o in case["ops"] if o[0] == "o")), "heapify": any(o[0] == "h" for o in case["ops"])}
        if case["kind"] == "multi":
            return {"kind": "multi", "networks": len(case["subs"])}
        if case["kind"] in ("world", "fworld"):
            tg = world_regimes(case)
            return {"kind": case["kind"], "networks": sum(1 for _, o in case["ops"] if o[0] == "c"),
                    "targeted_searches": "+".join(k for k, v in sorted(tg.items()) if v) or "none"}
        if case["kind"] == "fam":
            ks = [o[0] for _, o in case["ops"]]
            # searches on a member after another member of the family has searched since this member's last search
            last, stale = {}, 0
            searched = None
            for i, (k, o) in enumerate(case["ops"]):
                if o[0] in "rdlapsx":
                    if searched is not None and searched != k and k in last:
                        stale += 1
                    last[k] = i; searched = k
            return {"kind": "fam", "members": min(5, ks.count("c") + ks.count("x")), "extracts": min(3, ks.count("x")),
                    "search_after_foreign_search": "0" if stale == 0 else "1-3" if stale <= 3 else "4+", "ids": case.get("ids", "int"),
                    "weight_changed": "W" in ks}
        if case["kind"] == "sess":
            ks = [o[0] for o in case["ops"]]
            first_q = next((i for i, k in enumerate(ks) if k not in "ne"), len(ks))
            return {"kind": "sess", "calls": "<=8" if len(ks) <= 8 else "9-16" if len(ks) <= 16 else "17+",
                    "edge_after_search": any(k == "e" for k in ks[first_q:]), "sub_network": "s" in ks,
                    "output_dict": any(o[0] in "rdl" and o[-2] == 1 or o[0] == "a" and o[2] == 1 for o in case["ops"]),
                    "node_objects": any(o[0] in "rdlqhs" and o[-1] != 0 for o in case["ops"]), "ids": case.get("ids", "int")}
        edges = nc.expand(case)
        ws = [nc.num(e[3]) for e in edges]
        pairs = [(min(e[1], e[2]), max(e[1], e[2])) for e in edges]
        return {"kind": case["kind"], "n": case["n"] if case["n"] <= 4 else "5-8" if case["n"] <= 8 else "9-12",
                "m": len(edges) if len(edges) <= 3 else "4-10" if len(edges) <= 10 else "11-40",
                "zero_weight": any(w == 0 for w in ws), "self_loop": any(e[1] == e[2] for e in edges),
                "parallel": len(set(pairs)) < len(pairs), "one_way": any(e[4] != 0 for e in edges)}

    def nontrivial(self, case):
        if case["kind"] == "pq":
            return any(o[0] == "p" for o in case["ops"])
        if case["kind"] == "hq":
            return any(o[0] == "o" for o in case["ops"])
        if case["kind"] == "multi":
            return any(self.nontrivial(sub) for sub in case["subs"])
        if case["kind"] in ("world", "fworld"):
            seen = set()
            for k, o in case["ops"]:
                if o[0] == "e":
                    seen.add(k)
                if k in seen and o[0] in "dlarps":
                    return True
            return False
        if case["kind"] == "fam":
            searched = None
            for k, o in case["ops"]:
                if o[0] in "rdlapsx":
                    if searched is not None and searched != k and o[0] in "rdlap":
                        return True     # a distance query on a network after another network of the family has searched
                    searched = k
            return False
        if case["kind"] == "sess":
            seen_edge = False
            for o in case["ops"]:
                seen_edge = seen_edge or o[0] == "e"
                if seen_edge and o[0] in "dlarps":
                    return True
            return False
        n = case["n"]
        d = nc.floyd_warshall(n, nc.expand(case))
        return any(d[s][t] is not None for s in range(n) for t in range(n) if s != t)

    # ---------------------------------------------------------------- implementation
    def impl_pq(self, case):
        """`priority_dict` on its own, for the correspondence with Model/PDict.lean (never judged by the oracle: the property
        speaks about distances). What an operation raises is part of the answer (`err` = IndexError as the model has it,
        `exc:<type>` anything else) and is compared with the model, like the internal `_heap` list."""
        from tracklib.core.utils import priority_dict
        with nc.time_limit(3):
            pd = priority_dict({k: nc.pynum(p) for k, p in case["init"]})
            res = []
            for op in case["ops"]:
                try:
                    if op[0] == "p":
                        res.append(str(pd.pop_smallest()))
                    else:
                        pd[op[1]] = nc.pynum(op[2])
                        res.append(str(len(pd)))
                except IndexError:
                    res.append("err")
                except (nc.Timeout, nc.Skipped):
                    raise
                except Exception as e:
                    res.append("exc:" + type(e).__name__)
                res[-1] += "@" + self.heap_tok(getattr(pd, "_heap", None))
        return {"res": res}

    @staticmethod
    def heap_tok(h):
        """the internal heap list, `(priority, key)` tuples position by position as Model/PDict.lean keeps it. It is an
        internal of the queue: an entry of any other shape (an implementation may keep whatever it likes there) is rendered
        opaquely — the model then disagrees (a broken correspondence), reading never raises and nothing here is judged."""
        if not isinstance(h, (list, tuple)):
            return "?"
        out = []
        for ent in h:
            try:
                v, k = ent
                out.append("%s:%d" % (nc.tok(Fraction(v)), k))
            except Exception:
                out.append("?")
        return "~".join(out) or "_"

    def impl_hq(self, case):
        import heapq
        with nc.time_limit(3):
            h = [(nc.pynum(p), k) for p, k in case["init"]]
            res = []
            for op in case["ops"]:
                if op[0] == "h":
                    heapq.heapify(h); r = "-"
                elif op[0] == "u":
                    heapq.heappush(h, (nc.pynum(op[1]), op[2])); r = "-"
                else:
                    try:
                        v, k = heapq.heappop(h)
                        r = "%s:%d" % (nc.tok(Fraction(v)), k)
                    except IndexError:
                        r = "err"
                res.append(r + "@" + self.heap_tok(h))
        return {"res": res}

    def impl_sess(self, case):
        res = []
        with nc.time_limit(10):
            run = SessRunner(self.mods, case.get("ids", "int") == "str")
            for op in case["ops"]:
                res += run.call(op)
        return {"res": res}

    def impl_world(self, case):
        """several Network objects, each created by its `c` op, calls interleaved as listed"""
        res = []
        with nc.time_limit(10):
            runs = {}
            for k, op in case["ops"]:
                if op[0] == "c":
                    runs[k] = SessRunner(self.mods, False, pos=case["nets"][k]["pos"])
                    res.append("ok")
                else:
                    res += runs[k].call(op)
        return {"res": res}

    def impl_fam(self, case):
        """several Network objects on one pool of Node objects; a network returned by sub_network is kept and used"""
        res = []
        with nc.time_limit(10):
            runs, pool = [], {}
            strs = case.get("ids", "int") == "str"
            for k, op in case["ops"]:
                if op[0] == "c":
                    runs.append(SessRunner(self.mods, strs, mine=pool))
                    res.append("ok")
                    continue
                if op[0] == "W":
                    # through the network's own accessor: `members[k].getEdge(eid).weight = w`; then what every member holding an
                    # edge of that id now carries (whether an extract shares its parent's Edge objects is the library's business)
                    if k < len(runs) and runs[k].net.hasEdge(op[1]):
                        runs[k].net.getEdge(op[1]).weight = nc.pynum(op[2])
                    res.append(["w", [[j, dtok(x.net.getEdge(op[1]).weight)] for j, x in enumerate(runs) if x.net.hasEdge(op[1])]])
                    continue
                if k >= len(runs):        # a member that does not exist (an extraction before it was not made): as the model, `err`
                    res += ["err"] + ([["t", []]] if has_dump(op) else [])
                    continue
                out = runs[k].call(op)
                res += out
                if op[0] == "x" and out[0] != "err":
                    runs.append(SessRunner(self.mods, strs, net=runs[k].extracted, mine=pool))
        return {"res": res}

    def impl_float(self, case):
        n = case["n"]
        with nc.time_limit(20):
            net = nc.build_network(self.mods, case)
            out = {"pairs": [], "lists": [], "all": []}
            for c in case["cuts"]:
                kw = {} if c == "none" else {"cut": c}
                out["pairs"].append([[float(net.shortest_distance(s, t, **kw)) for t in range(n)] for s in range(n)])
                out["lists"].append([[float(x) for x in net.shortest_distance(s, **kw)] for s in range(n)])
                out["all"].append(sorted([k[0], k[1], float(v)] for k, v in net.all_shortest_distances(**kw).items()))
        return out

    def impl(self, case):
        if case["kind"] == "hq":
            return self.impl_hq(case)
        self.fresh()
        if case["kind"] == "pq":
            return self.impl_pq(case)
        if case["kind"] == "sess":
            return self.impl_sess(case)
        if case["kind"] in ("world", "fworld"):
            return self.impl_world(case)
        if case["kind"] == "fam":
            return self.impl_fam(case)
        if case["kind"] == "rnd-float":
            return self.impl_float(case)
        if case["kind"] == "multi":
            return self.impl_multi(case)
        n = case["n"]
        edges = nc.expand(case)
        dist = nc.floyd_warshall(n, edges)          # only to choose the cut-offs
        cuts = cut_tokens(case, dist)
        with nc.time_limit(3 if n <= 4 else 20):
            net = nc.build_network(self.mods, case)
            out = {"cuts": cuts, "pairs": [], "lists": [], "all": [], "prep": []}
            for c in cuts:
                kw = {} if c == "none" else {"cut": nc.pynum(c)}
                out["pairs"].append([[vtok(net.shortest_distance(s, t, **kw)) for t in range(n)] for s in range(n)])
                out["lists"].append([[vtok(x) for x in net.shortest_distance(s, **kw)] for s in range(n)])
                tb = net.all_shortest_distances(**kw)
                out["all"].append(sorted([k[0], k[1], vtok(v)] for k, v in tb.items()))
            for (c1, c2) in prep_combos(cuts):
                net.DISTANCES = None
                net.prepare(verbose=False, **({} if c1 == "none" else {"cut": nc.pynum(c1)}))
                if c2 != "-":
                    net.prepare(verbose=False, **({} if c2 == "none" else {"cut": nc.pynum(c2)}))
                out["prep"].append([[vtok(net.prepared_shortest_distance(s, t)) for t in range(n)] for s in range(n)])
        return out

    def impl_multi(self, case):
        """several Network objects alive at the same time, their calls interleaved cut-off by cut-off"""
        subs = case["subs"]
        outs, nets, cutss = [], [], []
        with nc.time_limit(20):
            for sub in subs:
                nets.append(nc.build_network(self.mods, sub))
                cuts = cut_tokens(sub, nc.floyd_warshall(sub["n"], nc.expand(sub)))
                cutss.append(cuts)
                outs.append({"cuts": cuts, "pairs": [], "lists": [], "all": [], "prep": []})
            for ci in range(max(len(c) for c in cutss)):
                for sub, net, cuts, out in zip(subs, nets, cutss, outs):
                    if ci >= len(cuts):
                        continue
                    n, c = sub["n"], cuts[ci]
                    kw = {} if c == "none" else {"cut": nc.pynum(c)}
                    out["pairs"].append([[vtok(net.shortest_distance(s, t, **kw)) for t in range(n)] for s in range(n)])
                    out["lists"].append([[vtok(x) for x in net.shortest_distance(s, **kw)] for s in range(n)])
                    out["all"].append(sorted([k[0], k[1], vtok(v)] for k, v in net.all_shortest_distances(**kw).items()))
            combos = [prep_combos(c) for c in cutss]
            for k in range(max(len(c) for c in combos)):
                for net, cb in zip(nets, combos):        # prepare on every network first …
                    if k < len(cb):
                        c1, c2 = cb[k]
                        net.DISTANCES = None
                        net.prepare(verbose=False, **({} if c1 == "none" else {"cut": nc.pynum(c1)}))
                        if c2 != "-":
                            net.prepare(verbose=False, **({} if c2 == "none" else {"cut": nc.pynum(c2)}))
                for sub, net, cb, out in zip(subs, nets, combos, outs):     # … then read them all
                    if k < len(cb):
                        n = sub["n"]
                        out["prep"].append([[vtok(net.prepared_shortest_distance(s, t)) for t in range(n)] for s in range(n)])
        return {"subs": outs}

    # ---------------------------------------------------------------- model
    def requests(self, case):
        if case["kind"] == "multi":
            return [ln for sub in case["subs"] for ln in self.requests(sub)]
        if case["kind"] == "pq":
            init = ";".join("%d,%s" % (k, nc.tok(nc.num(p))) for k, p in case["init"]) or "_"
            ops = ";".join("p" if o[0] == "p" else "s,%d,%s" % (o[1], nc.tok(nc.num(o[2]))) for o in case["ops"]) or "_"
            return ["C06.pq %s %s" % (init, ops)]
        if case["kind"] == "hq":
            init = ";".join("%s:%d" % (nc.tok(nc.num(p)), k) for p, k in case["init"]) or "_"
            ops = ";".join(o[0] if o[0] != "u" else "u,%s,%d" % (nc.tok(nc.num(o[1])), o[2]) for o in case["ops"]) or "_"
            return ["C06.hq %s %s" % (init, ops)]
        if case["kind"] in ("world", "fworld"):
            fl = case["kind"] == "fworld"
            fmt = (lambda x: fbits(float(x))) if fl else (lambda x: nc.tok(nc.num(x)))
            nets = "|".join(";".join([str(nt["n"])] + [",".join(fmt(c) for c in (list(p) + [0])[:3]) for p in nt["pos"]])
                            for nt in case["nets"]) or "_"
            toks = []
            for k, op in case["ops"]:
                if op[0] == "c":
                    toks.append("%d:c" % k)
                elif op[0] == "m":
                    toks.append("%d:m,%d" % (k, op[1]))
                elif op[0] == "w":
                    toks.append("%d:w,%s" % (k, fmt(op[1])))
                else:
                    sub = self.requests({"kind": "sess", "n": 0, "ops": [op], "fmt": fmt})[0].split(" ")[2]
                    toks += ["%d:%s" % (k, t) for t in sub.split(";")]
            return ["C06.%s %s %s" % ("fworld" if fl else "world", nets, ";".join(toks) or "_")]
        if case["kind"] == "fam":
            toks = []
            for k, op in case["ops"]:
                if op[0] == "c":
                    toks.append("%d:c" % k)
                elif op[0] == "x":
                    toks.append("%d:x,%d,%s" % (k, op[1], "none" if op[2] == "none" else nc.tok(nc.num(op[2]))))
                elif op[0] == "W":
                    toks.append("%d:W,%d,%s" % (k, op[1], nc.tok(nc.num(op[2]))))
                else:
                    sub = self.requests({"kind": "sess", "n": 0, "ops": [op]})[0].split(" ")[2]
                    toks += ["%d:%s" % (k, t) for t in sub.split(";")]
            return ["C06.fam %d %s" % (case["n"], ";".join(toks) or "_")]
        if case["kind"] == "sess":
            fmt = case.get("fmt") or (lambda x: nc.tok(nc.num(x)))
            ct = lambda c: "none" if c == "none" else fmt(c)
            toks = []
            for op in case["ops"]:
                k = op[0]
                if k == "n":
                    toks.append("n,%d" % op[1])
                elif k == "e":
                    toks.append("e,%d,%d,%d,%s,%d" % (op[1], op[2], op[3], fmt(op[4]), op[5]))
                elif k == "r":
                    toks.append("r,%d,%s,%s,%d" % (op[1], "_" if op[2] is None else op[2], ct(op[3]), op[4]))
                elif k == "d":
                    toks.append("d,%d,%d,%s,%d" % (op[1], op[2], ct(op[3]), op[4]))
                elif k == "l":
                    toks.append("l,%d,%s,%d" % (op[1], ct(op[2]), op[3]))
                elif k == "a":
                    toks.append("a,%s,%d" % (ct(op[1]), op[2]))
                elif k == "p":
                    toks.append("p,%s" % ct(op[1]))
                elif k in "qh":
                    toks.append("%s,%d,%d" % (k, op[1], op[2]))
                elif k == "s":
                    toks.append("s,%d,%s" % (op[1], ct(op[2])))
                elif k == "v":
                    toks.append("v")
                if (k in "rd" and op[4]) or (k == "l" and op[3]) or (k == "a" and op[2]):
                    toks.append("u")
            return ["C06.sess %d %s" % (case["n"], ";".join(toks) or "_")]
        if case["kind"] == "rnd-float":
            es = ";".join("%d,%d,%d,%s,%d" % (i, a, b, fbits(w), o) for (i, a, b, w, o) in case["edges"]) or "_"
            order = ",".join(map(str, case["order"]))
            out = []
            for c in case["cuts"]:
                ct = "none" if c == "none" else fbits(c)
                out += ["C06.fpairs %d %s %s" % (case["n"], es, ct), "C06.flists %d %s %s %s" % (case["n"], order, es, ct),
                        "C06.fall %d %s %s %s" % (case["n"], order, es, ct)]
            return out
        n = case["n"]
        edges = nc.expand(case)
        cuts = cut_tokens(case, nc.floyd_warshall(n, edges))
        es = nc.edges_token(edges)
        order = ",".join(map(str, case["order"])) if case["order"] else "_"
        out = []
        for c in cuts:
            out.append("C06.pairs %d %s %s" % (n, es, c))
            out.append("C06.lists %d %s %s %s" % (n, order, es, c))
            out.append("C06.all %d %s %s %s" % (n, order, es, c))
        for (c1, c2) in prep_combos(cuts):
            out.append("C06.prep %d %s %s %s %s" % (n, order, es, c1, c2))
        out.append("C06.pairsPD %d %s %s" % (n, es, cuts[-1]))
        return out

    @staticmethod
    def matrix(reply, none_as):
        if reply == "bad-request":
            raise ValueError("bad-request")
        rows = [] if reply in ("_", "") else reply.split(";")
        return [[none_as if x == "none" else x for x in r.split(",")] for r in rows]

    def decode(self, case, replies):
        if case["kind"] == "multi":
            outs, i = [], 0
            for sub in case["subs"]:
                k = len(self.requests(sub))
                outs.append(self.decode(sub, replies[i:i + k]))
                i += k
            return {"subs": outs}
        if case["kind"] == "pq":
            if replies[0] == "bad-request":
                raise ValueError("bad-request")
            return {"res": [] if replies[0] == "_" else replies[0].split(",")}
        if case["kind"] == "hq":
            if replies[0] == "bad-request":
                raise ValueError("bad-request")
            return {"res": [] if replies[0] == "_" else replies[0].split(",")}
        if case["kind"] in ("sess", "world", "fworld", "fam"):
            if replies[0] == "bad-request":
                raise ValueError("bad-request")
            # float stream: the model's doubles as the exact rationals they denote (what dtok() makes of the implementation's)
            cv = (lambda t: t if t == "none" else nc.tok(Fraction(bitsf(t)))) if case["kind"] == "fworld" else (lambda t: t)
            lst = lambda t: [] if t in ("_", "") else t.split(",")
            res = []
            for tokn in ([] if replies[0] == "_" else replies[0].split(";")):
                if tokn in ("ok", "err"):
                    res.append(tokn); continue
                k, body = tokn[0], tokn[2:]
                if k == "f":
                    d, v = body.split("|")
                    res.append(["f", [cv(x) for x in lst(d)], [int(x) for x in lst(v)]])
                elif k == "v":
                    res.append(["v", cv(body)])
                elif k == "l":
                    res.append(["l", [cv(x) for x in lst(body)]])
                elif k == "t":
                    res.append(["t", sorted([int(a), int(b), cv(d)] for a, b, d in (x.split(".") for x in lst(body)))])
                elif k == "b":
                    res.append(["b", int(body)])
                elif k == "s":
                    ns, es = body.split("|")
                    res.append(["s", [int(x) for x in lst(ns)], [int(x) for x in lst(es)]])
            return {"res": res}
        if case["kind"] == "rnd-float":
            out = {"pairs": [], "lists": [], "all": []}
            fm = lambda rep, none_as: [[none_as if x == "none" else bitsf(x) for x in r.split(",")] for r in rep.split(";")]
            for i in range(0, len(replies), 3):
                if "bad-request" in replies[i:i + 3]:
                    raise ValueError("bad-request")
                out["pairs"].append(fm(replies[i], -1.0))
                out["lists"].append(fm(replies[i + 1], 1e300))
                ent = [] if replies[i + 2] == "_" else [x.split(",") for x in replies[i + 2].split(";")]
                out["all"].append(sorted([int(a), int(b), bitsf(d)] for a, b, d in ent))
            return out
        n = case["n"]
        edges = nc.expand(case)
        cuts = cut_tokens(case, nc.floyd_warshall(n, edges))
        out = {"cuts": cuts, "pairs": [], "lists": [], "all": [], "prep": []}
        i = 0
        for _ in cuts:
            out["pairs"].append(self.matrix(replies[i], "-1"))
            out["lists"].append(self.matrix(replies[i + 1], "big"))
            if replies[i + 2] == "bad-request":
                raise ValueError("bad-request")
            ent = [] if replies[i + 2] == "_" else [x.split(",") for x in replies[i + 2].split(";")]
            out["all"].append(sorted([int(a), int(b), d] for a, b, d in ent))
            i += 3
        for _ in prep_combos(cuts):
            out["prep"].append(self.matrix(replies[i], "big"))
            i += 1
        # the loop with the explicit priority_dict model (proved equal to the abstract one) must say the same
        if self.matrix(replies[i], "-1") != out["pairs"][-1]:
            raise ValueError("runForwardPD differs from runForward: %s" % replies[i])
        return out

    def compare(self, case, impl_out, model_out):
        if isinstance(impl_out, dict) and impl_out.get("err") == "err:Skipped":
            return None
        if case["kind"] == "pq" and "res" in impl_out:
            m = self.spec_pq(case, impl_out)     # the reference dict agrees with the model; name what differs
            if m:
                return m
        if case["kind"] in ("sess", "world", "fworld", "fam") and "res" in impl_out and isinstance(model_out, dict) and "res" in model_out:
            # the searches on the returned sub-network are not part of the one-object model (checked by spec_sess)
            impl_out = {"res": [r[:3] if isinstance(r, list) and r and r[0] == "s" else r for r in impl_out["res"]]}
        if case["kind"] == "fam" and "res" in impl_out:
            # `edge.weight = w`: the model (one Edge object per id, shared by a network and its extracts) answers `ok`;
            # so does the implementation when every network holding an edge of that id now carries w
            ws = iter([nc.tok(nc.num(op[2])) for _, op in case["ops"] if op[0] == "W"])
            res = []
            for r in impl_out["res"]:
                if isinstance(r, list) and r and r[0] == "w":
                    w = next(ws, None)
                    r = "ok" if all(x[1] == w for x in r[1]) else r
                res.append(r)
            impl_out = {"res": res}
        return Prop.compare(self, case, impl_out, model_out)

    # ---------------------------------------------------------------- oracle
    def spec(self, case, out):
        if "err" in out:
            if out["err"] == "err:Skipped":
                return None     # not evaluated (see netcommon.time_limit); the cases that timed out are the failures
            return "the implementation failed: %s %s" % (out["err"], out.get("detail", ""))
        if case["kind"] in ("pq", "hq"):
            # correspondence-only streams: the property speaks about distances, not about the queue on its own;
            # a queue that departs from its model is reported through compare() (and the graph streams decide
            # whether any distance is wrong)
            return None
        if case["kind"] == "sess":
            return self.spec_sess(case, out)
        if case["kind"] in ("world", "fworld"):
            return self.spec_world(case, out)
        if case["kind"] == "fam":
            return self.spec_fam(case, out)
        if case["kind"] == "multi":
            for i, (sub, o) in enumerate(zip(case["subs"], out["subs"])):
                m = self.spec(sub, o)
                if m:
                    return "network %d of %d alive at the same time: %s" % (i, len(case["subs"]), m)
            return None
        if case["kind"] == "rnd-float":
            return self.spec_float(case, out)
        n = case["n"]
        edges = nc.expand(case)
        d = nc.floyd_warshall(n, edges)
        order = case["order"]
        for ci, ctok in enumerate(out["cuts"]):
            c = cutval(ctok)
            for s in range(n):
                for t in range(n):
                    got = out["pairs"][ci][s][t]
                    if d[s][t] is None:
                        if got != "-1":
                            return "shortest_distance(%d,%d,cut=%s) = %s but no permitted walk exists (expected -1)" % (s, t, ctok, got)
                    elif within(d[s][t], c):
                        if got != nc.tok(d[s][t]):
                            return "shortest_distance(%d,%d,cut=%s) = %s, the minimum over permitted walks is %s" % (s, t, ctok, got, nc.tok(d[s][t]))
                row = out["lists"][ci][s]
                if len(row) != n:
                    return "shortest_distance(%d) returns %d values for %d nodes" % (s, len(row), n)
                for i, v in enumerate(order):
                    if d[s][v] is None:
                        if row[i] != "big":
                            return "shortest_distance(%d,cut=%s)[node %d] = %s but the node is unreachable (expected 1e300)" % (s, ctok, v, row[i])
                    elif within(d[s][v], c):
                        if row[i] != nc.tok(d[s][v]):
                            return "shortest_distance(%d,cut=%s)[node %d] = %s, true distance %s" % (s, ctok, v, row[i], nc.tok(d[s][v]))
            want = sorted([s, t, nc.tok(d[s][t])] for s in range(n) for t in range(n) if within(d[s][t], c))
            if out["all"][ci] != want:
                got = out["all"][ci]
                extra = [x for x in got if x not in want][:3]
                missing = [x for x in want if x not in got][:3]
                return "all_shortest_distances(cut=%s): entries not among the pairs with distance <= cut: %s; missing or wrong: %s" % (ctok, extra, missing)
        for k, (c1, c2) in enumerate(prep_combos(out["cuts"])):
            cs = [cutval(c1)] + ([cutval(c2)] if c2 != "-" else [])
            for s in range(n):
                for t in range(n):
                    ok = any(within(d[s][t], c) for c in cs)
                    want = nc.tok(d[s][t]) if ok else "big"
                    if out["prep"][k][s][t] != want:
                        return "after prepare(cut=%s)%s prepared_shortest_distance(%d,%d) = %s, expected %s" % (
                            c1, "" if c2 == "-" else " and prepare(cut=%s)" % c2, s, t, out["prep"][k][s][t], want)
        return None

    def spec_float(self, case, out):
        """float weights: distances within 1e-9 (relative) of the exact minimum over walks; sentinel / table membership exact
        (the cut-offs of this stream lie strictly between distinct distances)"""
        n = case["n"]
        d = nc.floyd_warshall(n, case["edges"])
        near = lambda got, want: close(got, float(want), 1e-9)
        for ci, c in enumerate(case["cuts"]):
            cv = None if c == "none" else Fraction(c)
            for s in range(n):
                for t in range(n):
                    got = out["pairs"][ci][s][t]
                    if d[s][t] is None:
                        if got != -1:
                            return "shortest_distance(%d,%d,cut=%s) = %r but no permitted walk exists" % (s, t, c, got)
                    elif within(d[s][t], cv) and not near(got, d[s][t]):
                        return "shortest_distance(%d,%d,cut=%s) = %r, the minimum over permitted walks is %r" % (s, t, c, got, float(d[s][t]))
                for i, v in enumerate(case["order"]):
                    got = out["lists"][ci][s][i]
                    if d[s][v] is None:
                        if got < 1e299:
                            return "shortest_distance(%d,cut=%s)[node %d] = %r but the node is unreachable" % (s, c, v, got)
                    elif within(d[s][v], cv) and not near(got, d[s][v]):
                        return "shortest_distance(%d,cut=%s)[node %d] = %r, true distance %r" % (s, c, v, got, float(d[s][v]))
            want = sorted([s, t] for s in range(n) for t in range(n) if within(d[s][t], cv))
            if [e[:2] for e in out["all"][ci]] != want:
                return "all_shortest_distances(cut=%s) has keys %s, the pairs with distance <= cut are %s" % (c, [e[:2] for e in out["all"][ci]][:8], want[:8])
            for (s, t, v) in out["all"][ci]:
                if not near(v, d[s][t]):
                    return "all_shortest_distances(cut=%s)[(%d,%d)] = %r, true distance %r" % (c, s, t, v, float(d[s][t]))
        return None

    def spec_sess(self, case, out):
        """every answer of the session against Floyd-Warshall on the graph as built so far (`SessOracle`)"""
        orc = SessOracle(case["n"])
        res = list(out["res"])
        pos = 0
        for i, op in enumerate(case["ops"]):
            m, pos = orc.feed("call %d %s" % (i, json_op(op)), op, res, pos)
            if m:
                return m
        return None

    def spec_world(self, case, out):
        """several Network objects: each object's answers are judged by its own oracle, with its OWN settings (what the
        other objects were told never matters)."""
        orcs = {}
        res = list(out["res"])
        pos = 0
        for i, (k, op) in enumerate(case["ops"]):
            what = "call %d on network %d: %s" % (i, k, json_op(op))
            if op[0] == "c":
                if pos >= len(res) or res[pos] != "ok":
                    return "%s: %s" % (what, res[pos] if pos < len(res) else "no result")
                orcs[k] = SessOracle(case["nets"][k]["n"], pos=case["nets"][k]["pos"], tol=1e-9 if case["kind"] == "fworld" else None)
                pos += 1
                continue
            m, pos = orcs[k].feed(what, op, res, pos)
            if m:
                return m
        return None

    def spec_fam(self, case, out):
        """several networks holding the same Node objects: every network's answers are judged, call by call, against
        Floyd-Warshall on ITS OWN graph as built so far (`SessOracle`); a network returned by sub_network and kept is judged on
        the edges it actually holds (`extracted_oracle`). What the other networks of the family did in between never matters."""
        orcs = []
        res = list(out["res"])
        pos = 0
        for i, (k, op) in enumerate(case["ops"]):
            what = "call %d on network %d: %s" % (i, k, json_op(op))
            if op[0] == "c":
                if pos >= len(res) or res[pos] != "ok":
                    return "%s: %s" % (what, res[pos] if pos < len(res) else "no result")
                orcs.append(SessOracle(case["n"]))
                pos += 1
                continue
            if op[0] == "W":
                rec = res[pos] if pos < len(res) else None
                if not (isinstance(rec, list) and rec and rec[0] == "w"):
                    return "%s: %s" % (what, rec if rec is not None else "no result")
                pos += 1
                # network k's own edge now weighs w; any other network is judged on the weight ITS edge of that id carries
                # (read back from the object: the statement does not say whether an extract shares its parent's Edge objects)
                seen = dict((j, w) for j, w in rec[1])
                for j, o in enumerate(orcs):
                    hit = [e for e in o.edges if e[0] == op[1]]
                    if not hit:
                        continue
                    neww = op[2] if j == k else seen.get(j)
                    if neww is None or neww == "none":
                        continue
                    for e in hit:
                        e[3] = neww
                    o.ver += 1; o.fw = None
                continue
            if k >= len(orcs):      # a member that was never created (the extraction before it was not made): nothing to judge
                pos += 2 if has_dump(op) else 1
                continue
            rec = res[pos] if pos < len(res) else None
            m, pos = orcs[k].feed(what, op, res, pos)
            if m:
                return m
            if op[0] == "x" and rec != "err":
                orcs.append(extracted_oracle(orcs[k], rec))
        return None

    def spec_pq(self, case, out):
        ref = {k: nc.num(p) for k, p in case["init"]}
        if len(out["res"]) != len(case["ops"]):
            return "%d results for %d operations" % (len(out["res"]), len(case["ops"]))
        for i, (op, got) in enumerate(zip(case["ops"], out["res"])):
            got = got.split("@")[0]
            if op[0] == "p":
                if not ref:
                    if got != "err":
                        return "op %d: pop_smallest on an empty priority_dict returned %s" % (i, got)
                    continue
                want = min(ref, key=lambda k: (ref[k], k))
                if got != str(want):
                    return "op %d: pop_smallest returned %s, the smallest (priority, key) is (%s, %d) among %s" % (i, got, ref[want], want, ref)
                del ref[want]
            else:
                ref[op[1]] = nc.num(op[2])
                if got != str(len(ref)):
                    return "op %d: len = %s after the assignment, expected %d" % (i, got, len(ref))
        return None

    # ---------------------------------------------------------------- shrinking / search
    @staticmethod
    def shrink_world(case):
        ops, nets = case["ops"], case["nets"]
        used = sorted({k for k, _ in ops})
        for k in reversed(used):              # drop a whole object (renumbering the later ones)
            if len(used) > 1:
                r = lambda j: j - 1 if j > k else j
                c = {"kind": case["kind"], "nets": nets[:k] + nets[k + 1:], "ops": [[r(j), o] for j, o in ops if j != k]}
                if world_valid(c):
                    yield c
        for i in range(len(ops) - 1, -1, -1):
            c = dict(case, ops=ops[:i] + ops[i + 1:])
            if world_valid(c):
                yield c
        for i, (k, op) in enumerate(ops):
            if op[0] in "rdlqhs" and op[-1] != 0:
                yield dict(case, ops=ops[:i] + [[k, op[:-1] + [0]]] + ops[i + 1:])
            if op[0] in "rd" and op[4] != 0:
                yield dict(case, ops=ops[:i] + [[k, op[:4] + [0] + op[5:]]] + ops[i + 1:])
            if op[0] in "rdl" and op[-3] != "none":
                yield dict(case, ops=ops[:i] + [[k, op[:-3] + ["none"] + op[-2:]]] + ops[i + 1:])

    def shrink(self, case):
        if case["kind"] == "multi":
            subs = case["subs"]
            if len(subs) == 1:
                yield subs[0]
            for k in range(len(subs)):
                if len(subs) > 1:
                    yield dict(case, subs=subs[:k] + subs[k + 1:])
            for k, sub in enumerate(subs):
                for c in self.shrink(sub):
                    yield dict(case, subs=subs[:k] + [c] + subs[k + 1:])
            return
        if case["kind"] in ("world", "fworld"):
            for c in self.shrink_world(case):
                if world_valid(c):
                    yield c
            return
        if case["kind"] == "fam":
            ops = case["ops"]
            for i in range(len(ops) - 1, -1, -1):
                if ops[i][1][0] in "cx":      # dropping a creation: drop the member's calls, renumber the later members
                    born = sum(1 for _, o in ops[:i] if o[0] in "cx")
                    if born == 0:
                        continue
                    r = lambda j: j - 1 if j > born else j
                    c = dict(case, ops=[[r(j), o] for t, (j, o) in enumerate(ops) if t != i and j != born])
                else:
                    c = dict(case, ops=ops[:i] + ops[i + 1:])
                if fam_valid(c):
                    yield c
            for i, (k, op) in enumerate(ops):
                if op[0] in "rdlqhsx" and op[-1] != 0:
                    yield dict(case, ops=ops[:i] + [[k, op[:-1] + [0]]] + ops[i + 1:])
                if op[0] in "rd" and op[4] != 0:
                    yield dict(case, ops=ops[:i] + [[k, op[:4] + [0] + op[5:]]] + ops[i + 1:])
                if op[0] in "rdl" and op[-3] != "none":
                    yield dict(case, ops=ops[:i] + [[k, op[:-3] + ["none"] + op[-2:]]] + ops[i + 1:])
                if op[0] == "e" and op[4] not in (0, 1):
                    yield dict(case, ops=ops[:i] + [[k, op[:4] + [1, op[5]]]] + ops[i + 1:])
            if case.get("ids") == "str":
                yield dict(case, ids="int")
            return
        if case["kind"] == "pq":
            for k in range(len(case["ops"])):
                yield dict(case, ops=case["ops"][:k] + case["ops"][k + 1:])
            for k in range(len(case["init"])):
                yield dict(case, init=case["init"][:k] + case["init"][k + 1:])
            return
        if case["kind"] == "hq":
            for k in range(len(case["ops"])):
                yield dict(case, ops=case["ops"][:k] + case["ops"][k + 1:])
            for k in range(len(case["init"])):
                yield dict(case, init=case["init"][:k] + case["init"][k + 1:])
            return
        if case["kind"] == "sess":
            ops = case["ops"]
            for k in range(len(ops) - 1, -1, -1):
                c = dict(case, ops=ops[:k] + ops[k + 1:])
                if sess_valid(c):
                    yield c
            for k, op in enumerate(ops):
                if op[0] in "rdlqhs" and op[-1] != 0:
                    yield dict(case, ops=ops[:k] + [op[:-1] + [0]] + ops[k + 1:])
                if op[0] == "e" and op[4] not in (0, 1):
                    yield dict(case, ops=ops[:k] + [op[:4] + [1, op[5]]] + ops[k + 1:])
            return
        for c in nc.shrink_graph(case):
            yield c
        if "cuts" in case and len(case["cuts"]) > 1:
            for k in range(len(case["cuts"])):
                yield dict(case, cuts=case["cuts"][:k] + case["cuts"][k + 1:])
        elif "cuts" not in case and "edges" in case:
            d = nc.floyd_warshall(case["n"], case["edges"])
            yield dict(case, cuts=cut_tokens(case, d))

    def mutate(self, case, rng):
        if case["kind"] in ("pq", "hq", "sess", "multi", "world", "fworld", "fam"):
            return
        c = nc.explicit(case)
        for k, e in enumerate(c["edges"]):
            for o in (-1, 0, 1):
                if o != e[4]:
                    yield dict(c, edges=c["edges"][:k] + [e[:4] + [o]] + c["edges"][k + 1:])
            yield dict(c, edges=c["edges"][:k] + [e[:3] + [0, e[4]]] + c["edges"][k + 1:])
