"""C06 — network shortest distances are the true minimum over permitted walks (tracklib/core/network.py)."""
from fractions import Fraction
from engine import Prop, fbits, bitsf, close
from props import netcommon as nc


def vtok(x):
    """implementation value -> canonical token (`big` = the 1e300 'not reachable / not prepared' value)"""
    if isinstance(x, float) and x >= 1e299:
        return "big"
    return nc.tok(Fraction(x))


def cut_tokens(case, dist):
    if "cuts" in case:
        return list(case["cuts"])
    return ["none"] + [nc.tok(c) for c in nc.cuts_for(dist)]


def prep_combos(cuts):
    """(cut of the first prepare, cut of a second prepare on the same DISTANCES or '-')"""
    out = [(c, "-") for c in cuts]
    for i in range(min(3, len(cuts))):
        out.append((cuts[i], cuts[-1 - i]))
    return out


def cutval(tokn):
    return None if tokn == "none" else Fraction(tokn)


def within(d, c):
    """true distance d (None = unreachable) does not exceed the cut c (None = no cut)"""
    return d is not None and (c is None or d <= c)


class P(Prop):
    id = "C06"
    design_ref = "DESIGN.md section 5, C06; appendix A.2"
    M = "TracklibVerif.Props.C06"
    theorems = [
        (M, "TV.C06.certificate_sound", "any labelling satisfying the invariants with nothing left to pop is the distance function (labels = minimum over walks; unlabelled iff unreachable)"),
        (M, "TV.C06.forward_invariant", "the loop invariants of run_routing_forward (appendix A.2) are preserved by one iteration (pop the minimum, settle, relax NEXT_EDGES)"),
        (M, "TV.C06.forward_correct", "after run_routing_forward(s) every label is the minimum weight over permitted walks; unlabelled (-1) iff no walk"),
        (M, "TV.C06.shortest_distance_correct", "shortest_distance(s,t) (run stopped when t is popped) = the true distance; sentinel iff t unreachable"),
        (M, "TV.C06.shortest_distance_cut", "shortest_distance(s,t,cut) = the true distance whenever it is <= cut; sentinel whenever t is unreachable"),
        (M, "TV.C06.shortest_distance_list_correct", "shortest_distance(s) list form: per node in insertion order the true distance, or none (1e300) iff unreachable"),
        (M, "TV.C06.cutoff_entries", "output_dict entries of run_routing_forward(s,cut) = exactly the nodes with true distance <= cut, with that distance"),
        (M, "TV.C06.cutoff_table", "all_shortest_distances(cut) maps (s,v) to y iff s is a node, y is the true distance s->v and y <= cut"),
        (M, "TV.C06.prepared_correct", "prepare(cut) + prepared_shortest_distance(s,v): stored value = true distance exactly for pairs within the cut-off"),
        (M, "TV.C06.prepared_twice_correct", "a second prepare(cut2) on the same DISTANCES: stored exactly for pairs within cut1 or cut2, always the true distance"),
        (M, "TV.C06.pop_smallest_min", "priority_dict.pop_smallest returns the key with the smallest (priority, key) among the current dict entries despite stale heap tuples, removes only it, keeps the heap invariant"),
        (M, "TV.C06.priority_dict_setitem", "priority_dict.__setitem__ (push or rebuild) sets that entry only and keeps the heap invariant; the constructor establishes it"),
        (M, "TV.C06.forward_uses_priority_dict", "run_routing_forward written with the explicit priority_dict equals the loop with the abstract extract-min, so every theorem holds for it"),
    ]
    partial = []
    open_statements = ["heapq (heapify/heappush/heappop) is not modelled: the heap is a list and heappop removes a smallest (priority, key) tuple",
                       "weights are elements of a linearly ordered additive commutative monoid in the theorems; float rounding of sums of non-dyadic weights is outside them"]
    modelled = ("Network.addEdge (NEXT_EDGES by orientation), run_routing_forward in Dijkstra mode (pop by (poids, node id), stop tests "
                "before recording, 'other end' rule, visite guard, strict < relaxation, output_dict), shortest_distance (pair and list form), "
                "all_shortest_distances, prepare, prepared_shortest_distance; priority_dict (tracklib/core/utils.py): constructor, __setitem__ with the rebuild threshold, "
                "pop_smallest with lazy deletion, len — as Model/PDict.lean, and the forward loop over it as Model/GraphPD.lean (proved equal to the abstract loop)")
    trusted = ["heapq is trusted to implement a priority queue of (priority, key) tuples (Python tuple order; Node.__lt__ compares ids)",
               "A* routing mode (routing_mode = 1) is outside the model"]
    rule = ("every multigraph on <= 3 nodes with <= 2 edges as ordered edge lists (quick) and with 3 edges as multisets in shuffled order (thorough), "
            "weights {0,1,2}, orientations {-1,0,1}, self-loops and parallel edges included, node insertion order shuffled; random graphs to 12 nodes / 40 edges "
            "with integer and dyadic weights. Per graph: every ordered pair, cut-offs below/equal/above each distinct distance (a sample of them for the "
            "large random graphs), all API forms. Random graphs with float weights (model instantiated at Float, oracle in exact rationals, 1e-9 relative). Plus random set/pop sequences on priority_dict alone (ties, lowered and raised priorities, pops on empty). "
            "non-trivial = at least one ordered pair s != t is joined by a walk (graphs) / at least one pop (priority_dict)")

    def setup(self):
        self.mods = nc.import_mods()

    # ---------------------------------------------------------------- generators
    def exhaustive_scopes(self, tier):
        s = ["all edge lists (ordered) of length 0..2 on 1..3 nodes over {src,tgt} x weights {0,1,2} x orientations {-1,0,1} (8067 graphs) x all ordered pairs x cut-offs {d-1/2, d, d+1/2 : d a distance} and none"]
        if tier == "thorough":
            s.append("all multisets of 3 edges on 1..3 nodes over the same alphabet (100482 multigraphs), edge and node insertion order shuffled")
        return s

    def cases(self, rng, tier):
        out = []
        for n in (1, 2, 3):
            for k in (0, 1, 2):
                for e in nc.enum_graphs(n, k, ordered=True):
                    order = list(range(n)); rng.shuffle(order)
                    out.append({"kind": "ex", "n": n, "order": order, "e": list(e)})
        if tier == "thorough":
            for n in (1, 2, 3):
                for e in nc.enum_graphs(n, 3, ordered=False):
                    e = list(e); rng.shuffle(e)
                    order = list(range(n)); rng.shuffle(order)
                    out.append({"kind": "ex3", "n": n, "order": order, "e": e})
        nsmall, nbig = (1500, 500) if tier == "quick" else (20000, 6000)
        for _ in range(nsmall):
            out.append(dict(nc.random_graph(rng, small=True), kind="rnd-small"))
        for _ in range(nbig):
            g = nc.random_graph(rng, nmax=rng.choice([5, 8, 12]), emax=rng.choice([8, 20, 40]))
            dist = nc.floyd_warshall(g["n"], g["edges"])
            allc = nc.cuts_for(dist)
            g["cuts"] = ["none"] + sorted({nc.tok(c) for c in rng.sample(allc, min(3, len(allc)))}, key=Fraction)
            out.append(dict(g, kind="rnd"))
        # float weights: the same model instantiated at Float, oracle in exact rational arithmetic with a tolerance
        for _ in range(400 if tier == "quick" else 6000):
            g = nc.random_graph(rng, nmax=rng.choice([4, 8, 12]), emax=rng.choice([6, 20, 40]))
            scale = rng.choice([1.0, 1e-3, 1e3])
            for e in g["edges"]:
                e[3] = 0.0 if rng.random() < 0.1 else rng.uniform(0, 10) * scale
            ds = sorted({x for row in nc.floyd_warshall(g["n"], g["edges"]) for x in row if x is not None})
            mids = [float((a + b) / 2) for a, b in zip(ds, ds[1:]) if b - a > Fraction(1, 10**6) * max(1, b)]
            g["cuts"] = ["none"] + sorted(rng.sample(mids, min(2, len(mids))))
            out.append(dict(g, kind="rnd-float"))
        # priority_dict on its own: random set / pop sequences with ties, stale entries (lowered and raised priorities), pops on empty
        for _ in range(1500 if tier == "quick" else 20000):
            nk = rng.randint(1, 6)
            init = [[k, rng.randint(0, 3)] for k in rng.sample(range(nk), rng.randint(0, nk))]
            ops = []
            for _ in range(rng.randint(1, 25)):
                if rng.random() < 0.4:
                    ops.append(["p"])
                else:
                    p = rng.choice([0, 1, 1, 2, 3, "1/2", "3/2"])
                    ops.append(["s", rng.randrange(nk), p])
            out.append({"kind": "pq", "init": init, "ops": ops})
        return out

    def describe(self, case):
        if case["kind"] == "pq":
            return {"kind": "pq", "pops": min(10, sum(1 for o in case["ops"] if o[0] == "p"))}
        edges = nc.expand(case)
        ws = [nc.num(e[3]) for e in edges]
        pairs = [(min(e[1], e[2]), max(e[1], e[2])) for e in edges]
        return {"kind": case["kind"], "n": case["n"] if case["n"] <= 4 else "5-8" if case["n"] <= 8 else "9-12",
                "m": len(edges) if len(edges) <= 3 else "4-10" if len(edges) <= 10 else "11-40",
                "zero_weight": any(w == 0 for w in ws), "self_loop": any(e[1] == e[2] for e in edges),
                "parallel": len(set(pairs)) < len(pairs), "one_way": any(e[4] != 0 for e in edges)}

    def nontrivial(self, case):
        if case["kind"] == "pq":
            return any(o[0] == "p" for o in case["ops"])
        n = case["n"]
        d = nc.floyd_warshall(n, nc.expand(case))
        return any(d[s][t] is not None for s in range(n) for t in range(n) if s != t)

    # ---------------------------------------------------------------- implementation
    def impl_pq(self, case):
        from tracklib.core.utils import priority_dict
        with nc.time_limit(3):
            pd = priority_dict({k: nc.pynum(p) for k, p in case["init"]})
            res = []
            for op in case["ops"]:
                if op[0] == "p":
                    try:
                        res.append(str(pd.pop_smallest()))
                    except IndexError:
                        res.append("err")
                else:
                    pd[op[1]] = nc.pynum(op[2])
                    res.append(str(len(pd)))
        return {"res": res}

    def impl_float(self, case):
        n = case["n"]
        with nc.time_limit(20):
            net = nc.build_network(self.mods, case)
            out = {"pairs": [], "lists": [], "all": []}
            for c in case["cuts"]:
                kw = {} if c == "none" else {"cut": c}
                out["pairs"].append([[float(net.shortest_distance(s, t, **kw)) for t in range(n)] for s in range(n)])
                out["lists"].append([[float(x) for x in net.shortest_distance(s, **kw)] for s in range(n)])
                out["all"].append(sorted([k[0], k[1], float(v)] for k, v in net.all_shortest_distances(**kw).items()))
        return out

    def impl(self, case):
        if case["kind"] == "pq":
            return self.impl_pq(case)
        if case["kind"] == "rnd-float":
            return self.impl_float(case)
        n = case["n"]
        edges = nc.expand(case)
        dist = nc.floyd_warshall(n, edges)          # only to choose the cut-offs
        cuts = cut_tokens(case, dist)
        with nc.time_limit(3 if n <= 4 else 20):
            net = nc.build_network(self.mods, case)
            out = {"cuts": cuts, "pairs": [], "lists": [], "all": [], "prep": []}
            for c in cuts:
                kw = {} if c == "none" else {"cut": nc.pynum(c)}
                out["pairs"].append([[vtok(net.shortest_distance(s, t, **kw)) for t in range(n)] for s in range(n)])
                out["lists"].append([[vtok(x) for x in net.shortest_distance(s, **kw)] for s in range(n)])
                tb = net.all_shortest_distances(**kw)
                out["all"].append(sorted([k[0], k[1], vtok(v)] for k, v in tb.items()))
            for (c1, c2) in prep_combos(cuts):
                net.DISTANCES = None
                net.prepare(verbose=False, **({} if c1 == "none" else {"cut": nc.pynum(c1)}))
                if c2 != "-":
                    net.prepare(verbose=False, **({} if c2 == "none" else {"cut": nc.pynum(c2)}))
                out["prep"].append([[vtok(net.prepared_shortest_distance(s, t)) for t in range(n)] for s in range(n)])
        return out

    # ---------------------------------------------------------------- model
    def requests(self, case):
        if case["kind"] == "pq":
            init = ";".join("%d,%s" % (k, nc.tok(nc.num(p))) for k, p in case["init"]) or "_"
            ops = ";".join("p" if o[0] == "p" else "s,%d,%s" % (o[1], nc.tok(nc.num(o[2]))) for o in case["ops"]) or "_"
            return ["C06.pq %s %s" % (init, ops)]
        if case["kind"] == "rnd-float":
            es = ";".join("%d,%d,%d,%s,%d" % (i, a, b, fbits(w), o) for (i, a, b, w, o) in case["edges"]) or "_"
            order = ",".join(map(str, case["order"]))
            out = []
            for c in case["cuts"]:
                ct = "none" if c == "none" else fbits(c)
                out += ["C06.fpairs %d %s %s" % (case["n"], es, ct), "C06.flists %d %s %s %s" % (case["n"], order, es, ct),
                        "C06.fall %d %s %s %s" % (case["n"], order, es, ct)]
            return out
        n = case["n"]
        edges = nc.expand(case)
        cuts = cut_tokens(case, nc.floyd_warshall(n, edges))
        es = nc.edges_token(edges)
        order = ",".join(map(str, case["order"])) if case["order"] else "_"
        out = []
        for c in cuts:
            out.append("C06.pairs %d %s %s" % (n, es, c))
            out.append("C06.lists %d %s %s %s" % (n, order, es, c))
            out.append("C06.all %d %s %s %s" % (n, order, es, c))
        for (c1, c2) in prep_combos(cuts):
            out.append("C06.prep %d %s %s %s %s" % (n, order, es, c1, c2))
        out.append("C06.pairsPD %d %s %s" % (n, es, cuts[-1]))
        return out

    @staticmethod
    def matrix(reply, none_as):
        if reply == "bad-request":
            raise ValueError("bad-request")
        rows = [] if reply in ("_", "") else reply.split(";")
        return [[none_as if x == "none" else x for x in r.split(",")] for r in rows]

    def decode(self, case, replies):
        if case["kind"] == "pq":
            if replies[0] == "bad-request":
                raise ValueError("bad-request")
            return {"res": [] if replies[0] == "_" else replies[0].split(",")}
        if case["kind"] == "rnd-float":
            out = {"pairs": [], "lists": [], "all": []}
            fm = lambda rep, none_as: [[none_as if x == "none" else bitsf(x) for x in r.split(",")] for r in rep.split(";")]
            for i in range(0, len(replies), 3):
                if "bad-request" in replies[i:i + 3]:
                    raise ValueError("bad-request")
                out["pairs"].append(fm(replies[i], -1.0))
                out["lists"].append(fm(replies[i + 1], 1e300))
                ent = [] if replies[i + 2] == "_" else [x.split(",") for x in replies[i + 2].split(";")]
                out["all"].append(sorted([int(a), int(b), bitsf(d)] for a, b, d in ent))
            return out
        n = case["n"]
        edges = nc.expand(case)
        cuts = cut_tokens(case, nc.floyd_warshall(n, edges))
        out = {"cuts": cuts, "pairs": [], "lists": [], "all": [], "prep": []}
        i = 0
        for _ in cuts:
            out["pairs"].append(self.matrix(replies[i], "-1"))
            out["lists"].append(self.matrix(replies[i + 1], "big"))
            if replies[i + 2] == "bad-request":
                raise ValueError("bad-request")
            ent = [] if replies[i + 2] == "_" else [x.split(",") for x in replies[i + 2].split(";")]
            out["all"].append(sorted([int(a), int(b), d] for a, b, d in ent))
            i += 3
        for _ in prep_combos(cuts):
            out["prep"].append(self.matrix(replies[i], "big"))
            i += 1
        # the loop with the explicit priority_dict model (proved equal to the abstract one) must say the same
        if self.matrix(replies[i], "-1") != out["pairs"][-1]:
            raise ValueError("runForwardPD differs from runForward: %s" % replies[i])
        return out

    def compare(self, case, impl_out, model_out):
        if isinstance(impl_out, dict) and impl_out.get("err") == "err:Skipped":
            return None
        if case["kind"] == "pq" and "res" in impl_out:
            m = self.spec_pq(case, impl_out)     # the reference dict agrees with the model; name what differs
            if m:
                return m
        return Prop.compare(self, case, impl_out, model_out)

    # ---------------------------------------------------------------- oracle
    def spec(self, case, out):
        if "err" in out:
            if out["err"] == "err:Skipped":
                return None     # not evaluated (see netcommon.time_limit); the cases that timed out are the failures
            return "the implementation failed: %s %s" % (out["err"], out.get("detail", ""))
        if case["kind"] == "pq":
            # correspondence-only stream: the property speaks about distances, not about the queue on its own;
            # a queue that departs from its model is reported through compare() (and the graph streams decide
            # whether any distance is wrong)
            return None
        if case["kind"] == "rnd-float":
            return self.spec_float(case, out)
        n = case["n"]
        edges = nc.expand(case)
        d = nc.floyd_warshall(n, edges)
        order = case["order"]
        for ci, ctok in enumerate(out["cuts"]):
            c = cutval(ctok)
            for s in range(n):
                for t in range(n):
                    got = out["pairs"][ci][s][t]
                    if d[s][t] is None:
                        if got != "-1":
                            return "shortest_distance(%d,%d,cut=%s) = %s but no permitted walk exists (expected -1)" % (s, t, ctok, got)
                    elif within(d[s][t], c):
                        if got != nc.tok(d[s][t]):
                            return "shortest_distance(%d,%d,cut=%s) = %s, the minimum over permitted walks is %s" % (s, t, ctok, got, nc.tok(d[s][t]))
                row = out["lists"][ci][s]
                if len(row) != n:
                    return "shortest_distance(%d) returns %d values for %d nodes" % (s, len(row), n)
                for i, v in enumerate(order):
                    if d[s][v] is None:
                        if row[i] != "big":
                            return "shortest_distance(%d,cut=%s)[node %d] = %s but the node is unreachable (expected 1e300)" % (s, ctok, v, row[i])
                    elif within(d[s][v], c):
                        if row[i] != nc.tok(d[s][v]):
                            return "shortest_distance(%d,cut=%s)[node %d] = %s, true distance %s" % (s, ctok, v, row[i], nc.tok(d[s][v]))
            want = sorted([s, t, nc.tok(d[s][t])] for s in range(n) for t in range(n) if within(d[s][t], c))
            if out["all"][ci] != want:
                got = out["all"][ci]
                extra = [x for x in got if x not in want][:3]
                missing = [x for x in want if x not in got][:3]
                return "all_shortest_distances(cut=%s): entries not among the pairs with distance <= cut: %s; missing or wrong: %s" % (ctok, extra, missing)
        for k, (c1, c2) in enumerate(prep_combos(out["cuts"])):
            cs = [cutval(c1)] + ([cutval(c2)] if c2 != "-" else [])
            for s in range(n):
                for t in range(n):
                    ok = any(within(d[s][t], c) for c in cs)
                    want = nc.tok(d[s][t]) if ok else "big"
                    if out["prep"][k][s][t] != want:
                        return "after prepare(cut=%s)%s prepared_shortest_distance(%d,%d) = %s, expected %s" % (
                            c1, "" if c2 == "-" else " and prepare(cut=%s)" % c2, s, t, out["prep"][k][s][t], want)
        return None

    def spec_float(self, case, out):
        """float weights: distances within 1e-9 (relative) of the exact minimum over walks; sentinel / table membership exact
        (the cut-offs of this stream lie strictly between distinct distances)"""
        n = case["n"]
        d = nc.floyd_warshall(n, case["edges"])
        near = lambda got, want: close(got, float(want), 1e-9)
        for ci, c in enumerate(case["cuts"]):
            cv = None if c == "none" else Fraction(c)
            for s in range(n):
                for t in range(n):
                    got = out["pairs"][ci][s][t]
                    if d[s][t] is None:
                        if got != -1:
                            return "shortest_distance(%d,%d,cut=%s) = %r but no permitted walk exists" % (s, t, c, got)
                    elif within(d[s][t], cv) and not near(got, d[s][t]):
                        return "shortest_distance(%d,%d,cut=%s) = %r, the minimum over permitted walks is %r" % (s, t, c, got, float(d[s][t]))
                for i, v in enumerate(case["order"]):
                    got = out["lists"][ci][s][i]
                    if d[s][v] is None:
                        if got < 1e299:
                            return "shortest_distance(%d,cut=%s)[node %d] = %r but the node is unreachable" % (s, c, v, got)
                    elif within(d[s][v], cv) and not near(got, d[s][v]):
                        return "shortest_distance(%d,cut=%s)[node %d] = %r, true distance %r" % (s, c, v, got, float(d[s][v]))
            want = sorted([s, t] for s in range(n) for t in range(n) if within(d[s][t], cv))
            if [e[:2] for e in out["all"][ci]] != want:
                return "all_shortest_distances(cut=%s) has keys %s, the pairs with distance <= cut are %s" % (c, [e[:2] for e in out["all"][ci]][:8], want[:8])
            for (s, t, v) in out["all"][ci]:
                if not near(v, d[s][t]):
                    return "all_shortest_distances(cut=%s)[(%d,%d)] = %r, true distance %r" % (c, s, t, v, float(d[s][t]))
        return None

    def spec_pq(self, case, out):
        ref = {k: nc.num(p) for k, p in case["init"]}
        if len(out["res"]) != len(case["ops"]):
            return "%d results for %d operations" % (len(out["res"]), len(case["ops"]))
        for i, (op, got) in enumerate(zip(case["ops"], out["res"])):
            if op[0] == "p":
                if not ref:
                    if got != "err":
                        return "op %d: pop_smallest on an empty priority_dict returned %s" % (i, got)
                    continue
                want = min(ref, key=lambda k: (ref[k], k))
                if got != str(want):
                    return "op %d: pop_smallest returned %s, the smallest (priority, key) is (%s, %d) among %s" % (i, got, ref[want], want, ref)
                del ref[want]
            else:
                ref[op[1]] = nc.num(op[2])
                if got != str(len(ref)):
                    return "op %d: len = %s after the assignment, expected %d" % (i, got, len(ref))
        return None

    # ---------------------------------------------------------------- shrinking / search
    def shrink(self, case):
        if case["kind"] == "pq":
            for k in range(len(case["ops"])):
                yield dict(case, ops=case["ops"][:k] + case["ops"][k + 1:])
            for k in range(len(case["init"])):
                yield dict(case, init=case["init"][:k] + case["init"][k + 1:])
            return
        for c in nc.shrink_graph(case):
            yield c
        if "cuts" in case and len(case["cuts"]) > 1:
            for k in range(len(case["cuts"])):
                yield dict(case, cuts=case["cuts"][:k] + case["cuts"][k + 1:])
        elif "cuts" not in case and "edges" in case:
            d = nc.floyd_warshall(case["n"], case["edges"])
            yield dict(case, cuts=cut_tokens(case, d))

    def mutate(self, case, rng):
        if case["kind"] == "pq":
            return
        c = nc.explicit(case)
        for k, e in enumerate(c["edges"]):
            for o in (-1, 0, 1):
                if o != e[4]:
                    yield dict(c, edges=c["edges"][:k] + [e[:4] + [o]] + c["edges"][k + 1:])
            yield dict(c, edges=c["edges"][:k] + [e[:3] + [0, e[4]]] + c["edges"][k + 1:])
