"""C18 — time-warping cost is the optimal coupling cost and the matching realises it
(tracklib/algo/comparison.py: match / compare in the DTW, FDTW and FRECHET modes)."""
import math, itertools
from engine import Prop, fbits, bitsf, untok, err_kind, load_known

PS = ["1", "2", "inf"]
# exponents that are not natural numbers (the accumulation is A + B**p for ANY number p): `B**p` is then not an integer even
# when the point distance B is one (dim = 1 on whole-number heights, a callable returning ints)
FRAC_PS = ["0.5", "1.5", "2.5", "0.75", "3.25"]
FRAC_FORMS = ["float", "np.float64", "np.float16", "np.float32", "np.longdouble", "fn"]      # (the five values are exact in float16)


def is_frac(p):
    """p (a string: '0', '1', '2', …, 'inf', or the decimal form of another positive finite number) is not a natural number"""
    return p != "inf" and not p.isdigit()


def pnum(p):
    """the Python number a string p stands for: int for a natural number, float otherwise"""
    return float("inf") if p == "inf" else (float(p) if is_frac(p) else int(p))


def ptok(p):
    """protocol token of the value of p: k | inf | x<bits of the float>"""
    return "x" + fbits(float(p)) if is_frac(p) else p


def num_form(p):
    """the plain Python form of p: int for a natural number, float for infinity and any other number"""
    return "float" if p == "inf" or is_frac(p) else "int"
TOL = 1e-9
TINY = 1e-290


def rclose(a, b, rel=TOL):
    """scale-free comparison of what the check compares (costs, distances, coordinate differences, lists / dicts of them):
    numbers by RELATIVE tolerance only. An accumulated cost is a sum or a maximum of non-negative terms d**p, each computed
    from differences of the given coordinates without cancellation, so two correct evaluations agree to a few ulps whatever
    the unit of the coordinates (degrees, kilometres, millimetres); an absolute tolerance (engine.close allows 1e-9) would
    make the check blind on tracks whose coordinates are small numbers."""
    if isinstance(a, bool) or isinstance(b, bool):
        return a == b
    if isinstance(a, (int, float)) and isinstance(b, (int, float)):
        fa, fb = float(a), float(b)
        if fa != fa or fb != fb:
            return fa != fa and fb != fb
        if math.isinf(fa) or math.isinf(fb):
            return fa == fb
        return abs(fa - fb) <= rel * max(abs(fa), abs(fb)) + TINY
    if isinstance(a, (list, tuple)) and isinstance(b, (list, tuple)):
        return len(a) == len(b) and all(rclose(x, y, rel) for x, y in zip(a, b))
    if isinstance(a, dict) and isinstance(b, dict):
        return a.keys() == b.keys() and all(rclose(a[k], b[k], rel) for k in a)
    return a == b

# ---------------------------------------------------------------------------------- how the exponent p is handed over
# forms of a finite p = 0, 1, 2, 3 and of p = infinity; "fn" = a lambda computing the accumulation, "max" = the builtin
# numpy scalar types whose name contains neither 'int' nor 'float' (_p2weight would not take them for numbers: match / compare
# hand it float(p) / int(p) since 1f009f6)
UNBOUND_FORMS = ["np.longlong", "np.ulonglong", "np.longdouble"]
LOWPREC_FORMS = ["np.float16", "np.float32"]
FIN_FORMS = ["int", "float", "np.int8", "np.int16", "np.int32", "np.int64", "np.intc", "np.uint8", "np.uint16", "np.uint32",
             "np.uint64", "np.float16", "np.float32", "np.float64", "fn"] + UNBOUND_FORMS
INF_FORMS = ["float", "math.inf", "np.inf", "np.float16", "np.float32", "np.float64", "np.longdouble", "fn", "max"]
# styles of random tracks whose unit is drawn per case (rand_frame): the same shapes from 1e-6 to 1e7 units
SCALED_STYLES = ["walk", "neardup", "slat"]
MODE_MATCH = {"dtw": 2, "fdtw": 3, "frechet": 4}
MODE_CMP = {"dtw": 106, "fdtw": 107, "frechet": 108}
CLS_GEO2D = "geo-2d-distance-asymmetric"
CLS_NPCOORD = "fdtw-numpy-int-coordinates-power-overflow"
# fixed pairs of tracks of the other two classes of positions (lon, lat in degrees and a common height; geocentric metres)
GEO_FIXED = [([[2.35, 48.85, 35.0], [2.3501, 48.8502, 35.0], [2.3503, 48.8501, 35.0]], [[2.35005, 48.85, 35.0], [2.3502, 48.8503, 35.0]]),
             ([[-70.6, -33.45, 520.0], [-70.6, -33.45, 520.0], [-70.59999, -33.45001, 520.0], [-70.5995, -33.4502, 520.0]],
              [[-70.6001, -33.4499, 520.0], [-70.59995, -33.45015, 520.0], [-70.5994, -33.4503, 520.0]]),
             ([[139.7, 35.68, 0.0]], [[139.7001, 35.6801, 0.0], [139.7002, 35.68, 0.0]]),
             ([[0.0, 0.0, 0.0], [0.001, 0.0, 0.0], [0.001, 0.001, 0.0]], [[0.0, 0.001, 0.0], [0.001, 0.001, 0.0], [0.002, 0.001, 0.0]])]
ECEF_FIXED = [([[4201000.0, 168000.0, 4780000.0], [4201003.0, 168004.0, 4780000.0], [4201003.0, 168004.0, 4780012.0]],
               [[4201000.0, 168004.0, 4780000.0], [4201003.0, 168000.0, 4780012.0]]),
              ([[6378137.0, 0.0, 0.0], [6378137.0, 3.0, 4.0]], [[6378137.0, 0.0, 4.0], [6378137.0, 3.0, 0.0], [6378140.0, 3.0, 4.0]])]
ECEF_ORIGINS = [(4201000.0, 168000.0, 4780000.0), (6378137.0, 0.0, 0.0), (-2700000.0, -4300000.0, 3850000.0)]
# numpy integer types: largest value of each (`B ** p` with B a Python int and p a numpy integer is evaluated by numpy in the type of p
# — OverflowError when B does not fit, silent wrap-around when B ** p does not; match / compare hand int(p) over since 1f009f6)
NPINT_MAX = {"np.int8": 2 ** 7 - 1, "np.int16": 2 ** 15 - 1, "np.int32": 2 ** 31 - 1, "np.intc": 2 ** 31 - 1, "np.int64": 2 ** 63 - 1,
             "np.uint8": 2 ** 8 - 1, "np.uint16": 2 ** 16 - 1, "np.uint32": 2 ** 32 - 1, "np.uint64": 2 ** 64 - 1,
             "np.longlong": 2 ** 63 - 1, "np.ulonglong": 2 ** 64 - 1}
# whole-number height profiles (dim = 1, coordinates handed over as Python ints) whose differences B have B ** p above the largest
# value of the small numpy integer types: (track1, track2)
BIGINT_FIXED = [([[0, 0, 0], [0, 0, 300]], [[0, 0, 0], [0, 0, 10]]),
                ([[0, 0, 0], [1, 70000, 70000], [2, 300, 300], [3, 12, 12]], [[0, 10, 10], [1, 66000, 66000], [2, 5, 5]]),
                ([[0, 65536, 65536], [1, 0, 0], [1, 3000000, 3000000]], [[0, 0, 0], [1, 65536, 65536], [2, 40, 40], [3, 2999000, 2999000]])]


# whole-number tracks ([k, v, v]: dim = 1 and the Manhattan / Chebyshev callables see the differences of v) handed over as numpy.int64 whose
# point distances sit at the int64 bounds of B**2 (3037000499) and B**3 (2097151): the finding's witness, the two bounds from below and above
I64_FIXED = [([[0, 0, 0], [1, 2200000, 2200000]], [[0, 0, 0], [1, 0, 0]]),
             ([[0, 0, 0], [1, 2097151, 2097151], [2, 5, 5]], [[0, 0, 0], [1, 0, 0], [2, 2097157, 2097157]]),
             ([[0, 0, 0], [1, 2097151, 2097151]], [[0, 0, 0], [1, 3, 3], [2, 2097151, 2097151]]),
             ([[0, 0, 0], [1, 3037000499, 3037000499]], [[0, 7, 7], [1, 0, 0]]),
             ([[0, 0, 0], [1, 3037000500, 3037000500], [2, 9, 9]], [[0, 0, 0], [1, 1, 1]])]


I64_SCOPE = ("numpy.int64 coordinates at the int64 bounds of B**p: 5 fixed pairs of whole-number tracks (point distances 2097151, 2097152, 2097157, 2200000, 3037000499, 3037000500) "
             "x p in {2, 3} x dim in {1, Manhattan, Chebyshev callable} x {DTW, FDTW} x {match, compare}; the calls above the bound (FDTW) only while the finding "
             "fdtw-numpy-int-coordinates-power-overflow is listed, match() then compared with the int64 model (as are 200 / 800 random pairs of such tracks, sizes 1..5, straddling the bounds)")


# ---------------------------------------------------------------------------------- tracks
def pts(tr):
    """a track is a list of [x, y, z] or a compact lattice string 'g:digits' (digit k = point (k // g, k % g, k % g) of
    the g x g lattice; the third coordinate repeats the second so that dim = 1 sees the 1-D lattice 0..g-1)"""
    if isinstance(tr, str):
        g, ds = tr.split(":")
        g = int(g)
        return [[float(int(c) // g), float(int(c) % g), float(int(c) % g)] for c in ds]
    return [[float(v) for v in q] for q in tr]


def lat_tracks(npts, maxn):
    digs = "012345678"[:npts]
    out = []
    for n in range(1, maxn + 1):
        for t in itertools.product(digs, repeat=n):
            out.append("".join(t))
    return out


# ---------------------------------------------------------------------------------- oracle pieces
# the function form of `dim`: callables handed over as `dim` (on getX() / getY() of the two positions). `lead` is not symmetric.
DIMFN = {"fn.manh": lambda p1, p2: abs(p1.getX() - p2.getX()) + abs(p1.getY() - p2.getY()),
         "fn.cheb": lambda p1, p2: max(abs(p1.getX() - p2.getX()), abs(p1.getY() - p2.getY())),
         "fn.lead": lambda p1, p2: max(p1.getX() - p2.getX(), 0.0) + abs(p1.getY() - p2.getY())}
ODIMFN = {"fn.manh": lambda a, b: abs(a[0] - b[0]) + abs(a[1] - b[1]),
          "fn.cheb": lambda a, b: max(abs(a[0] - b[0]), abs(a[1] - b[1])),
          "fn.lead": lambda a, b: max(a[0] - b[0], 0.0) + abs(a[1] - b[1])}
SYMMETRIC_FN = ("fn.manh", "fn.cheb")


def defined(cls, dim):
    """is `_distance(·, ·, dim)` defined on positions of this class? (`abs(p1.U - p2.U)` needs ENUCoords, ECEFCoords have no
    distance2DTo)"""
    if isinstance(dim, str):
        return True
    return cls == "enu" or (cls == "geo" and dim in (2, 3)) or (cls == "ecef" and dim == 3)


def odist(a, b, dim, cls="enu"):
    """the point distance between position a (of track2: first argument of `_distance`) and position b (of track1)"""
    if isinstance(dim, str):
        return ODIMFN[dim](a, b)
    if cls == "geo":
        # the library's own point distance, taken from the position objects directly (not through `_distance`): the distance between
        # two geodetic positions goes through a conversion whose rounding is not this property's business
        from tracklib.core.obs_coords import GeoCoords
        pa, pb = GeoCoords(*a), GeoCoords(*b)
        return pa.distance2DTo(pb) if dim == 2 else pa.distanceTo(pb)
    if cls == "ecef" or dim == 3:
        return math.sqrt(math.fsum([(a[0] - b[0]) ** 2, (a[1] - b[1]) ** 2, (a[2] - b[2]) ** 2]))
    if dim == 1:
        return abs(a[2] - b[2])
    return math.hypot(a[0] - b[0], a[1] - b[1])


def ocost(a, b, dim, p, cls="enu"):
    """d^p computed without going through the square root when p = 2"""
    if p == "2" and cls == "enu" and not isinstance(dim, str):
        if dim == 1:
            return (a[2] - b[2]) ** 2
        s = (a[0] - b[0]) ** 2 + (a[1] - b[1]) ** 2
        return s if dim == 2 else s + (a[2] - b[2]) ** 2
    if p in ("1", "inf"):
        return odist(a, b, dim, cls)
    return odist(a, b, dim, cls) ** pnum(p)      # p = 2 (other classes), 3, 4, …, 0.5, 1.5, …


def acc(p, x, c):
    return max(x, c) if p == "inf" else x + c


def cost_matrix(t1, t2, dim, p, cls="enu"):
    """C[i][j]: rows = track2, columns = track1"""
    return [[ocost(b, a, dim, p, cls) for a in t1] for b in t2]


def optimum(C, p):
    """min over monotone couplings (0,0) -> (n2-1,n1-1), unit steps, of the accumulated cost.
    Enumeration of every coupling when there are few; otherwise a backward (suffix) recursion, which is not the
    implementation's forward table."""
    n2, n1 = len(C), len(C[0])
    if n1 <= 4 and n2 <= 4:
        best = [None]

        def go(i, j, a):
            a = acc(p, a, C[i][j])
            if i == n2 - 1 and j == n1 - 1:
                if best[0] is None or a < best[0]:
                    best[0] = a
                return
            if i + 1 < n2:
                go(i + 1, j, a)
            if j + 1 < n1:
                go(i, j + 1, a)
            if i + 1 < n2 and j + 1 < n1:
                go(i + 1, j + 1, a)
        go(0, 0, 0.0)
        return best[0]
    suf = [[None] * n1 for _ in range(n2)]
    for i in range(n2 - 1, -1, -1):
        for j in range(n1 - 1, -1, -1):
            nx = []
            if i + 1 < n2:
                nx.append(suf[i + 1][j])
            if j + 1 < n1:
                nx.append(suf[i][j + 1])
            if i + 1 < n2 and j + 1 < n1:
                nx.append(suf[i + 1][j + 1])
            suf[i][j] = acc(p, min(nx), C[i][j]) if nx else acc(p, 0.0, C[i][j])
    return suf[0][0]


def coupling_of(pairs):
    """the links (i, j) in the order the matching lists them: observation j of track1 by observation, its partners in order"""
    return [(i, j) for j, l in enumerate(pairs) for i in l]


def check_matching(C, p, out, n1, n2, what, cost=True):
    """the returned matching is a coupling, links everything, and costs `score`"""
    pairs = out["pairs"]
    if len(pairs) != n1:
        return "%s: %d pair lists for %d observations" % (what, len(pairs), n1)
    path = coupling_of(pairs)
    for j, l in enumerate(pairs):
        if not l:
            return "%s: observation %d of track1 is linked to nothing (pairs %s)" % (what, j, pairs)
    linked2 = {i for (i, j) in path}
    for i in range(n2):
        if i not in linked2:
            return "%s: observation %d of track2 is linked to nothing (pairs %s)" % (what, i, pairs)
    for (i, j) in path:
        if not (0 <= i < n2):
            return "%s: link to a non-existent observation %d (pairs %s)" % (what, i, pairs)
    if path[0] != (0, 0):
        return "%s: the matching starts at %s, not at the first pair (pairs %s)" % (what, path[0], pairs)
    if path[-1] != (n2 - 1, n1 - 1):
        return "%s: the matching ends at %s, not at the last pair (pairs %s)" % (what, path[-1], pairs)
    for a, b in zip(path, path[1:]):
        if (b[0] - a[0], b[1] - a[1]) not in ((1, 0), (0, 1), (1, 1)):
            return "%s: the matching is not a monotone unit-step coupling: %s then %s (pairs %s)" % (what, a, b, pairs)
    if out["nb_links"] != len(path):
        return "%s: nb_links = %s but the matching has %d links" % (what, out["nb_links"], len(path))
    if not cost:
        return None
    a = 0.0
    for (i, j) in path:
        a = acc(p, a, C[i][j])
    if not rclose(a, out["score"], TOL):
        return "%s: the returned matching %s costs %r but the reported score is %r" % (what, pairs, a, out["score"])
    return None


class P(Prop):
    id = "C18"
    design_ref = "DESIGN.md section 5, C18"
    theorems = [
        ("TracklibVerif.Props.C18", "TV.C18.table_optimal", "T1: the score _dtw reports (T[-1,-1] of the table the driver runs) is a lower bound of the accumulated cost of every monotone unit-step coupling from the first to the last pair, and some coupling attains it; any accumulation monotone in the accumulated cost, ANY point distance (nothing assumed of it)"),
        ("TracklibVerif.Props.C18", "TV.C18.score_symmetric", "T2: swapping the two tracks gives the same score when the point distance is symmetric (the table is transposed)"),
        ("TracklibVerif.Props.C18", "TV.C18.path_valid", "T3: the list S of the backward walk through M is a monotone unit-step coupling from the last pair to (0,0); nb_links is its length; the 'pair' feature lists exactly its pairs; every observation of both tracks is linked"),
        ("TracklibVerif.Props.C18", "TV.C18.path_realises", "T4: the accumulated cost of the returned coupling equals the reported score (each back-pointer designates a minimal predecessor)"),
        ("TracklibVerif.Props.C18", "TV.C18.weight_mono", "_p2weight(p) is monotone in the accumulated cost for p = 0, 1, 2, 3, ..., inf over an ordered field"),
        ("TracklibVerif.Props.C18", "TV.C18.distance_symm", "_distance (dim 1, 2, 3) on ENUCoords is symmetric over an ordered field, for any sqrt"),
        ("TracklibVerif.Props.C18", "TV.C18.ecefDistance_symm", "ECEFCoords.distanceTo is symmetric, for any sqrt"),
        ("TracklibVerif.Props.C18", "TV.C18.geoDistance3D_symm", "GeoCoords.distanceTo (distance of the ECEF images) is symmetric whatever sin / cos / sqrt / pow compute"),
        ("TracklibVerif.Props.C18", "TV.C18.distanceOf_symm", "_distance is symmetric on ENUCoords for dim 1, 2, 3 and on GeoCoords / ECEFCoords for dim = 3 (not for dim = 2 on GeoCoords: finding geo-2d-distance-asymmetric)"),
        ("TracklibVerif.Props.C18", "TV.C18.distanceOf_nonneg", "_distance is non-negative for every numeric dim on every class of positions when sqrt is"),
        ("TracklibVerif.Props.C18", "TV.C18.distance_enu", "_distance on ENUCoords, dim 1 / 2 / 3: abs(dU), (p2 - p1).norm2D(), (p2 - p1).norm()"),
        ("TracklibVerif.Props.C18", "TV.C18.distance_geo", "_distance on GeoCoords: dim 1 raises AttributeError (no U), dim 2 is distance2DTo (horizontal distance in the local frame of the second point), dim 3 the distance of the ECEF images"),
        ("TracklibVerif.Props.C18", "TV.C18.distance_ecef", "_distance on ECEFCoords: only dim 3 is defined (no U, no distance2DTo: AttributeError)"),
        ("TracklibVerif.Props.C18", "TV.C18.distance_function_form", "the function form of dim: the callable is the point distance, whatever the class of the positions"),
        ("TracklibVerif.Props.C18", "TV.C18.match_distance_error", "where _distance is not defined, match (three modes, any recognised p) on non-empty tracks raises the error of the first _distance call"),
        ("TracklibVerif.Props.C18", "TV.C18.fdtw_equal", "T5: _fdtw (best-first search; the queue only assumed to return an entry of least priority) reports the same score as _dtw, for any accumulation monotone and inflationary on the distances at hand, 'big' above every candidate cost"),
        ("TracklibVerif.Props.C18", "TV.C18.fdtw_path", "T5b: the matching returned by _fdtw (walk through the antecedent map A) is a monotone unit-step coupling whose accumulated cost is the score; pair/nb_links describe it; nobody left out"),
        ("TracklibVerif.Props.C18", "TV.C18.distance_nonneg", "_distance is non-negative when sqrt is"),
        ("TracklibVerif.Props.C18", "TV.C18.weight_infl", "_p2weight(p) is inflationary on non-negative distances for p = 0, 1, 2, 3, ..., inf"),
        ("TracklibVerif.Props.C18", "TV.C18.match_fdtw_correct", "match(track1, track2, FDTW, p, dim) on non-empty tracks over an ordered field, any class of positions and dim with _distance defined and >= 0 (every numeric dim when sqrt >= 0), big above every candidate cost: succeeds, same score as mode DTW, S is a coupling whose cost is the score, pair/nb_links describe S, nobody left out"),
        ("TracklibVerif.Props.C18", "TV.C18.match_onesided", "match(track1, track2, DTW | FRECHET, p, dim) on non-empty tracks over an ordered field, EVERY class of positions and every dim (1, 2, 3, callable) on which _distance is defined: succeeds, score = optimum over couplings, S is a coupling whose cost is the score, pair/nb_links describe S, nobody left out"),
        ("TracklibVerif.Props.C18", "TV.C18.match_correct", "the same plus: when the point distance is symmetric, the swapped call reports the same score"),
        ("TracklibVerif.Props.C18", "TV.C18.match_correct_enu", "match_correct on ENUCoords tracks, dim in {1, 2, 3}, any sqrt, with both hypotheses discharged (the statement of the property as it stood)"),
        ("TracklibVerif.Props.C18", "TV.C18.match_correct_3d", "match_correct on GeoCoords / ECEFCoords tracks with dim = 3, swap clause included"),
        ("TracklibVerif.Props.C18", "TV.C18.p2weight_number", "_p2weight(p) for a number whose type name contains 'int' or 'float' (Python int/float — what match / compare hand over for every numpy scalar since 1f009f6): the accumulation of the VALUE of p (A + B**k, A + (B != 0) for 0, max for inf)"),
        ("TracklibVerif.Props.C18", "TV.C18.p2weight_infinite", "an infinite p gives max(A, B) whatever its type (the test p == float('inf') comes last)"),
        ("TracklibVerif.Props.C18", "TV.C18.p2weight_unrecognised", "_p2weight itself, on a number other than 0 and inf whose type name contains none of int/float/function (bool, numpy.bool, Fraction; numpy.longdouble / longlong / ulonglong no longer reach it through match / compare), leaves `weight` unbound: UnboundLocalError"),
        ("TracklibVerif.Props.C18", "TV.C18.exponent_numpy", "_exponent(p) (first line of match / compare since 1f009f6) of a numpy floating / integer scalar (float16..64, longdouble, int8..uint64, intc, longlong, ulonglong) has the type name of a Python float / int — recognised by _p2weight as a number, not a callable — and the value of p; anything else is passed on unchanged"),
        ("TracklibVerif.Props.C18", "TV.C18.match_any_form", "match(track1, track2, <constant of the mode>, p) with p a number of value v as ANY numpy floating or integer scalar (longdouble, longlong, ulonglong included: false before 1f009f6) or a Python int / float is the call match_correct / match_fdtw_correct are about"),
        ("TracklibVerif.Props.C18", "TV.C18.match_numpy_scalar", "match / compare (every mode constant, every track1) with p a numpy floating (integer) scalar return exactly what they return with float(p) (int(p))"),
        ("TracklibVerif.Props.C18", "TV.C18.match_numpy_scalar_old", "about matchCallOld, the documented pre-fix variant of match (no _exponent): numpy.longdouble(2) / longlong(2) / ulonglong(2) made the modes DTW / FDTW raise UnboundLocalError"),
        ("TracklibVerif.Props.C18", "TV.C18.match_numpy_scalar_real", "the same for the front ends the driver runs (matchCallX / compareCallX, p any positive number): a numpy scalar p = x gives the result of the Python number x; for x not a natural number _p2weight receives a Python float (hp of match_real_correct holds for numpy.float16(1.5), numpy.longdouble(2.5), ...)"),
        ("TracklibVerif.Props.C18", "TV.C18.match_callable_form", "a callable p computing the accumulation of v (lambda, builtin max) is the same call as the number v"),
        ("TracklibVerif.Props.C18", "TV.C18.match_unknown_mode", "a constant that is not a matching mode is refused (UnknownModeError)"),
        ("TracklibVerif.Props.C18", "TV.C18.match_history_irrelevant", "match(m, track2) in the modes DTW / FRECHET, where m carries the feature rows of an earlier matching (or user features under the same names), returns exactly match(track1, track2) on the same positions without features"),
        ("TracklibVerif.Props.C18", "TV.C18.match_fdtw_history", "the same for FDTW under the hypotheses of match_fdtw_correct"),
        ("TracklibVerif.Props.C18", "TV.C18.session_history_irrelevant", "a whole session of match / compare calls (DTW, FRECHET) on shared objects, results reused as first or second argument: every call returns what it returns on copies that never went through match"),
        ("TracklibVerif.Props.C18", "TV.C18.links_read_back", "reading the pair lists of the returned track observation by observation gives exactly the coupling S, first pair first (same pairs, order, multiplicity); the number of stored links is nb_links"),
        ("TracklibVerif.Props.C18", "TV.C18.features_read_back", "on the track _dtw returns, observation j holds in pair its partners in coupling order and in diff / ex / ey the distance and coordinate differences to the LAST of them"),
        ("TracklibVerif.Props.C18", "TV.C18.fdtw_links_read_back", "the same for _fdtw under the hypotheses of fdtw_equal"),
        ("TracklibVerif.Props.C18", "TV.C18.compare_value", "compare(track1, track2, DTW | FDTW | FRECHET, p) is match followed by: the score for FRECHET, p = inf, p = 0; (score/nb_links)**(1/p) otherwise; errors are those of match"),
        ("TracklibVerif.Props.C18", "TV.C18.compare_correct", "compare in the modes DTW / FRECHET on non-empty tracks over an ordered field: succeeds; FRECHET / p = inf: the discrete Frechet distance (least over couplings of the largest link); finite p: (score/nb_links)**(1/p) with score the optimum and max(n1,n2) <= nb_links <= n1+n2-1 the length of the returned optimal coupling"),
        ("TracklibVerif.Props.C18", "TV.C18.compare_fdtw_correct", "compare in the mode FDTW under the hypotheses of match_fdtw_correct: succeeds; the value is cmpValue of a coupling whose score is the optimum (p = inf: the discrete Frechet distance; finite p: (score/nb_links)**(1/p), max(n1,n2) <= nb_links <= n1+n2-1)"),
        ("TracklibVerif.Props.C18", "TV.C18.compare_mean_power", "with exact arithmetic (root k a k-th root on non-negative numbers) compare(DTW, p = k)**k * nb_links = score = least sum of d**k over all couplings"),
        ("TracklibVerif.Props.C18", "TV.C18.cost_unit_invariant", "every point distance multiplied by c > 0: _dtw returns the same coupling, nb_links and pair lists, the score multiplied by c**p (c for p = inf, 1 for p = 0): no absolute quantity enters the computation"),
        ("TracklibVerif.Props.C18", "TV.C18.unit_invariant", "ENUCoords, dim 1/2/3: every coordinate of both tracks multiplied by c > 0 (another unit) gives the same coupling and the score multiplied by c**p, for a homogeneous sqrt (the real one; in floats exactly for c a power of two)"),
        ("TracklibVerif.Props.C18", "TV.C18.costBack_nonneg", "accumulated costs are non-negative when the point distance is"),
        ("TracklibVerif.Props.C18", "TV.C18.npow_nonneg", "B**k >= 0 for B >= 0"),
        ("TracklibVerif.Props.C18", "TV.C18.front_ends_agree", "the front ends the driver runs (matchCallX / compareCallX / runSeqX of Model/DTWReal.lean, exponent any positive number) are matchCall / compareCall / runSeq on every p whose value is a natural number or infinity: the theorems above are about what is run"),
        ("TracklibVerif.Props.C18", "TV.C18.p2weight_real", "_p2weight(p) for p = x > 0 not a natural number: A + B**x for a type name containing int / float (Python float: what it receives for every numpy floating scalar) and for a callable computing it; UnboundLocalError for other types (Fraction, Decimal)"),
        ("TracklibVerif.Props.C18", "TV.C18.weightX_mono", "A + B**x is monotone in the accumulated cost whatever B**x is"),
        ("TracklibVerif.Props.C18", "TV.C18.match_real_correct", "match(track1, track2, DTW, p = x) for x > 0 not a natural number (a Python / numpy float of any precision or a callable: hp is about _exponent(p)), any class of positions and dim with _distance defined, WHATEVER B**x computes: succeeds, score = least sum of d**x over all couplings (the cost table holds the accumulated costs as computed, also for integer point distances), S is a coupling whose cost is the score, pair/nb_links describe S, nobody left out, swapped call same score when the distance is symmetric"),
        ("TracklibVerif.Props.C18", "TV.C18.match_fdtw_real_correct", "match(..., FDTW, p = x): same score as DTW and a coupling realising it, when B**x >= 0 on non-negative distances (the real power function is) and big is above every candidate cost"),
        ("TracklibVerif.Props.C18", "TV.C18.compare_real_value", "compare(DTW | FDTW, p = x) is match followed by (score/nb_links)**(1.0/x); errors are those of match"),
        ("TracklibVerif.Props.C18", "TV.C18.cost_unit_invariant_real", "every point distance multiplied by c > 0, accumulation A + B**x: same coupling, score multiplied by c**x, for a power function multiplicative at c (the real one; exact arithmetic)"),
        ("TracklibVerif.Props.C18", "TV.C18.session_history_irrelevant_real", "session_history_irrelevant for the sessions the driver runs (runSeqX: p any positive number in any form), whatever B**x computes"),
        ("TracklibVerif.Props.C18", "TV.C18.match_real_history", "matchCallX (any p, modes DTW / FRECHET) on a track1 carrying the feature rows of an earlier matching returns what it returns on the same positions without features"),
        ("TracklibVerif.Props.C18Fast", "TV.C18.session_history_irrelevant_fdtw", "sessions in EVERY mode, the fast variant (3 / 107) included (runSeqX: any constants, any exponent in any form, any dim): when every FDTW call is one the fast variant is good for (FastCallOK: the accumulation _p2weight returns is monotone and inflationary on the point distances of the two tracks and big above every candidate cost — or just big above the accumulated cost of every partial coupling), every call returns what it returns on copies that never went through match"),
        ("TracklibVerif.Props.C18Fast", "TV.C18.match_fdtw_history_any", "match(m, track2, FDTW, p, dim) on a track m carrying the feature rows of an earlier matching is match on the same positions without features, for p in ANY form (numpy scalar, callable, exponent not a natural number) — generalises match_fdtw_history"),
        ("TracklibVerif.Props.C18Fast", "TV.C18.fast_call_ok", "FastCallOK over an ordered field, whatever the form of p: it holds when _distance is non-negative, B**x >= 0 on B >= 0 (only used for an exponent that is not a natural number) and big is above every candidate cost"),
        ("TracklibVerif.Props.C18Fast", "TV.C18.session_history_irrelevant_all", "session_history_irrelevant_fdtw with the hypotheses of match_fdtw_correct / match_fdtw_real_correct spelt out for the FDTW calls (non-negative distance, B**x >= 0, big above the candidate costs of every pair of tracks of the session)"),
        ("TracklibVerif.Props.C18Fast", "TV.C18.fdtw_path_any", "T5b for ANY accumulation and ANY point distance (callable p of any shape, negative values of a callable dim, B**p wrapped in int64): when big (1e300) is above the accumulated cost of every partial coupling, _fdtw succeeds, its matching is a monotone unit-step coupling from the first to the last pair whose accumulated cost IS the reported score, pair/nb_links describe it, nobody left out (structural invariant of the best-first search, Lemmas/FDTWStruct.lean; optimality is fdtw_equal)"),
        ("TracklibVerif.Props.C18Fast", "TV.C18.fast_call_ok_any", "FastCallOK (the hypothesis of session_history_irrelevant_fdtw / match_fdtw_history_any) holds as soon as big is above every partial coupling cost, whatever _p2weight and _distance return: no monotonicity, no sign condition"),
        ("TracklibVerif.Props.C18Fast", "TV.C18.fast_hyp_check_sound", "the executable monitor the driver runs on every generated single call of the modes DTW / FDTW (C18.hyp, fastHypCheck in Float with B**x = Float.pow: every point distance >= 0, weight(0, B) >= 0, every candidate cost weight(T[i,j], D[i',j']) < 1e300) is sound: when it accepts, the hypotheses of fdtw_equal / match_fdtw_correct / match_fdtw_real_correct / session_history_irrelevant_fdtw hold, for every accumulation _p2weight can return"),
        ("TracklibVerif.Props.C18Int64", "TV.C18.int64_power", "B**k on numpy.int64 (k wrapped multiplications, any order) is the exact power reduced modulo 2^64 into [-2^63, 2^63), and the exact power when 0 <= B and B^k < 2^63"),
        ("TracklibVerif.Props.C18Int64", "TV.C18.int64_power_bounds", "B**2 fits int64 for 0 <= B <= 3037000499, B**3 for 0 <= B <= 2097151; 3037000500**2 and 2097152**3 already wrap to negative numbers"),
        ("TracklibVerif.Props.C18Int64", "TV.C18.match_fdtw_int64_exact", "match(track1, track2, FDTW, p = k >= 1, dim) on numpy.int64 coordinates (matchFdtw64: B**k in int64) returns exactly what it returns on float / Python-int coordinates when every point distance B between the two tracks is a non-negative integer with B^k < 2^63"),
        ("TracklibVerif.Props.C18Int64", "TV.C18.match_fdtw_int64_correct", "under that bound (and the hypotheses of match_fdtw_correct) the int64 run succeeds, reports the score of mode DTW = the least sum of d^k over all couplings, and its S is a coupling realising it"),
        ("TracklibVerif.Props.C18Int64", "TV.C18.match_fdtw_int64_any", "above the bound the int64 run still succeeds and returns a coupling linking everyone whose accumulated cost — the sum of the WRAPPED B**k along it — is the reported score (big above the wrapped partial costs): what is lost is optimality with respect to the true powers"),
        ("TracklibVerif.Props.C18Int64", "TV.C18.fdtw_int64_witness", "the witness of the finding fdtw-numpy-int-coordinates-power-overflow PROVED in the model: heights 0, 2200000 against 0, 0, p = 3, dim = 1: the int64 run returns -15597488147419103232 with the coupling [[0],[0,1]] (2200000**3 wraps to -7798744073709551616), the run on float coordinates 10648000000000000000 with [[0],[1]]"),
    ]
    partial = []
    open_statements = ["IEEE rounding: the theorems are over a linear order / ordered field; on the float runs the oracle compares with relative tolerance 1e-9 (no absolute tolerance: the check is the same in every unit of the coordinates)",
                       "sessions that include the FDTW modes (3 / 107) are covered by session_history_irrelevant_fdtw / session_history_irrelevant_all when every FDTW call is one the fast variant is good for (FastCallOK: the hypotheses of match_fdtw_correct, or merely 1e300 above the accumulated cost of every partial coupling — fdtw_path_any, any accumulation); when accumulated costs reach 1e300 (a first candidate cost not below the placeholder priority is never recorded: KeyError in the backward walk) nothing is claimed of FDTW, histories included",
                       "numpy.int64 coordinates (finding fdtw-numpy-int-coordinates-power-overflow): Model/DTWInt64.lean models B**p in int64 for match() in the mode FDTW with dim = 1 or a callable returning numpy.int64; match_fdtw_int64_exact gives the bound on the point distances under which it is exact; above it the driver's int64 run (C18.match64) is compared with the real code (correspondence only: the property is violated there). Not modelled: compare() on such inputs ((negative score / nb_links)**(1/p) = nan), the non-symmetric callable fn.lead (int64 or float distance depending on the pair), int64 overflow of the coordinate differences themselves (|z1 - z2| >= 2^63), the rounding of the wrapped integers to float64 in the cost table (theorems over an ordered field)",
                       "the swap clause on GeoCoords tracks with dim = 2 is false for fixes of different heights (finding geo-2d-distance-asymmetric): match_onesided is what holds there",
                       "exponents that are not natural numbers (p = 0.5, 1.5, ...): B**x is a parameter of the model (Float.pow in the driver); match_real_correct holds for any such function, match_fdtw_real_correct needs B**x >= 0 on B >= 0 — checked of Float.pow on the distances of every generated single call by the monitor C18.hyp (fast_hyp_check_sound), together with 'every candidate cost below 1e300'; unit_invariant (coordinates multiplied by c) is stated for natural exponents and infinity only (cost_unit_invariant_real is the statement on the point distances for the other exponents)",
                       "an exponent p given as a numpy scalar is judged as the Python number of the same value (1f009f6); the model carries the value of p exactly, so a numpy.float16 / float32 p whose value is not the decimal the caller wrote (float16(0.1)) is the number it holds; compare() for a finite p, (score/nb_links)**(1/p), is compared with the model only (not part of the statement)",
                       "a negative or NaN exponent, a dim other than 1, 2, 3 or a callable (`_distance` returns None), tracks whose positions are of two different classes, and STANDARD_PROJ = 2 are neither modelled nor generated"]
    modelled = ("algo/comparison.py: match and compare as called — dispatch on the integer mode constants (2/3/4, 106/107/108; UnknownModeError otherwise), "
                "_exponent (first line of both since 1f009f6: float(p) / int(p) for a numpy floating / integer scalar, decided on str(type(p)); anything else unchanged), "
                "_dtw_matching / _fdtw_matching, _p2weight as its cascade of four tests on (str(type(p)), value of p) with UnboundLocalError when none fires, "
                "for p = 0, 1, 2, 3, ... and inf in every Python / numpy scalar type and as a callable, and (Model/DTWReal.lean: the front ends the driver runs) "
                "for any other positive number p = x (A + B**x, x**(1.0/p) in compare; B**x a parameter, Float.pow in the driver); the cost tables T of _dtw / _fdtw hold the accumulated costs as "
                "computed (np.zeros: floats), for integer point distances too; _distance as its dispatch on dim (1 / 2 / 3 / callable) and on the "
                "class of the positions — ENUCoords (abs(dU), norm2D, norm), GeoCoords (AttributeError, distance2DTo = toENUCoords(point).norm2D(), distanceTo through "
                "toECEFCoords; conversions of Model/Geo.lean), ECEFCoords (AttributeError twice, distanceTo) — with the order of the errors (empty tracks first); "
                "_dtw (distance matrix, first row/column, forward step, predecessor encoding, backward walk), _fdtw + _update_node "
                "(priority_dict.pop_smallest as 'least (priority, key)'), _fillAF_dtw on output = track1.copy() carrying the feature rows of an earlier "
                "matching (createAnalyticalFeature no-op, reset of every pair list, then diff/pair/ex/ey/nb_links/score), _dtw_comparison / _fdtw_comparison "
                "((score/nb_links)**(1/p), the TypeError of the fast variant on a callable p); sessions of calls on shared objects (runSeq); "
                "Model/DTWInt64.lean: _fdtw on ENUCoords tracks whose coordinates are numpy.int64 — the point distance handed to `lambda A, B: A + B**p` is a numpy.int64 "
                "and B**p is evaluated in int64 (wrap64 / ipow64: products reduced modulo 2^64), added to the float cell A (matchFdtw64; run by the driver as C18.match64)")
    rule = ("exhaustive: all ordered pairs of small tracks on the lattices {0,1}^2 (dim 2), {0,1,2} (dim 1) and {0,1,2}^2 (dim 2) "
            "(sizes per tier in exhaustive_scopes), each with p = 1, 2, inf, the swapped call and the FDTW score; random: sizes 1..8 (10% up to 12), "
            "integer / half-integer lattices, axis-aligned integer tracks (exact ties in every dim), general floats, projected survey coordinates (offsets 6e5 / 5e6, points up to 2 km apart) and (sessions) tracks 1e4..1e7 apart; "
            "the same shapes in every unit: walks whose unit is 1e-6 .. 1e7 (origin up to 1000 units away), lattices scaled by 2^-20 .. 2^23 (ties survive), and `neardup` walks where four steps in ten are 1e-3 .. 1e-9 of a unit "
            "(or one ulp) — consecutive fixes that differ by less than any fixed tolerance — and one in ten repeats the fix; positions of class ENUCoords (83%), GeoCoords (12%: lon/lat walks of 1e-5 .. 1e-3 degree per step, "
            "steps down to 1e-9 degree, equal heights where the swapped call is compared) and ECEFCoords (5%), including the dim for which _distance is not defined on the class (AttributeError: correspondence only); dim as 1/2/3 or "
            "(one call in ten) in its function form (Manhattan, Chebyshev, a non-symmetric callable: no swap clause for that one); coordinates as Python floats, Python ints, numpy.int64 or numpy.float64, modes DTW/FDTW/FRECHET, "
            "one case in ten through compare(). Sessions (kind seq): 1..4 calls of match / compare on 2..4 shared tracks, the first or second argument being "
            "a track or what an earlier match returned (55% / 20%), 12% of the tracks already carrying diff/pair/ex/ey features (lists, scalars, a subset); "
            "p = 0, 1, 2, 3, inf in every form (Python int/float, numpy int8..64 / uint8..64 / intc / longlong / ulonglong / float16..64 / longdouble, math.inf / numpy.inf / numpy.longdouble(inf), "
            "lambda, builtin max, omitted) — in every mode, front end and dim: a numpy scalar p is judged by the oracle as the Python number of the same value —, mode constants as int / numpy.int64 / float / omitted / a constant of the other front end, dim as int / numpy.int64 / "
            "float / omitted, verbose False / True / omitted, keyword or positional; exhaustive: a matched track matched again for every pair of modes, "
            "every form of p on fixed pairs; whole-number tracks of every size up to 3e6 handed over as Python ints (style bigint, and three fixed pairs x every numpy integer type of p x p = 1, 2, 3 x DTW / FDTW x match / compare x dim 1 / Manhattan callable): "
            "integer point distances whose p-th power exceeds the range of the type of p; exponents that are not natural numbers (0.5, 1.5, 2.5, 0.75, 3.25 as Python float, numpy.float16 / float32 / float64 / longdouble or a lambda; 15% of the random calls, "
            "exhaustively on the 1-D lattice {0,1,2} and with a Manhattan callable on {0,1}^2) and whole-number coordinates handed over as Python ints (30% of the lattice / axis-aligned "
            "single calls, the exhaustive non-integer-exponent scopes, sessions): point distances that are Python ints for dim = 1 and the integer callables. numpy.int64 coordinates at the int64 bounds of B**p (5 fixed pairs with point distances 2097151 / 2097152 / 2097157 / 2200000 / 3037000499 / 3037000500 x p = 2, 3 x dim 1 / Manhattan / Chebyshev x DTW / FDTW x match / compare): below the bound judged like any call, above it (class fdtw-numpy-int-coordinates-power-overflow, generated while listed) the match() result is compared with the int64 model. The oracle recomputes the optimum for the requested p on the positions of the objects involved and validates "
            "every returned matching (for p = 0, where 0**0 is a convention, only the matching). "
            "non-trivial = both tracks have at least 2 observations (a three-way minimum and a back-pointer choice exist); "
            "the input histogram counts the cases where two least predecessors tie")
    trusted = ["priority_dict (heapq with lazy deletion) is modelled by its contract: pop_smallest returns an entry with the least (priority, key)",
               "numpy float64 `**` and Python float `**` with an integer-valued exponent are modelled by repeated `*` (compared with relative tolerance 1e-9); x**(1.0/k) by sqrt for k = 2 and libm pow otherwise; `B**x` for an exponent that is not a natural number (Python int / float / numpy.float64 base) by Lean's Float.pow, the same libm pow",
               "str(type(p)) is computed by the harness on the object it hands to tracklib and passed to the model (blanks removed); the substring tests are the model's; isinstance(p, numpy.floating) / isinstance(p, numpy.integer) of _exponent are modelled by membership of that name in the list of the names numpy prints for its floating / integer scalar types (float16/32/64, longdouble, float128/96; int8..64, uint8..64, longlong, ulonglong, intc, uintc, long, ulong)",
               "the function form of dim is modelled by the function the callable computes (three callables, written once in Python and once in the driver); `'function' in str(type(dim))` is not re-tested by the model",
               "on GeoCoords tracks the oracle takes the point distances from the position objects (GeoCoords.distance2DTo / distanceTo called directly, not through _distance): the geodesy is C14's business, the optimum over couplings is recomputed independently",
               "int64 arithmetic of numpy scalars (`numpy.int64 ** int`: no exception, the result modulo 2^64) is modelled by wrap64 / ipow64; the driver reads the integer a float distance holds with Float.toInt64 and converts the wrapped power with Float.ofInt (round to nearest, as numpy's int64 -> float64)",
               "Lean Float.sin / cos / atan2 / pow / sqrt and Python's math functions are the same libm (the driver's GeoCoords distances agree with tracklib's within the 1e-9 relative tolerance on every generated input, fixes 1e-9 degree apart included)"]

    def setup(self):
        from tracklib.core.obs_coords import ENUCoords
        from tracklib.core.obs import Obs
        from tracklib.core.obs_time import ObsTime
        from tracklib.core.track import Track
        import tracklib.algo.comparison as C
        import numpy as np
        self.C = C
        self.np = np
        from tracklib.core.obs_coords import GeoCoords, ECEFCoords
        self.COORDS = {"enu": ENUCoords, "geo": GeoCoords, "ecef": ECEFCoords}
        self.mk = lambda tr, cls="enu": Track([Obs(self.COORDS[cls](x, y, z), ObsTime()) for (x, y, z) in pts(tr)])
        # inputs of a listed (unrepaired) finding are generated only while it is listed: see classify()
        self.listed = {e.get("class") for e in load_known(self.id) if e.get("status") == "finding"}
        self.MM = {"dtw": C.MODE_MATCHING_DTW, "fdtw": C.MODE_MATCHING_FDTW, "frechet": C.MODE_MATCHING_FRECHET}
        self.CM = {"dtw": C.MODE_COMPARISON_DTW, "fdtw": C.MODE_COMPARISON_FDTW, "frechet": C.MODE_COMPARISON_FRECHET}

    # ---------------------------------------------------------------- generators
    def exhaustive_scopes(self, tier):
        if tier == "thorough":
            return ["mode DTW (with the FDTW score and the swapped score), p in {1,2,inf}: all ordered pairs of tracks of sizes 1..4 on the lattice {0,1}^2, dim 2 (340^2 pairs)",
                    "same, all ordered pairs of tracks of sizes 1..4 on the 1-D lattice {0,1,2}, dim 1 (120^2 pairs)",
                    "same, all ordered pairs of tracks of sizes 1..3 on the lattice {0,1,2}^2, dim 2, track1 up to the 8 symmetries of the square",
                    "modes FDTW and FRECHET: all ordered pairs of tracks of sizes 1..3 on {0,1}^2 (dim 2) and on the 1-D lattice {0,1,2} (dim 1)",
                    "a matched track matched again, m = match(t1, t2, modeA, pA); match(m, t3, modeB, pB): every pair of modes (9), (pA, pB) in {(1,1), (2,inf), (inf,2)}, all ordered pairs (t1, t2) of sizes 1..3 on the 1-D lattice {0,1,2}, t3 = mirror image of t2 + one point",
                    "every form of p (18 forms of 0, 1, 2, 3 — Python int / float, every numpy integer and floating scalar type incl. longlong, ulonglong, longdouble, a lambda; 9 forms of inf) x {DTW, FDTW} x {match, compare} on 6 fixed pairs of tracks (dim 1, 2, 3; with and without ties)",
                    "integer point distances whose powers leave the range of the type of p: 3 fixed pairs of whole-number height profiles (Python ints, differences up to 3e6) x p in {1, 2, 3} as Python int and as each of 11 numpy integer types x {DTW, FDTW} x {match, compare} x dim in {1, Manhattan callable}",
                    "function form of dim (3 callables: Manhattan, Chebyshev, a non-symmetric one), mode DTW, p in {1,2,inf}: all ordered pairs of tracks of sizes 1..3 on the lattice {0,1}^2",
                    "positions of class GeoCoords (4 fixed pairs) and ECEFCoords (2 fixed pairs) x dim in {1, 2, 3, 3 callables} x {DTW, FDTW, FRECHET} x {match with p in {1,2,inf}, compare with p = 2}",
                    "exponents that are not natural numbers on integer point distances (coordinates handed over as Python ints), mode DTW with the FDTW and the swapped score: p in {0.5, 1.5}, all ordered pairs of tracks of sizes 1..3 on the 1-D lattice {0,1,2}, dim 1; p = 2.5, sizes 1..4; p = 1.5, Manhattan callable, sizes 1..2 on {0,1}^2; p = 0.5, Chebyshev callable, sizes 1..3 on {0,1}^2",
                    "p in {0.5, 1.5, 2.5} as Python float / numpy.float16 / float32 / float64 / longdouble / lambda x {DTW, FDTW} x {match, compare} on the 6 fixed pairs, the lattice ones also with int coordinates",
                    I64_SCOPE]
        return ["mode DTW (with the FDTW score and the swapped score), p in {1,2,inf}: all ordered pairs of tracks of sizes 1..3 on the lattice {0,1}^2, dim 2 (84^2 pairs)",
                "same, all ordered pairs of tracks of sizes 1..3 on the 1-D lattice {0,1,2}, dim 1 (39^2 pairs)",
                "same, all ordered pairs of tracks of sizes 1..2 on the lattice {0,1,2}^2, dim 2 (90^2 pairs)",
                "modes FDTW and FRECHET: all ordered pairs of tracks of sizes 1..3 on the 1-D lattice {0,1,2}, dim 1",
                "a matched track matched again, m = match(t1, t2, modeA, pA); match(m, t3, modeB, pB): every pair of modes (9), (pA, pB) in {(1,1), (2,inf), (inf,2)}, all ordered pairs (t1, t2) of sizes 1..2 on the 1-D lattice {0,1,2}, t3 = mirror image of t2 + one point",
                "every form of p (18 forms of 0, 1, 2, 3 — Python int / float, every numpy integer and floating scalar type incl. longlong, ulonglong, longdouble, a lambda; 9 forms of inf) x {DTW, FDTW} x {match, compare} on 6 fixed pairs of tracks (dim 1, 2, 3; with and without ties)",
                    "integer point distances whose powers leave the range of the type of p: 3 fixed pairs of whole-number height profiles (Python ints, differences up to 3e6) x p in {1, 2, 3} as Python int and as each of 11 numpy integer types x {DTW, FDTW} x {match, compare} x dim in {1, Manhattan callable}",
                "function form of dim (3 callables: Manhattan, Chebyshev, a non-symmetric one), mode DTW, p in {1,2,inf}: all ordered pairs of tracks of sizes 1..2 on the lattice {0,1}^2",
                "positions of class GeoCoords (4 fixed pairs) and ECEFCoords (2 fixed pairs) x dim in {1, 2, 3, 3 callables} x {DTW, FDTW, FRECHET} x {match with p in {1,2,inf}, compare with p = 2}",
                "exponents that are not natural numbers on integer point distances (coordinates handed over as Python ints), mode DTW with the FDTW and the swapped score: p in {0.5, 1.5}, all ordered pairs of tracks of sizes 1..3 on the 1-D lattice {0,1,2}, dim 1; p = 1.5, Manhattan callable, sizes 1..2 on {0,1}^2",
                "p in {0.5, 1.5, 2.5} as Python float / numpy.float16 / float32 / float64 / longdouble / lambda x {DTW, FDTW} x {match, compare} on the 6 fixed pairs, the lattice ones also with int coordinates",
                I64_SCOPE]

    @staticmethod
    def sym_canon(t, g=3):
        """is the digit string t the least among its images under the 8 symmetries of the g x g lattice?"""
        def img(k, s):
            x, y = k // g, k % g
            if s & 1:
                x = g - 1 - x
            if s & 2:
                y = g - 1 - y
            if s & 4:
                x, y = y, x
            return x * g + y
        return all(t <= "".join(str(img(int(c), s)) for c in t) for s in range(1, 8))

    def cases(self, rng, tier):
        out = []
        th = tier == "thorough"

        def allpairs(g, npts, maxn, dim, mode, ps, canon=False, ct=None):
            ts = lat_tracks(npts, maxn)
            for a in ts:
                if canon and not self.sym_canon(a, g):
                    continue
                for b in ts:
                    out.append({"kind": "m", "mode": mode, "ps": ps, "dim": dim, "a": "%d:%s" % (g, a), "b": "%d:%s" % (g, b),
                                **({"ct": ct} if ct else {})})
        # exhaustive lattices. 1-D lattice {0,1,2}: digits 0..2 of a '3:' string are the points (0, k, k), seen with dim = 1
        allpairs(2, 4, 4 if th else 3, 2, "dtw", PS)
        allpairs(3, 3, 4 if th else 3, 1, "dtw", PS)
        if th:
            allpairs(3, 9, 3, 2, "dtw", PS, canon=True)
            allpairs(2, 4, 3, 2, "fdtw", PS)
            allpairs(2, 4, 3, 2, "frechet", ["inf"])
        else:
            allpairs(3, 9, 2, 2, "dtw", PS)
        allpairs(3, 3, 3, 1, "fdtw", PS)
        allpairs(3, 3, 3, 1, "frechet", ["inf"])
        # exponents that are not natural numbers, on point distances that are Python ints (coordinates handed over as ints; dim = 1,
        # or a callable summing coordinate differences): B**p is not an integer although B is
        allpairs(3, 3, 3, 1, "dtw", ["0.5", "1.5"], ct="int")
        allpairs(2, 4, 2, "fn.manh", "dtw", ["1.5"], ct="int")
        if th:
            allpairs(3, 3, 4, 1, "dtw", ["2.5"], ct="int")
            allpairs(2, 4, 3, "fn.cheb", "dtw", ["0.5"], ct="int")
        # the function form of `dim` (three callables) on the lattice {0,1}^2; every class of positions x every dim x every mode
        for fn in sorted(DIMFN):
            allpairs(2, 4, 3 if th else 2, fn, "dtw", PS)
        for cls, pairs in (("geo", GEO_FIXED), ("ecef", ECEF_FIXED)):
            for (a, b) in pairs:
                for dim in (1, 2, 3) + tuple(sorted(DIMFN)):
                    for mode in ("dtw", "fdtw", "frechet"):
                        out.append({"kind": "m", "mode": mode, "ps": ["inf"] if mode == "frechet" else PS, "dim": dim, "a": a, "b": b, "cls": cls})
                        out.append({"kind": "cmp", "mode": mode, "p": "2", "dim": dim, "a": a, "b": b, "cls": cls})
        # random
        nrand = 40000 if th else 5000
        for k in range(nrand):
            r = rng.random()
            hi = 8 if r < 0.9 else 12
            n1, n2 = rng.randint(1, hi), rng.randint(1, hi)
            style = rng.choice(["lat3", "lat3", "lat2", "half", "float", "line", "utm", "walk", "neardup", "neardup", "slat"])
            dim = rng.choice([1, 2, 2, 3])
            mode = rng.choice(["dtw", "dtw", "fdtw", "frechet"])
            ps = ["inf"] if mode == "frechet" else [rng.choice(PS)]
            if mode != "frechet" and rng.random() < 0.15:
                ps = [rng.choice(FRAC_PS)]
            cls, dim, style = self.rand_positions(rng, dim, style, single=(k % 10 != 9))
            fr = self.rand_frame(rng, style)
            a = self.rand_track(rng, n1, style, fr)
            b = self.rand_track(rng, n2, style, fr)
            extra = {} if cls == "enu" else {"cls": cls}
            if cls == "enu" and style in ("lat3", "lat2", "line") and rng.random() < 0.3:
                extra["ct"] = rng.choice(["int", "int", "np.int64"])      # whole-number coordinates handed over as Python ints / numpy.int64
            if k % 10 == 9:
                out.append({"kind": "cmp", "mode": mode, "p": ps[0], "dim": dim, "a": a, "b": b, **extra})
            else:
                out.append({"kind": "m", "mode": mode, "ps": ps, "dim": dim, "a": a, "b": b, **extra})
        out += self.seq_cases(rng, tier)
        return out

    # ---------------------------------------------------------------- sessions: histories, argument forms, front ends
    @staticmethod
    def step(f, a, b, mode, p, pf="int", dim=2, mf="const", df="int", vb="F", st="kw"):
        """one call of a session: f = m (match) | c (compare); a, b = 't<k>' (track k) | 'r<k>' (what step k returned);
        mode = dtw | fdtw | frechet | bad (a constant of the other front end); mf = how the constant is passed
        (const | np | float | default); p = '0' '1' '2' '3' 'inf' in the form pf (FIN_FORMS / INF_FORMS / default);
        dim in the form df (int | np | float | default); vb = verbose F | T | default; st = kw | pos"""
        return {"f": f, "a": a, "b": b, "mode": mode, "mf": mf, "p": p, "pf": pf, "dim": dim, "df": df, "vb": vb, "st": st}

    def seq_cases(self, rng, tier):
        out = []
        th = tier == "thorough"
        modes = ["dtw", "fdtw", "frechet"]
        # (S1) a matched track matched again: every pair of modes, three pairs of exponents, all pairs of small lattice tracks
        ts = lat_tracks(3, 3 if th else 2)
        for a in ts:
            for b in ts:
                c = "".join(str(2 - int(ch)) for ch in b) + "1"
                for mA in modes:
                    for mB in modes:
                        for (pA, pB) in (("1", "1"), ("2", "inf"), ("inf", "2")):
                            out.append({"kind": "seq", "tracks": ["3:" + a, "3:" + b, "3:" + c], "pre": ["none"] * 3,
                                        "steps": [self.step("m", "t0", "t1", mA, pA, "int" if pA != "inf" else "float", 1),
                                                  self.step("m", "r0", "t2", mB, pB, "int" if pB != "inf" else "float", 1)]})
        # (S2) every form of p, every value, both front ends, DTW and FDTW, on fixed pairs of tracks
        fixed = [("3:0120", "3:1021", 1), ("3:048", "3:6420", 2), ("2:0132", "2:31", 2),
                 ([[0, 0, 0], [1, 0, 0.5], [2, 0.5, 1], [3, 0, 0], [4, 0.25, 2]], [[0, 1, 0], [1.5, 1, 1], [3, 1.25, 0], [4.25, 1, 3]], 2),
                 ([[0.1, 0.2, 0.3], [1.3, -0.7, 0.9], [2.2, 0.4, -1.1]], [[0.3, 0.1, 0.2], [0.9, 1.1, 0.8], [2.5, 0.2, 0.1], [2.9, -0.3, 1.7]], 3),
                 ([[0, 0, 3.5], [0, 0, 1.25], [0, 0, 2.75], [0, 0, 0.5]], [[0, 0, 1.5], [0, 0, 3.0], [0, 0, 0.25]], 1)]
        forms = [(p, pf) for p in ("0", "1", "2", "3") for pf in FIN_FORMS] + [("inf", pf) for pf in INF_FORMS]
        forms += [(p, pf) for p in ("0.5", "1.5", "2.5") for pf in FRAC_FORMS]
        for (a, b, dim) in fixed:
            for (p, pf) in forms:
                for mode in ("dtw", "fdtw"):
                    for f in ("m", "c"):
                        out.append({"kind": "seq", "tracks": [a, b], "pre": ["none", "none"],
                                    "steps": [self.step(f, "t0", "t1", mode, p, pf, dim)]})
                        if isinstance(a, str) and (is_frac(p) or pf in ("int", "float", "fn", "max")):
                            # the same call on the same lattice tracks with the coordinates handed over as Python ints
                            out.append({"kind": "seq", "ct": "int", "tracks": [a, b], "pre": ["none", "none"],
                                        "steps": [self.step(f, "t0", "t1", mode, p, pf, dim)]})
        # (S2b) integer point distances (heights handed over as Python ints, dim = 1 or a callable of the harness) whose powers exceed
        # the small numpy integer types, p = 1, 2, 3 as every numpy integer type, DTW and FDTW, both front ends
        for (a, b) in BIGINT_FIXED:
            for p in ("1", "2", "3"):
                for pf in ["int"] + sorted(NPINT_MAX):
                    for mode in ("dtw", "fdtw"):
                        for f in ("m", "c"):
                            for dim, df in ((1, "int"), ("fn.manh", "fn")):
                                out.append({"kind": "seq", "ct": "int", "tracks": [a, b], "pre": ["none", "none"],
                                            "steps": [self.step(f, "t0", "t1", mode, p, pf, dim, df=df)]})
        # (S2c) numpy.int64 coordinates with point distances at the int64 bound of B**p (B <= 3037000499 for p = 2, B <= 2097151 for p = 3:
        # TV.C18.int64_power_bounds): below it FDTW is exact (match_fdtw_int64_exact), above it the call belongs to the listed class
        # fdtw-numpy-int-coordinates-power-overflow (generated only while it is listed) and is compared with the int64 model
        for (a, b) in I64_FIXED:
            for p in ("2", "3"):
                for dim, df in ((1, "int"), ("fn.manh", "fn"), ("fn.cheb", "fn")):
                    for mode in ("dtw", "fdtw"):
                        for f in ("m", "c"):
                            case = {"kind": "seq", "ct": "np.int64", "tracks": [a, b], "pre": ["none", "none"],
                                    "steps": [self.step(f, "t0", "t1", mode, p, "int", dim, df=df)]}
                            if CLS_NPCOORD in self.listed or not self.npoverflow(case, case["steps"][0]):
                                out.append(case)
        # (S2d) random whole-number tracks handed over as numpy.int64 whose point distances straddle the int64 bound of B**p, FDTW match():
        # most of them belong to the listed class and are compared with the int64 model (generated only while the class is listed)
        if CLS_NPCOORD in self.listed:
            for k in range(800 if th else 200):
                p, top = rng.choice([("3", 2097152), ("3", 2097152), ("3", 4000000), ("2", 3037000500), ("2", 6000000000)])

                def height():
                    r = rng.random()
                    return rng.randint(0, 3) if r < 0.4 else (top - rng.randint(0, 4) if r < 0.7 else rng.randint(0, top + 5))
                tr = [[[i, v, v] for i, v in enumerate(height() for _ in range(rng.randint(1, 5)))] for _ in range(2)]
                dim, df = rng.choice([(1, "int"), (1, "np"), ("fn.manh", "fn"), ("fn.cheb", "fn")])
                pre = [rng.choice(["none", "none", "none", "lists"]), "none"]
                out.append({"kind": "seq", "ct": "np.int64", "tracks": tr, "pre": pre,
                            "steps": [self.step("m", "t0", "t1", "fdtw", p, rng.choice(["int", "int", "np.int64", "np.int32", "fn"]), dim, df=df)]})
        # (S3) random sessions
        for k in range(30000 if th else 4000):
            out.append(self.rand_session(rng))
        return out

    def rand_session(self, rng):
        nt = rng.randint(2, 4)
        style = rng.choice(["lat3", "lat3", "lat3", "lat2", "lat2", "half", "half", "float", "float", "line", "line", "utm", "utm", "far",
                            "walk", "neardup", "neardup", "slat", "bigint"])
        hi = 4 if rng.random() < 0.6 else 7
        r = rng.random()
        cls = "geo" if r < 0.12 else ("ecef" if r < 0.16 else "enu")
        if cls != "enu":
            style = "ecef" if cls == "ecef" else rng.choice(["geo", "geo-level"])
        fr = self.rand_frame(rng, style)
        tracks = [self.rand_track(rng, rng.randint(1, hi), style, fr) for _ in range(nt)]
        pre = [rng.choice(["lists", "scalars", "partial"]) if rng.random() < 0.12 else "none" for _ in range(nt)]
        ct = rng.choice(["float", "float", "float", "np.float64", "int", "int", "np.int64"]) if cls == "enu" else "float"
        if ct in ("int", "np.int64") and not all(float(v).is_integer() for t in tracks for q in t for v in q):
            ct = "float"
        steps, okres = [], []
        for k in range(rng.choice([1, 1, 2, 2, 3, 4])):
            f = "m" if rng.random() < 0.8 else "c"
            a = "r%d" % rng.choice(okres) if okres and rng.random() < 0.55 else "t%d" % rng.randrange(nt)
            b = "r%d" % rng.choice(okres) if okres and rng.random() < 0.2 else "t%d" % rng.randrange(nt)
            mode = rng.choice(["dtw", "dtw", "fdtw", "frechet"])
            if rng.random() < 0.03:
                mode = "bad"
            p = rng.choice(["1", "1", "2", "2", "inf", "inf", "3", "0"])
            pf = rng.choice(INF_FORMS if p == "inf" else FIN_FORMS)
            r = rng.random()
            if r < 0.25:
                pf = "float" if p == "inf" else rng.choice(["int", "float"])
            elif r < 0.32 and p == "1":
                pf = "default"
            if rng.random() < 0.15:      # an exponent that is not a natural number
                p, pf = rng.choice(FRAC_PS), rng.choice(["float", "float", "np.float64", "fn", "np.float16", "np.float32", "np.longdouble"])
            dim = rng.choice({"enu": [1, 2, 2, 3], "geo": [2, 2, 3, 3, 1], "ecef": [3, 3, 3, 2, 1]}[cls])
            df = rng.choice(["int", "int", "np", "float"]) if dim != 2 or rng.random() < 0.8 else "default"
            if rng.random() < 0.1:
                dim, df = rng.choice(sorted(DIMFN)), "fn"
            mf = rng.choice(["const", "const", "const", "np", "float"])
            if f == "m" and mode == "dtw" and rng.random() < 0.2:
                mf = "default"
            vb = rng.choice(["F", "F", "T", "default"])
            st = rng.choice(["kw", "kw", "pos"])
            steps.append(self.step(f, a, b, mode, p, pf, dim, mf, df, vb, st))
            tmp = {"ct": ct, "cls": cls, "tracks": tracks, "steps": steps}
            if CLS_NPCOORD not in self.listed and self.npoverflow(tmp, steps[-1]):
                steps[-1]["pf"] = "float"      # inputs of the class fdtw-numpy-int-coordinates-… are generated only while it is listed
            if f == "m" and mode != "bad" and defined(cls, dim) and not self.npoverflow(tmp, steps[-1]):
                okres.append(k)      # (no later call on the result of a call of that class)
        case = {"kind": "seq", "tracks": tracks, "pre": pre, "steps": steps}
        if cls != "enu":
            case["cls"] = cls
        if ct != "float":
            case["ct"] = ct      # the coordinates are handed to ENUCoords as Python ints / numpy.int64 / numpy.float64 instead of Python floats
        return case

    def rand_positions(self, rng, dim, style, single):
        """class of the position objects (ENUCoords 83%, GeoCoords 12%, ECEFCoords 5%), the `dim` that goes with it (one call in
        ten in its function form; on the other classes also the values for which `_distance` is not defined) and the style of the
        tracks. `single`: the case includes the swapped call, whose score is the same only if the point distance is symmetric —
        GeoCoords.distance2DTo is, up to rounding, only between fixes of equal height (finding geo-2d-distance-asymmetric)."""
        r = rng.random()
        cls = "geo" if r < 0.12 else ("ecef" if r < 0.17 else "enu")
        if cls == "geo":
            dim = rng.choice([2, 2, 2, 3, 3, 3, 1])
            style = "geo-level" if (dim == 2 and single and CLS_GEO2D not in self.listed) or rng.random() < 0.4 else "geo"
        elif cls == "ecef":
            dim = rng.choice([3, 3, 3, 3, 2, 1])
            style = "ecef"
        if rng.random() < 0.1:
            dim = rng.choice(sorted(DIMFN))
        return cls, dim, style

    def rand_frame(self, rng, style):
        """what the tracks of one case share: the unit of the coordinates (a factor 1e-6 .. 1e7) and where they are"""
        if style in ("geo", "geo-level"):
            return {"lon0": round(rng.uniform(-179, 179), 4), "lat0": round(rng.uniform(-80, 80), 4),
                    "h0": rng.choice([0.0, 35.0, 250.0, 1800.0]), "dh": 0.0 if style == "geo-level" else rng.choice([1.0, 30.0, 300.0]),
                    "step": 10.0 ** -rng.choice([5, 5, 4, 3])}
        if style == "ecef":
            return {"o": list(rng.choice(ECEF_ORIGINS)), "s": rng.choice([0.01, 1.0, 1.0, 100.0])}
        if style not in SCALED_STYLES:
            return None
        if style == "slat":     # a power of two: the lattice stays exact, ties between predecessors survive the change of unit
            s = 2.0 ** rng.randint(-20, 23)
            return {"s": s, "o": [0.0, 0.0, 0.0]}
        s = 10.0 ** rng.randint(-6, 7)
        k = rng.choice([0, 0, 1, 30, 1000])   # the origin: at 0, or up to 1000 units away (lon/lat of a town, a projected survey)
        return {"s": s, "o": [round(rng.uniform(-k, k), 3) * s for _ in range(3)]}

    def rand_track(self, rng, n, style, frame=None):
        if style in ("geo", "geo-level", "ecef"):
            # lon/lat in degrees (1e-5 degree is about a metre) and heights in metres / geocentric metres: a walk, one step in four
            # tiny (down to 1e-9 degree / 1e-4 of the unit), one in ten null
            if style == "ecef":
                unit = [frame["s"]] * 3
                q = [frame["o"][c] + rng.uniform(-2, 2) * unit[c] for c in range(3)]
            else:
                unit = [frame["step"], frame["step"], frame["dh"]]
                q = [frame["lon0"] + rng.uniform(-2, 2) * unit[0], frame["lat0"] + rng.uniform(-2, 2) * unit[1],
                     frame["h0"] + rng.uniform(-1, 1) * unit[2]]
            tr = [list(q)]
            for _ in range(n - 1):
                r = rng.random()
                f = 0.0 if r < 0.1 else (10.0 ** -rng.choice([2, 3, 4]) if r < 0.35 else 1.0)
                q = [q[c] + rng.uniform(-1, 1) * unit[c] * f for c in range(3)]
                tr.append(list(q))
            return tr
        if style in SCALED_STYLES:
            s, o = frame["s"], frame["o"]
            if style == "slat":
                return [[rng.randint(0, 2) * s, rng.randint(0, 2) * s, rng.randint(0, 2) * s] for _ in range(n)]
            # a walk: steps of about one unit; in `neardup` four steps in ten are tiny (1e-3 .. 1e-9 of a unit: two fixes that
            # differ, but by less than any fixed tolerance) and one in ten is null (the same fix twice)
            q = [o[c] + rng.uniform(-2, 2) * s for c in range(3)]
            tr = [list(q)]
            for _ in range(n - 1):
                r = rng.random()
                if style == "neardup" and r < 0.1:
                    f = 0.0
                elif style == "neardup" and r < 0.5:
                    f = 10.0 ** -rng.choice([3, 4, 5, 6, 7, 9])
                else:
                    f = 1.0
                nq = [q[c] + rng.uniform(-1, 1) * s * f for c in range(3)]
                if f != 0.0 and nq == q:          # below the resolution of a double at this offset: one ulp on one axis
                    c = rng.randrange(3)
                    nq[c] = math.nextafter(q[c], math.inf)
                q = nq
                tr.append(list(q))
            return tr
        if style == "lat3":
            return [[rng.randint(0, 2), rng.randint(0, 2), rng.randint(0, 2)] for _ in range(n)]
        if style == "lat2":
            return [[rng.randint(0, 1), rng.randint(0, 1), rng.randint(0, 1)] for _ in range(n)]
        if style == "half":
            return [[rng.randint(-6, 6) / 2, rng.randint(-6, 6) / 2, rng.randint(-6, 6) / 2] for _ in range(n)]
        if style == "line":   # axis-aligned: distances are integers, ties are exact in every dim
            return [[float(rng.randint(0, 4)), 0.0, float(rng.randint(0, 3))] for _ in range(n)] if rng.random() < 0.5 else \
                   [[0.0, float(rng.randint(0, 4)), 0.0] for _ in range(n)]
        if style == "bigint":  # whole numbers of every size up to 3e6 (heights in millimetres): integer distances whose powers leave int8 .. uint32
            return [[rng.randint(0, 3) * 10 ** rng.randint(0, 6), rng.randint(0, 3) * 10 ** rng.randint(0, 3), rng.randint(0, 30) * 10 ** rng.randint(0, 5)]
                    for _ in range(n)]
        if style == "far":    # tracks far apart: accumulated costs of 1e12 .. 1e21 for p = 2, 3
            return [[round(rng.uniform(0, 1) * 10 ** rng.randint(4, 7), 1), round(rng.uniform(0, 1) * 10 ** rng.randint(4, 7), 1),
                     round(rng.uniform(0, 1e4), 1)] for _ in range(n)]
        if style == "utm":    # projected coordinates of a real survey: large offsets, metres to kilometres between points
            return [[6.0e5 + round(rng.uniform(0, 2000), 2), 5.0e6 + round(rng.uniform(0, 2000), 2), round(rng.uniform(100, 900), 1)] for _ in range(n)]
        return [[rng.uniform(-10, 10), rng.uniform(-10, 10), rng.uniform(-3, 3)] for _ in range(n)]

    def has_tie(self, case):
        """some interior cell of the forward table has two equal least predecessors (the back-pointer rule matters)"""
        t1, t2 = pts(case["a"]), pts(case["b"])
        p = case["ps"][0] if case["kind"] == "m" else case["p"]
        if not defined(case.get("cls", "enu"), case["dim"]):
            return False
        C = cost_matrix(t1, t2, case["dim"], p, case.get("cls", "enu"))
        n2, n1 = len(C), len(C[0])
        T = [[0.0] * n1 for _ in range(n2)]
        tie = False
        for i in range(n2):
            for j in range(n1):
                if i == 0 and j == 0:
                    T[i][j] = acc(p, 0.0, C[0][0])
                elif i == 0:
                    T[i][j] = acc(p, T[0][j - 1], C[i][j])
                elif j == 0:
                    T[i][j] = acc(p, T[i - 1][0], C[i][j])
                else:
                    v = sorted([T[i - 1][j - 1], T[i - 1][j], T[i][j - 1]])
                    tie = tie or v[0] == v[1]
                    T[i][j] = acc(p, v[0], C[i][j])
        return tie

    @staticmethod
    def geom_tags(tracks):
        """unit of the coordinates (decade of the extent of the fixes) and how close consecutive fixes come"""
        allp = [q for t in tracks for q in t]
        if not allp:
            return {}
        ext = max(max(q[c] for q in allp) - min(q[c] for q in allp) for c in range(3))
        gaps = [max(abs(a[c] - b[c]) for c in range(3)) for t in tracks for a, b in zip(t, t[1:])]
        near = "none (single fixes)"
        if gaps:
            pos = [g for g in gaps if g > 0]
            near = "distinct, closer than 1e-4 on every axis" if pos and min(pos) < 1e-4 else \
                ("identical" if len(pos) < len(gaps) else "apart")
        return {"extent_decade": "0" if ext == 0 else "1e%d" % math.floor(math.log10(ext)), "consecutive_fixes": near}

    def describe(self, case):
        if case["kind"] == "seq":
            sts = case["steps"]
            return {"kind": "seq", **self.geom_tags([pts(t) for t in case["tracks"]]), "positions": case.get("cls", "enu"),
                    "dim": str(sts[0]["dim"]), "calls": len(sts), "front": ",".join(sorted({st["f"] for st in sts})),
                    "first_argument_already_matched": any(st["a"].startswith("r") for st in sts),
                    "track_with_earlier_features": any(q != "none" for q in case["pre"]),
                    "p_form": sts[0]["pf"], "p": sts[0]["p"], "mode": sts[0]["mode"], "coordinates": case.get("ct", "float"),
                    "int_distance_power_above_type_of_p": any(self.intpow(case, st) for st in sts),
                    "int64_distance_power_above_int64": any(self.npoverflow(case, st) for st in sts),
                    "argument_style": "%s mode=%s dim=%s verbose=%s" % (sts[0]["st"], sts[0]["mf"], sts[0]["df"], sts[0]["vb"])}
        t1, t2 = pts(case["a"]), pts(case["b"])
        return {"kind": case["kind"], "mode": case["mode"], "dim": str(case["dim"]), "positions": case.get("cls", "enu"),
                "coordinates": case.get("ct", "float"), **self.geom_tags([t1, t2]),
                "p": ",".join(case["ps"]) if case["kind"] == "m" else case["p"],
                "sizes": "%s x %s" % (min(len(t1), 9), min(len(t2), 9)) if max(len(t1), len(t2)) <= 4 else "larger",
                "tie_between_predecessors": self.has_tie(case) if len(t1) > 1 and len(t2) > 1 else False}

    def nontrivial(self, case):
        # at least one interior cell: a genuine three-way minimum and a back-pointer choice
        if case["kind"] == "seq":
            return any(len(self.geo(case, st["a"])) >= 2 and len(self.geo(case, st["b"])) >= 2 for st in case["steps"])
        return len(pts(case["a"])) >= 2 and len(pts(case["b"])) >= 2

    # ---------------------------------------------------------------- sessions: helpers
    @staticmethod
    def geo(case, ref):
        """the positions of object `ref`: a track of the session, or (the track `match` returns is a copy of its first
        argument) those of the first argument of the step that produced it"""
        while ref[0] == "r":
            ref = case["steps"][int(ref[1:])]["a"]
        return pts(case["tracks"][int(ref[1:])])

    @staticmethod
    def idx(case, ref):
        return int(ref[1:]) + (len(case["tracks"]) if ref[0] == "r" else 0)

    def mkp(self, p, pf):
        """the object handed over as `p`"""
        np = self.np
        if pf == "fn":
            if p == "inf":
                return lambda A, B: max(A, B)
            k = pnum(p)
            return (lambda A, B: A + (B != 0) * 1) if k == 0 else (lambda A, B: A + B ** k)
        if pf == "max":
            return max
        if p == "inf":
            if pf in ("float", "math.inf", "np.inf"):
                return {"float": float("inf"), "math.inf": math.inf, "np.inf": np.inf}[pf]
            return getattr(np, pf[3:])("inf")
        k = pnum(p)
        if is_frac(p):
            return k if pf == "float" else getattr(np, pf[3:])(k)
        if pf in ("int", "default"):
            return k
        if pf == "float":
            return float(k)
        return getattr(np, pf[3:])(k)

    def mk_pre(self, tr, pre, ct="float", cls="enu"):
        """a track of the session; `pre`: it already carries features under the names `match` writes; `ct`: type of the coordinates;
        `cls`: class of the position objects"""
        if ct == "float" or cls != "enu":
            t = self.mk(tr, cls)
        else:
            from tracklib.core.obs_coords import ENUCoords
            from tracklib.core.obs import Obs
            from tracklib.core.obs_time import ObsTime
            from tracklib.core.track import Track
            conv = {"int": int, "np.int64": self.np.int64, "np.float64": self.np.float64}[ct]
            t = Track([Obs(ENUCoords(conv(x), conv(y), conv(z)), ObsTime()) for (x, y, z) in pts(tr)])
        n = t.size()
        if pre == "lists":
            t.createAnalyticalFeature("diff", 5.0)
            t.createAnalyticalFeature("pair", [[9, j] for j in range(n)])
            t.createAnalyticalFeature("ex", 6.0)
            t.createAnalyticalFeature("ey", 7.0)
        elif pre == "scalars":
            for nm, v in (("diff", 5.0), ("pair", 7.0), ("ex", 6.0), ("ey", 7.0)):
                t.createAnalyticalFeature(nm, v)
        elif pre == "partial":
            t.createAnalyticalFeature("speed", 1.0)
            t.createAnalyticalFeature("pair", [[9, j] for j in range(n)])
            t.createAnalyticalFeature("ey", 7.0)
        return t

    def call(self, st, A, B):
        np = self.np
        C = self.C
        fn = C.match if st["f"] == "m" else C.compare
        conv = {"const": int, "int": int, "np": np.int64, "float": float}
        args = []        # (name, value) in the order of the signature: mode, p, dim, verbose
        if st["mf"] != "default":
            if st["mode"] == "bad":
                v = (MODE_CMP if st["f"] == "m" else MODE_MATCH)["dtw"]
            else:
                v = (MODE_MATCH if st["f"] == "m" else MODE_CMP)[st["mode"]]
            args.append(("mode", conv[st["mf"]](v)))
        if st["pf"] != "default":
            args.append(("p", self.mkp(st["p"], st["pf"])))
        if st["df"] == "fn":
            args.append(("dim", DIMFN[st["dim"]]))
        elif st["df"] != "default":
            args.append(("dim", conv[st["df"]](st["dim"])))
        if st["vb"] != "default":
            args.append(("verbose", st["vb"] == "T"))
        pos, kw = [], dict(args)
        if st["st"] == "pos":
            for nm in ("mode", "p", "dim", "verbose"):
                if nm not in kw:
                    break
                pos.append(kw.pop(nm))
        return fn(A, B, *pos, **kw)

    def impl_seq(self, case):
        objs = [self.mk_pre(tr, pre, case.get("ct", "float"), case.get("cls", "enu")) for tr, pre in zip(case["tracks"], case["pre"])]
        res = []
        for st in case["steps"]:
            A, B = objs[self.idx(case, st["a"])], objs[self.idx(case, st["b"])]
            if A is None or B is None:
                res.append({"err": "bad-ref"})
                objs.append(None)
                continue
            try:
                r = self.call(st, A, B)
            except BaseException as e:
                if isinstance(e, KeyboardInterrupt):
                    raise
                res.append({"err": err_kind(e), "detail": str(e)[:120]})
                objs.append(None)
                continue
            if st["f"] == "m":
                res.append(self.out_of(r))
                objs.append(r)
            else:
                res.append({"value": float(r)})
                objs.append(None)
        return {"steps": res}

    def req_seq(self, case):
        n = len(case["tracks"])
        toks = []
        for st in case["steps"]:
            if st["mf"] == "default":
                mode = MODE_MATCH["dtw"] if st["f"] == "m" else 101
            elif st["mode"] == "bad":
                mode = (MODE_CMP if st["f"] == "m" else MODE_MATCH)["dtw"]
            else:
                mode = (MODE_MATCH if st["f"] == "m" else MODE_CMP)[st["mode"]]
            ty = str(type(self.mkp(st["p"], st["pf"]))).replace(" ", "")
            val, fnw = (("-", ptok(st["p"])) if st["pf"] in ("fn", "max") else (ptok(st["p"]), "-"))
            toks.append(":".join([st["f"], str(mode), ty, val, fnw, str(st["dim"]), str(self.idx(case, st["a"])), str(self.idx(case, st["b"]))]))
        out = ["C18.seq %s %s %s %s" % (case.get("cls", "enu"), "|".join(self.tok(t) for t in case["tracks"]),
                                       ",".join("0" if q == "none" else "1" for q in case["pre"]), ";".join(toks))]
        # calls of the listed class fdtw-numpy-int-coordinates-power-overflow are run by the int64 model too (Model/DTWInt64.lean)
        for k in self.int64_steps(case):
            st = case["steps"][k]
            out.append("C18.match64 %s %s %s %s" % (st["p"], st["dim"], self.tok(self.geo(case, st["a"])), self.tok(self.geo(case, st["b"]))))
        # every other call in a FDTW mode: the monitor of the hypotheses of session_history_irrelevant_fdtw (TV.C18.fast_hyp_check_sound)
        for k in self.hyp_steps(case):
            st = case["steps"][k]
            out.append("C18.hyp %s %s %s %s %s" % (case.get("cls", "enu"), ptok(st["p"]), st["dim"], self.tok(self.geo(case, st["a"])), self.tok(self.geo(case, st["b"]))))
        return out

    def hyp_steps(self, case):
        """the calls of a session in a FDTW mode on non-empty tracks with a defined point distance, outside the listed int64 class"""
        return [k for k, st in enumerate(case["steps"])
                if st["mode"] == "fdtw" and defined(case.get("cls", "enu"), st["dim"]) and self.geo(case, st["a"]) and self.geo(case, st["b"])
                and not self.npoverflow(case, st)]

    def int64_steps(self, case):
        """the calls of a session that the int64 model (`C18.match64`: `B**p` evaluated in int64) predicts: match() in the mode FDTW on
        numpy.int64 coordinates with an integer exponent and a dim whose point distance is a numpy.int64 for every pair of fixes
        (1, Manhattan, Chebyshev), where some `B**p` leaves int64 (`npoverflow`)"""
        return [k for k, st in enumerate(case["steps"])
                if st["f"] == "m" and st["dim"] in (1, "fn.manh", "fn.cheb") and self.npoverflow(case, st)]

    def dec_seq(self, case, replies):
        if replies[0] == "bad-request":
            raise ValueError("bad-request")
        res = []
        for st, r in zip(case["steps"], replies[0].split(" | ")):
            if r.startswith("err:") or r in ("bad-ref", "unmodelled"):
                res.append({"err": r})
            elif st["f"] == "m":
                res.append(self.parse_out(r))
            else:
                res.append({"value": bitsf(r)})
        n64 = self.int64_steps(case)
        for k, r in zip(n64, replies[1:]):
            res[k] = dict(res[k], i64={"err": r} if r.startswith("err:") or r in ("bad-request", "unmodelled") else self.parse_out(r))
        for k, r in zip(self.hyp_steps(case), replies[1 + len(n64):]):
            res[k] = dict(res[k], hyp=r)
        return {"steps": res}

    def exact_tracks(self, t1, t2, dim, cls="enu"):
        if cls != "enu" and not isinstance(dim, str):
            return False
        for q in t1 + t2:
            if any(v * 2 != int(v * 2) or abs(v) > 1000 for v in q):
                return False
        if dim == 1 or isinstance(dim, str):
            return True
        return all(odist(a, b, dim) * 2 == int(odist(a, b, dim) * 2) for a in t1 for b in t2)

    def cmp_seq(self, case, impl_out, model_out):
        if "steps" not in impl_out or "steps" not in model_out:
            return "impl=%s model=%s" % (str(impl_out)[:300], str(model_out)[:300])
        tainted = set()      # results of calls of the listed class (and of calls made on such results): not compared
        for k, st in enumerate(case["steps"]):
            io, mo = impl_out["steps"][k], model_out["steps"][k]
            if mo.get("hyp", "1") != "1":
                return "call %d: the hypotheses of session_history_irrelevant_fdtw (FastCallOK) do not hold on this input: C18.hyp = %s" % (k, mo["hyp"])
            mo = {kk: v for kk, v in mo.items() if kk != "hyp"}
            if st["a"] in tainted or st["b"] in tainted:
                tainted.add("r%d" % k)
                continue
            if self.npoverflow(case, st):
                tainted.add("r%d" % k)
                # d**p is computed in int64 there and wraps around (listed finding); the model of the session works in float64.
                # What the real code returns is what the int64 model (Model/DTWInt64.lean, `matchFdtw64`) returns:
                if "i64" in mo:
                    m64 = mo["i64"]
                    if "err" in io or "err" in m64:
                        if io.get("err") != m64.get("err"):
                            return "call %d (int64 model): impl=%s model=%s" % (k, str(io)[:200], str(m64)[:200])
                    elif not rclose(io, m64, TOL):
                        return "call %d (int64 model): impl=%s model=%s" % (k, io, m64)
                continue
            if "err" in io or "err" in mo:
                if io.get("err") != mo.get("err"):
                    return "call %d: impl=%s model=%s" % (k, str(io)[:200], str(mo)[:200])
                continue
            if st["f"] == "c":
                if not rclose(io["value"], mo["value"], TOL):
                    return "call %d: compare impl=%r model=%r" % (k, io["value"], mo["value"])
                continue
            if io["pairs"] != mo["pairs"]:
                t1, t2 = self.geo(case, st["a"]), self.geo(case, st["b"])
                pe = "inf" if st["mode"] == "frechet" else st["p"]
                Cm = cost_matrix(t1, t2, st["dim"], pe, case.get("cls", "enu"))
                bad = check_matching(Cm, pe, io, len(t1), len(t2), "implementation", pe != "0") or \
                    check_matching(Cm, pe, mo, len(t1), len(t2), "model", pe != "0")
                if bad or not rclose(io["score"], mo["score"], TOL):
                    return "call %d: pairs impl=%s model=%s (%s)" % (k, io["pairs"], mo["pairs"], bad or "scores differ")
                if self.exact_tracks(t1, t2, st["dim"], case.get("cls", "enu")) and not is_frac(pe):
                    return "call %d: exact-arithmetic input, yet the couplings differ: impl=%s model=%s" % (k, io["pairs"], mo["pairs"])
                continue
            if not rclose(io, mo, TOL):
                return "call %d: impl=%s model=%s" % (k, io, mo)
        return None

    def step_failure(self, case, st, o):
        """the property's oracle on what one call returned"""
        t1, t2 = self.geo(case, st["a"]), self.geo(case, st["b"])
        n1, n2 = len(t1), len(t2)
        if n1 == 0 or n2 == 0 or st["mode"] == "bad":
            return None     # sizes 1..n; a constant of the other front end is refused (UnknownModeError), not part of the statement
        what = "%s(%s, %s, %s, p=%s as %s, dim=%s)" % ("match" if st["f"] == "m" else "compare", st["a"], st["b"], st["mode"], st["p"], st["pf"], st["dim"])
        if st["f"] == "c" and st["pf"] in ("fn", "max"):
            return None     # compare() with a callable p: outside the statement (p in {1, 2, infinity}); correspondence only
        cls = case.get("cls", "enu")
        if not defined(cls, st["dim"]):
            return None     # no point distance of that kind on positions of this class (AttributeError): correspondence only
        if "err" in o:
            return "%s raised %s (%s)" % (what, o["err"], o.get("detail", ""))
        pe = "inf" if st["mode"] == "frechet" else st["p"]
        dim = st["dim"]
        if st["f"] == "c":
            if pe != "inf":
                return None   # (score/nb_links)^(1/p): not part of the statement; correspondence only
            want = optimum(cost_matrix(t1, t2, dim, "inf", cls), "inf")
            if not rclose(o["value"], want, TOL):
                return "%s = %r, the discrete Frechet distance (least maximal link over all couplings) is %r" % (what, o["value"], want)
            return None
        Cm = cost_matrix(t1, t2, dim, pe if pe != "0" else "1", cls)
        if pe != "0":      # p = 0 (number of links with a non-zero distance; 0**0 is a convention): only the matching is judged
            want = optimum(Cm, pe)
            if not rclose(o["score"], want, TOL):
                return "%s: score %r, the least accumulated cost over all monotone couplings for the requested p is %r" % (what, o["score"], want)
        return check_matching(Cm, pe, o, n1, n2, what, pe != "0")

    def first_failure(self, case, out):
        if "err" in out or "steps" not in out:
            return (0, "raised %s (%s)" % (out.get("err"), out.get("detail", "")))
        for k, st in enumerate(case["steps"]):
            m = self.step_failure(case, st, out["steps"][k])
            if m:
                return (k, "call %d: %s" % (k, m))
        return None

    # ---------------------------------------------------------------- implementation
    @staticmethod
    def parg(case):
        """the exponent handed to a FRECHET call (which must not use it)"""
        return case.get("parg") or ("1" if (len(pts(case["a"])) + len(pts(case["b"]))) % 2 else "2")

    def out_of(self, m):
        return {"score": float(m.score), "pairs": [[int(i) for i in l] for l in m["pair"]], "nb_links": int(m.nb_links),
                "diff": [float(v) for v in m["diff"]], "ex": [float(v) for v in m["ex"]], "ey": [float(v) for v in m["ey"]]}

    def impl(self, case):
        if case.get("_warm"):
            # a session built by warmups(): it must fail by itself, so the module starts from its import-time state
            import importlib
            importlib.reload(self.C)
        C = self.C
        if case["kind"] == "seq":
            return self.impl_seq(case)
        # `ct`: the coordinates are handed to ENUCoords as Python ints / numpy.float64 instead of Python floats
        t1 = self.mk_pre(case["a"], "none", case.get("ct", "float"), case.get("cls", "enu"))
        t2 = self.mk_pre(case["b"], "none", case.get("ct", "float"), case.get("cls", "enu"))
        dim, mode = case["dim"], case["mode"]
        if isinstance(dim, str):
            dim = DIMFN[dim]
        if case["kind"] == "cmp":
            pa = pnum(self.parg(case)) if mode == "frechet" else pnum(case["p"])
            return {"value": float(C.compare(t1, t2, mode=self.CM[mode], p=pa, dim=dim, verbose=False))}
        res = {}
        for p in case["ps"]:
            # FRECHET must ignore the exponent it is given: it is called with p = 1 or 2 (`parg`), never with inf
            pa = pnum(self.parg(case)) if mode == "frechet" else pnum(p)
            o = self.out_of(C.match(t1, t2, mode=self.MM[mode], p=pa, dim=dim, verbose=False))
            o["score_swapped"] = float(C.match(t2, t1, mode=self.MM[mode], p=pa, dim=dim, verbose=False).score)
            if mode == "dtw":
                o["score_fast"] = float(C.match(t1, t2, mode=C.MODE_MATCHING_FDTW, p=pnum(p), dim=dim, verbose=False).score)
            if mode == "frechet":
                o["compare"] = float(C.compare(t1, t2, mode=C.MODE_COMPARISON_FRECHET, dim=dim, verbose=False))
            res[p] = o
        return res

    # ---------------------------------------------------------------- model
    @staticmethod
    def tok(tr):
        q = pts(tr)
        return ";".join(",".join(fbits(v) for v in pt) for pt in q) if q else "_"

    def requests(self, case):
        if case["kind"] == "seq":
            return self.req_seq(case)
        a, b = self.tok(case["a"]), self.tok(case["b"])
        dim, mode, cls = case["dim"], case["mode"], case.get("cls", "enu")
        if case["kind"] == "cmp":
            return ["C18.compare %s %s %s %s %s %s" % (cls, mode, self.parg(case) if mode == "frechet" else ptok(case["p"]), dim, a, b)]
        out = []
        for p in case["ps"]:
            pa = self.parg(case) if mode == "frechet" else ptok(p)
            out.append("C18.match %s %s %s %s %s %s" % (cls, mode, pa, dim, a, b))
            out.append("C18.match %s %s %s %s %s %s" % (cls, mode, pa, dim, b, a))
            if mode == "dtw":
                out.append("C18.match %s fdtw %s %s %s %s" % (cls, ptok(p), dim, a, b))
            if mode == "frechet":
                out.append("C18.compare %s frechet inf %s %s %s" % (cls, dim, a, b))
        if mode in ("dtw", "fdtw"):
            # the monitor of the hypotheses under which the fast variant is proved correct (TV.C18.fast_hyp_check_sound), one per p
            out += ["C18.hyp %s %s %s %s %s" % (cls, ptok(p), dim, a, b) for p in case["ps"]]
        return out

    @staticmethod
    def parse_out(r):
        if r.startswith("err:") or r == "bad-request":
            raise ValueError(r)
        f = r.split(" ")
        fl = lambda tok: [bitsf(x) for x in untok(tok)]
        return {"score": bitsf(f[0]), "pairs": [[int(x) for x in untok(l)] for l in untok(f[2], ";")], "nb_links": int(f[3]),
                "diff": fl(f[4]), "ex": fl(f[5]), "ey": fl(f[6])}

    def decode(self, case, replies):
        if case["kind"] == "seq":
            return self.dec_seq(case, replies)
        if any(r.startswith("err:") for r in replies):
            return {"err": [r for r in replies if r.startswith("err:")][0]}
        if case["kind"] == "cmp":
            return {"value": bitsf(replies[0])}
        res, k = {}, 0
        for p in case["ps"]:
            o = self.parse_out(replies[k]); k += 1
            o["score_swapped"] = self.parse_out(replies[k])["score"]; k += 1
            if case["mode"] == "dtw":
                o["score_fast"] = self.parse_out(replies[k])["score"]; k += 1
            if case["mode"] == "frechet":
                o["compare"] = bitsf(replies[k]); k += 1
            res[p] = o
        if case["mode"] in ("dtw", "fdtw"):
            for p in case["ps"]:
                res[p]["hyp"] = replies[k]; k += 1
        return res

    def compare(self, case, impl_out, model_out):
        if case["kind"] == "seq":
            return self.cmp_seq(case, impl_out, model_out)
        if "err" in impl_out or "err" in model_out:
            if impl_out.get("err") == model_out.get("err"):
                return None
            return "impl=%s model=%s" % (impl_out, model_out)
        if case["kind"] == "cmp":
            return None if rclose(impl_out, model_out, TOL) else "impl=%s model=%s" % (impl_out, model_out)
        t1, t2 = pts(case["a"]), pts(case["b"])
        for p in case["ps"]:
            io, mo = impl_out[p], {k: v for k, v in model_out[p].items() if k != "hyp"}
            if model_out[p].get("hyp", "1") != "1":
                # (a finding about the generators, not about tracklib: the theorems on the fast variant say nothing of this input)
                return "p=%s: the hypotheses of match_fdtw_correct / match_fdtw_real_correct (non-negative distances and powers, candidate costs below 1e300) do not hold on this input: C18.hyp = %s" % (p, model_out[p]["hyp"])
            if io["pairs"] != mo["pairs"]:
                # a different coupling is acceptable only when it is a valid optimal one too (a tie, resolved
                # differently because of the last bit of a float): validated by the property's oracle
                C = cost_matrix(t1, t2, case["dim"], p, case.get("cls", "enu"))
                bad = check_matching(C, p, io, len(t1), len(t2), "implementation") or check_matching(C, p, mo, len(t1), len(t2), "model")
                if bad or not rclose(io["score"], mo["score"], TOL):
                    return "p=%s: pairs impl=%s model=%s (%s)" % (p, io["pairs"], mo["pairs"], bad or "scores differ")
                if self.exact(case) and not is_frac(p):
                    return "p=%s: exact-arithmetic input, yet the couplings differ: impl=%s model=%s" % (p, io["pairs"], mo["pairs"])
                for k in ("score", "score_swapped", "score_fast", "compare"):
                    if k in io and not rclose(io[k], mo[k], TOL):
                        return "p=%s: %s impl=%r model=%r" % (p, k, io[k], mo[k])
                continue
            if not rclose(io, mo, TOL):
                return "p=%s: impl=%s model=%s" % (p, io, mo)
        return None

    def exact(self, case):
        """float arithmetic is exact on this input (integer or half-integer coordinates and integer distances),
        so ties are resolved identically by the code and by the model; FDTW's choice among equal couplings is the
        heap's, modelled too"""
        t1, t2 = pts(case["a"]), pts(case["b"])
        if case.get("cls", "enu") != "enu" and not isinstance(case["dim"], str):
            return False
        for q in t1 + t2:
            if any(v * 2 != int(v * 2) or abs(v) > 1000 for v in q):
                return False
        if case["dim"] == 1 or isinstance(case["dim"], str):
            return True
        for a in t1:
            for b in t2:
                d = odist(a, b, case["dim"])
                if d * 2 != int(d * 2):
                    return False
        return True

    # ---------------------------------------------------------------- oracle (transfer)
    def spec(self, case, out, skip_swap=False):
        if case["kind"] == "seq":
            f = self.first_failure(case, out)
            return f[1] if f else None
        t1, t2 = pts(case["a"]), pts(case["b"])
        n1, n2 = len(t1), len(t2)
        if n1 == 0 or n2 == 0:
            return None     # the property is about tracks of sizes 1..n
        if not defined(case.get("cls", "enu"), case["dim"]):
            return None     # no point distance of that kind on positions of this class (AttributeError): correspondence only
        if "err" in out:
            return "raised %s (%s)" % (out["err"], out.get("detail", ""))
        dim, mode, cls = case["dim"], case["mode"], case.get("cls", "enu")
        if case["kind"] == "cmp":
            p = "inf" if mode == "frechet" else case["p"]
            if p != "inf":
                return None   # (score/nb_links)^(1/p): not part of the statement; correspondence only
            want = optimum(cost_matrix(t1, t2, dim, "inf", cls), "inf")
            if not rclose(out["value"], want, TOL):
                return "compare(%s) = %r, the discrete Frechet distance (least maximal link over all couplings) is %r" % (mode, out["value"], want)
            return None
        for p in case["ps"]:
            pe = "inf" if mode == "frechet" else p
            o = out[p]
            C = cost_matrix(t1, t2, dim, pe, cls)
            want = optimum(C, pe)
            what = "%s p=%s dim=%s%s" % (mode, pe, dim, "" if cls == "enu" else " positions=" + cls)
            if not rclose(o["score"], want, TOL):
                return "%s: score %r, the least accumulated cost over all monotone couplings is %r" % (what, o["score"], want)
            # the swap clause presupposes a symmetric point distance: not asked of a caller's own asymmetric callable
            if (not isinstance(dim, str) or dim in SYMMETRIC_FN) and not skip_swap and not rclose(o["score_swapped"], o["score"], TOL):
                return "%s: score %r but %r with the two tracks swapped" % (what, o["score"], o["score_swapped"])
            bad = check_matching(C, pe, o, n1, n2, what)
            if bad:
                return bad
            if "score_fast" in o and not rclose(o["score_fast"], o["score"], TOL):
                return "%s: the fast variant reports %r, DTW reports %r" % (what, o["score_fast"], o["score"])
            if "compare" in o and not rclose(o["compare"], want, TOL):
                return "%s: compare(FRECHET) = %r, the discrete Frechet distance is %r" % (what, o["compare"], want)
        return None

    def classify(self, case, impl_out, msg):
        """two classes. On sessions, a decidable predicate on the first failing call:
        fdtw-numpy-int-coordinates-power-overflow: FDTW (match or compare) on ENUCoords tracks whose coordinates are numpy.int64, with a dim
            that yields numpy.int64 distances (1, or a callable of the harness summing coordinate differences), p = 1, 2, 3, … handed to
            `B**p` as an integer (a Python int, any numpy integer — int(p) since 1f009f6 —, or a lambda `A + B**k`), and some pair of
            fixes whose distance B has B ** p above 2**63 - 1: `_fdtw` hands the raw distance to `B**p`, which numpy evaluates in int64
            with a silent wrap-around (`_dtw` reads the distance back from a float64 array); decided from the case, see `npoverflow`.
        On single calls:
        geo-2d-distance-asymmetric: tracks of GeoCoords whose fixes do not all have the same height, dim = 2, and the only clause
            that fails is "same score with the two tracks swapped": `GeoCoords.distance2DTo(q)` is the horizontal distance in the
            local frame of q, `q.distance2DTo(p)` in that of p, and the two horizontal planes differ (relative difference of the
            order of dh / R per unit of dh / d).
        (The three classes about an exponent p handed over as a numpy scalar — p-numpy-type-name-without-int-or-float,
        fdtw-exponent-float16-float32, fdtw-int-distance-small-numpy-int-exponent — were repaired by 1f009f6: such inputs are judged like
        any other, their witnesses are corpus cases.)"""
        if (case.get("kind") == "m" and case.get("cls") == "geo" and case.get("dim") == 2 and isinstance(impl_out, dict)
                and "err" not in impl_out and len({q[2] for q in pts(case["a"]) + pts(case["b"])}) > 1
                and self.spec(case, impl_out, skip_swap=True) is None):
            return CLS_GEO2D     # everything holds but the swap clause, on GeoCoords fixes of different heights, dim = 2
        if case.get("kind") != "seq" or not isinstance(impl_out, dict) or "steps" not in impl_out:
            return None
        f = self.first_failure(case, impl_out)
        if f and self.npoverflow(case, case["steps"][f[0]]):
            return CLS_NPCOORD
        return None

    def npoverflow(self, case, st):
        """the defect class fdtw-numpy-int-coordinates-power-overflow, recognised from the case alone (see classify)"""
        if not (case.get("ct") == "np.int64" and case.get("cls", "enu") == "enu" and st["mode"] == "fdtw"
                and (st["pf"] in ("int", "default", "fn") or st["pf"] in NPINT_MAX)
                and st["p"] not in ("0", "inf") and not is_frac(st["p"]) and (st["dim"] == 1 or isinstance(st["dim"], str))):
            return False
        t1, t2 = self.geo(case, st["a"]), self.geo(case, st["b"])
        k, dim = int(st["p"]), st["dim"]
        for a in t2:
            for b in t1:
                if dim == "fn.lead" and a[0] - b[0] < 0:
                    continue      # max(x1 - x2, 0.0) is the float 0.0 there: a float distance
                if int(odist(a, b, dim)) ** k > 2 ** 63 - 1:
                    return True
        return False

    def intpow(self, case, st):
        """(input histogram only) a call whose point distances are Python ints — coordinates handed over as Python ints and dim = 1
        (`abs(U1 - U2)`) or a callable of the harness — with p >= 1 a numpy integer such that for some pair of fixes the distance B
        has B ** p above the largest value of the type of p: numpy would evaluate `B ** p` in that type (OverflowError / wrap-around;
        the defect class fdtw-int-distance-small-numpy-int-exponent repaired by 1f009f6: match / compare hand int(p) over)"""
        if not (case.get("ct") == "int" and case.get("cls", "enu") == "enu" and st["pf"] in NPINT_MAX
                and st["p"] not in ("0", "inf") and not is_frac(st["p"]) and (st["dim"] == 1 or isinstance(st["dim"], str))):
            return False
        t1, t2 = self.geo(case, st["a"]), self.geo(case, st["b"])
        k, top, dim = int(st["p"]), NPINT_MAX[st["pf"]], st["dim"]
        for a in t2:
            for b in t1:
                if dim == "fn.lead" and a[0] - b[0] < 0:
                    continue      # max(x1 - x2, 0.0) is the float 0.0 there: a float distance
                if int(odist(a, b, dim)) ** k > top:
                    return True
        return False

    # ---------------------------------------------------------------- shrinking / search
    def shrink_seq(self, case):
        steps, nt = case["steps"], len(case["tracks"])
        # drop the last call; drop a call nobody refers to (later references renumbered)
        for k in range(len(steps) - 1, -1, -1):
            if len(steps) > 1 and not any(r == "r%d" % k for st in steps for r in (st["a"], st["b"])):
                def ren(r):
                    return "r%d" % (int(r[1:]) - 1) if r[0] == "r" and int(r[1:]) > k else r
                yield dict(case, steps=[dict(st, a=ren(st["a"]), b=ren(st["b"])) for i, st in enumerate(steps) if i != k])
        if any(q != "none" for q in case["pre"]):
            yield dict(case, pre=["none"] * nt)
        # drop a track no call refers to (later tracks renumbered)
        for i in range(nt - 1, -1, -1):
            if not any(r == "t%d" % i for st in steps for r in (st["a"], st["b"])):
                def rent(r, i=i):
                    return "t%d" % (int(r[1:]) - 1) if r[0] == "t" and int(r[1:]) > i else r
                yield dict(case, tracks=case["tracks"][:i] + case["tracks"][i + 1:], pre=case["pre"][:i] + case["pre"][i + 1:],
                           steps=[dict(st, a=rent(st["a"]), b=rent(st["b"])) for st in steps])
        # plainer calls
        for k, st in enumerate(steps):
            plain = dict(st, mf="const", df="fn" if st["df"] == "fn" else "int", vb="F", st="kw")
            if plain != st:
                yield dict(case, steps=steps[:k] + [plain] + steps[k + 1:])
            if st["pf"] not in ("int", "float"):
                yield dict(case, steps=steps[:k] + [dict(st, pf=num_form(st["p"]))] + steps[k + 1:])
            if st["a"][0] == "r":
                yield dict(case, steps=steps[:k] + [dict(st, a=steps[int(st["a"][1:])]["a"])] + steps[k + 1:])
            if st["b"][0] == "r":
                yield dict(case, steps=steps[:k] + [dict(st, b=steps[int(st["b"][1:])]["a"])] + steps[k + 1:])
            if st["dim"] != 2 and st["dim"] != 1 and defined(case.get("cls", "enu"), 2):
                yield dict(case, steps=steps[:k] + [dict(st, dim=2, df="int")] + steps[k + 1:])
        if case.get("ct"):
            yield {k: v for k, v in case.items() if k != "ct"}
        # smaller tracks, smaller coordinates
        trs = [pts(t) for t in case["tracks"]]
        for i, t in enumerate(trs):
            for k in range(len(t)):
                if len(t) > 1:
                    yield dict(case, tracks=trs[:i] + [t[:k] + t[k + 1:]] + trs[i + 1:])
        for i, t in enumerate(trs):
            for k in range(len(t)):
                for c in range(3):
                    if t[k][c] != 0:
                        t2 = [list(q) for q in t]
                        t2[k][c] = 0.0 if abs(t[k][c]) <= 1 else float(int(t[k][c] / 2))
                        yield dict(case, tracks=trs[:i] + [t2] + trs[i + 1:])
        for i, t in enumerate(trs):      # fewer digits (the unit of the coordinates is kept)
            for nd in (3, 6, 9):
                t2 = [[float("%.*g" % (nd, v)) for v in q] for q in t]
                if t2 != t:
                    yield dict(case, tracks=trs[:i] + [t2] + trs[i + 1:])

    def as_session(self, case):
        """a single-call case written as a session"""
        if case["kind"] == "seq":
            return case
        mode, dim = case["mode"], case["dim"]
        pf = num_form
        df = "fn" if isinstance(dim, str) else "int"
        steps = []
        if case["kind"] == "cmp":
            p = self.parg(case) if mode == "frechet" else case["p"]
            steps.append(self.step("c", "t0", "t1", mode, p, pf(p), dim, df=df))
        else:
            for p in case["ps"]:
                pa = self.parg(case) if mode == "frechet" else p
                steps.append(self.step("m", "t0", "t1", mode, pa, pf(pa), dim, df=df))
                steps.append(self.step("m", "t1", "t0", mode, pa, pf(pa), dim, df=df))
                if mode == "dtw":
                    steps.append(self.step("m", "t0", "t1", "fdtw", p, pf(p), dim, df=df))
        ss = {"kind": "seq", "tracks": [pts(case["a"]), pts(case["b"])], "pre": ["none", "none"], "steps": steps}
        if case.get("cls", "enu") != "enu":
            ss["cls"] = case["cls"]
        return ss

    def warmups(self, case):
        """for a case that fails in a long run but not alone (state kept by the library between calls): the same calls made
        first on other tracks of the same sizes (first points kept / everything moved), then on the tracks of the case"""
        ss = self.as_session(case)
        nt, ns = len(ss["tracks"]), len(ss["steps"])
        sh = lambda r: ("t%d" % (int(r[1:]) + nt)) if r[0] == "t" else ("r%d" % (int(r[1:]) + ns))
        later = [dict(st, a=sh(st["a"]), b=sh(st["b"])) for st in ss["steps"]]
        for var in ("keep-first", "all", 0, 1, 2):
            def moved(i, k, c, v, var=var):
                if (var == "keep-first" and k == 0) or (isinstance(var, int) and c != var):
                    return v
                return v + (1 + (k + c) % 2) * (i + 1)      # track i moved by its own amount: the distances change
            other = [[[moved(i, k, c, v) for c, v in enumerate(q)] for k, q in enumerate(pts(t))] for i, t in enumerate(ss["tracks"])]
            yield {"kind": "seq", "_warm": True, "tracks": other + [pts(t) for t in ss["tracks"]], "pre": ss["pre"] * 2,
                   "steps": ss["steps"] + later, **({"cls": ss["cls"]} if "cls" in ss else {})}

    def shrink(self, case):
        if not case.get("_warm") and case.get("a") != [] and case.get("b") != []:
            from engine import run_impl
            if self.spec(case, run_impl(self, case)) is None:
                # not failing by itself: what fails may depend on what the library remembers from earlier calls
                yield from self.warmups(case)
                return
        if case["kind"] == "seq":
            yield from self.shrink_seq(case)
            return
        if case["kind"] == "m" and len(case["ps"]) > 1:
            for p in case["ps"]:
                yield dict(case, ps=[p])
        if case.get("ct"):
            yield {k: v for k, v in case.items() if k != "ct"}
        a, b = pts(case["a"]), pts(case["b"])
        for k in range(len(a)):
            if len(a) > 1:
                yield dict(case, a=a[:k] + a[k + 1:], b=b)
        for k in range(len(b)):
            if len(b) > 1:
                yield dict(case, a=a, b=b[:k] + b[k + 1:])
        for which, t in (("a", a), ("b", b)):
            for k in range(len(t)):
                for c in range(3):
                    if t[k][c] != 0:
                        t2 = [list(q) for q in t]
                        t2[k][c] = 0.0 if abs(t[k][c]) <= 1 else float(int(t[k][c] / 2))
                        yield dict(case, **{"a": a, "b": b, which: t2})
        for which, t in (("a", a), ("b", b)):      # fewer digits (the unit of the coordinates is kept)
            for nd in (3, 6, 9):
                t2 = [[float("%.*g" % (nd, v)) for v in q] for q in t]
                if t2 != t:
                    yield dict(case, **{"a": a, "b": b, which: t2})

    def search_cases(self, rng):
        # the quick scopes again (other random draws) rather than the 290 k cases of the thorough tier
        return self.cases(rng, "quick")

    @staticmethod
    def mutated_point(rng, cls, tr, others):
        """a neighbour of a track for the failing-input search: one fix replaced. ENUCoords: a point of the lattice {0,1,2}^3 (ties).
        GeoCoords / ECEFCoords: a copy of another fix of the case moved by about a metre (1e-5 degree), the height kept — the tracks stay
        where they are: on GeoCoords the swap clause (dim = 2) is asked only of fixes of equal height a few hundred metres apart at most
        (`geo-level`), where `distance2DTo` is symmetric up to rounding (finding geo-2d-distance-asymmetric otherwise)"""
        if cls == "enu":
            return [float(rng.randint(0, 2)), float(rng.randint(0, 2)), float(rng.randint(0, 2))]
        q = list(rng.choice(others))
        u = 1e-5 if cls == "geo" else 1.0
        return [q[0] + rng.uniform(-1, 1) * u, q[1] + rng.uniform(-1, 1) * u, q[2] + (0.0 if cls == "geo" else rng.uniform(-1, 1) * u)]

    def mutate(self, case, rng):
        cls = case.get("cls", "enu")
        if case["kind"] == "seq":
            for _ in range(20):
                trs = [[list(q) for q in pts(t)] for t in case["tracks"]]
                allp = [q for tr in trs for q in tr]
                for tr in trs:
                    if tr:
                        tr[rng.randrange(len(tr))] = self.mutated_point(rng, cls, tr, allp)
                yield dict(case, tracks=trs)
            return
        a, b = pts(case["a"]), pts(case["b"])
        if not a or not b:
            return
        for _ in range(20):
            t = [list(q) for q in a]
            u = [list(q) for q in b]
            for tr in (t, u):
                k = rng.randrange(len(tr))
                tr[k] = self.mutated_point(rng, cls, tr, a + b)
            yield dict(case, a=t, b=u)
