"""C18 — time-warping cost is the optimal coupling cost and the matching realises it
(tracklib/algo/comparison.py: match / compare in the DTW, FDTW and FRECHET modes)."""
import math, itertools
from engine import Prop, fbits, bitsf, close, untok

PS = ["1", "2", "inf"]
PVAL = {"1": 1, "2": 2, "inf": float("inf")}
TOL = 1e-9


# ---------------------------------------------------------------------------------- tracks
def pts(tr):
    """a track is a list of [x, y, z] or a compact lattice string 'g:digits' (digit k = point (k // g, k % g, k % g) of
    the g x g lattice; the third coordinate repeats the second so that dim = 1 sees the 1-D lattice 0..g-1)"""
    if isinstance(tr, str):
        g, ds = tr.split(":")
        g = int(g)
        return [[float(int(c) // g), float(int(c) % g), float(int(c) % g)] for c in ds]
    return [[float(v) for v in q] for q in tr]


def lat_tracks(npts, maxn):
    digs = "012345678"[:npts]
    out = []
    for n in range(1, maxn + 1):
        for t in itertools.product(digs, repeat=n):
            out.append("".join(t))
    return out


# ---------------------------------------------------------------------------------- oracle pieces
def odist(a, b, dim):
    if dim == 1:
        return abs(a[2] - b[2])
    if dim == 2:
        return math.hypot(a[0] - b[0], a[1] - b[1])
    return math.sqrt(math.fsum([(a[0] - b[0]) ** 2, (a[1] - b[1]) ** 2, (a[2] - b[2]) ** 2]))


def ocost(a, b, dim, p):
    """d^p computed without going through the square root when p = 2"""
    if p == "2":
        if dim == 1:
            return (a[2] - b[2]) ** 2
        s = (a[0] - b[0]) ** 2 + (a[1] - b[1]) ** 2
        return s if dim == 2 else s + (a[2] - b[2]) ** 2
    return odist(a, b, dim)


def acc(p, x, c):
    return max(x, c) if p == "inf" else x + c


def cost_matrix(t1, t2, dim, p):
    """C[i][j]: rows = track2, columns = track1"""
    return [[ocost(b, a, dim, p) for a in t1] for b in t2]


def optimum(C, p):
    """min over monotone couplings (0,0) -> (n2-1,n1-1), unit steps, of the accumulated cost.
    Enumeration of every coupling when there are few; otherwise a backward (suffix) recursion, which is not the
    implementation's forward table."""
    n2, n1 = len(C), len(C[0])
    if n1 <= 4 and n2 <= 4:
        best = [None]

        def go(i, j, a):
            a = acc(p, a, C[i][j])
            if i == n2 - 1 and j == n1 - 1:
                if best[0] is None or a < best[0]:
                    best[0] = a
                return
            if i + 1 < n2:
                go(i + 1, j, a)
            if j + 1 < n1:
                go(i, j + 1, a)
            if i + 1 < n2 and j + 1 < n1:
                go(i + 1, j + 1, a)
        go(0, 0, 0.0)
        return best[0]
    suf = [[None] * n1 for _ in range(n2)]
    for i in range(n2 - 1, -1, -1):
        for j in range(n1 - 1, -1, -1):
            nx = []
            if i + 1 < n2:
                nx.append(suf[i + 1][j])
            if j + 1 < n1:
                nx.append(suf[i][j + 1])
            if i + 1 < n2 and j + 1 < n1:
                nx.append(suf[i + 1][j + 1])
            suf[i][j] = acc(p, min(nx), C[i][j]) if nx else acc(p, 0.0, C[i][j])
    return suf[0][0]


def coupling_of(pairs):
    """the links (i, j) in the order the matching lists them: observation j of track1 by observation, its partners in order"""
    return [(i, j) for j, l in enumerate(pairs) for i in l]


def check_matching(C, p, out, n1, n2, what):
    """the returned matching is a coupling, links everything, and costs `score`"""
    pairs = out["pairs"]
    if len(pairs) != n1:
        return "%s: %d pair lists for %d observations" % (what, len(pairs), n1)
    path = coupling_of(pairs)
    for j, l in enumerate(pairs):
        if not l:
            return "%s: observation %d of track1 is linked to nothing (pairs %s)" % (what, j, pairs)
    linked2 = {i for (i, j) in path}
    for i in range(n2):
        if i not in linked2:
            return "%s: observation %d of track2 is linked to nothing (pairs %s)" % (what, i, pairs)
    for (i, j) in path:
        if not (0 <= i < n2):
            return "%s: link to a non-existent observation %d (pairs %s)" % (what, i, pairs)
    if path[0] != (0, 0):
        return "%s: the matching starts at %s, not at the first pair (pairs %s)" % (what, path[0], pairs)
    if path[-1] != (n2 - 1, n1 - 1):
        return "%s: the matching ends at %s, not at the last pair (pairs %s)" % (what, path[-1], pairs)
    for a, b in zip(path, path[1:]):
        if (b[0] - a[0], b[1] - a[1]) not in ((1, 0), (0, 1), (1, 1)):
            return "%s: the matching is not a monotone unit-step coupling: %s then %s (pairs %s)" % (what, a, b, pairs)
    if out["nb_links"] != len(path):
        return "%s: nb_links = %s but the matching has %d links" % (what, out["nb_links"], len(path))
    a = 0.0
    for (i, j) in path:
        a = acc(p, a, C[i][j])
    if not close(a, out["score"], TOL):
        return "%s: the returned matching %s costs %r but the reported score is %r" % (what, pairs, a, out["score"])
    return None


class P(Prop):
    id = "C18"
    design_ref = "DESIGN.md section 5, C18"
    theorems = [
        ("TracklibVerif.Props.C18", "TV.C18.table_optimal", "T1: the score _dtw reports (T[-1,-1] of the table the driver runs) is a lower bound of the accumulated cost of every monotone unit-step coupling from the first to the last pair, and some coupling attains it; any accumulation monotone in the accumulated cost"),
        ("TracklibVerif.Props.C18", "TV.C18.score_symmetric", "T2: swapping the two tracks gives the same score when the point distance is symmetric (the table is transposed)"),
        ("TracklibVerif.Props.C18", "TV.C18.path_valid", "T3: the list S of the backward walk through M is a monotone unit-step coupling from the last pair to (0,0); nb_links is its length; the 'pair' feature lists exactly its pairs; every observation of both tracks is linked"),
        ("TracklibVerif.Props.C18", "TV.C18.path_realises", "T4: the accumulated cost of the returned coupling equals the reported score (each back-pointer designates a minimal predecessor)"),
        ("TracklibVerif.Props.C18", "TV.C18.weight_mono", "_p2weight(p) is monotone in the accumulated cost for p = 1, 2, inf over an ordered field"),
        ("TracklibVerif.Props.C18", "TV.C18.distance_symm", "_distance (dim 1, 2, 3) is symmetric over an ordered field, for any sqrt"),
        ("TracklibVerif.Props.C18", "TV.C18.fdtw_equal", "T5: _fdtw (best-first search; the queue only assumed to return an entry of least priority) reports the same score as _dtw, for any accumulation monotone and inflationary on the distances at hand, 'big' above every candidate cost"),
        ("TracklibVerif.Props.C18", "TV.C18.fdtw_path", "T5b: the matching returned by _fdtw (walk through the antecedent map A) is a monotone unit-step coupling whose accumulated cost is the score; pair/nb_links describe it; nobody left out"),
        ("TracklibVerif.Props.C18", "TV.C18.distance_nonneg", "_distance is non-negative when sqrt is"),
        ("TracklibVerif.Props.C18", "TV.C18.weight_infl", "_p2weight(p) is inflationary on non-negative distances for p = 1, 2, inf"),
        ("TracklibVerif.Props.C18", "TV.C18.match_fdtw_correct", "match(track1, track2, FDTW, p, dim) on non-empty tracks over an ordered field with sqrt >= 0 and big above every candidate cost: succeeds, same score as mode DTW, S is a coupling whose cost is the score, pair/nb_links describe S, nobody left out"),
        ("TracklibVerif.Props.C18", "TV.C18.match_correct", "match(track1, track2, DTW | FRECHET, p, dim) on non-empty tracks over an ordered field: succeeds, score = optimum over couplings, S is a coupling whose cost is the score, pair/nb_links describe S, nobody left out, swapped call reports the same score"),
    ]
    partial = []
    open_statements = ["compare(): (score/nb_links)**(1/p) for finite p is modelled and compared but no theorem is stated about it (not part of the property); for FRECHET / p = inf compare() returns the score, covered by match_correct",
                       "IEEE rounding: the theorems are over a linear order / ordered field; on the float runs the oracle compares with relative tolerance 1e-9"]
    modelled = ("algo/comparison.py: match and compare (modes DTW, FDTW, FRECHET), _distance (dim 1/2/3), _p2weight (p = 1, 2, inf), "
                "_dtw (distance matrix, first row/column, forward step, predecessor encoding, backward walk), _fdtw + _update_node "
                "(priority_dict.pop_smallest as 'least (priority, key)'), _fillAF_dtw (pair, diff, ex, ey, nb_links, score), "
                "_dtw_comparison / _fdtw_comparison")
    rule = ("exhaustive: all ordered pairs of small tracks on the lattices {0,1}^2 (dim 2), {0,1,2} (dim 1) and {0,1,2}^2 (dim 2) "
            "(sizes per tier in exhaustive_scopes), each with p = 1, 2, inf, the swapped call and the FDTW score; random: sizes 1..8 (10% up to 12), "
            "integer / half-integer lattices, axis-aligned integer tracks (exact ties in every dim) and general floats, dim 1/2/3, modes DTW/FDTW/FRECHET, "
            "one case in ten through compare(). non-trivial = both tracks have at least 2 observations (a three-way minimum and a back-pointer choice exist); "
            "the input histogram counts the cases where two least predecessors tie")
    trusted = ["priority_dict (heapq with lazy deletion) is modelled by its contract: pop_smallest returns an entry with the least (priority, key)",
               "numpy float64 `**` and Python float `**` are modelled by `*` for p = 2 (compared with relative tolerance 1e-9)"]

    def setup(self):
        from tracklib.core.obs_coords import ENUCoords
        from tracklib.core.obs import Obs
        from tracklib.core.obs_time import ObsTime
        from tracklib.core.track import Track
        import tracklib.algo.comparison as C
        self.C = C
        self.mk = lambda tr: Track([Obs(ENUCoords(x, y, z), ObsTime()) for (x, y, z) in pts(tr)])
        self.MM = {"dtw": C.MODE_MATCHING_DTW, "fdtw": C.MODE_MATCHING_FDTW, "frechet": C.MODE_MATCHING_FRECHET}
        self.CM = {"dtw": C.MODE_COMPARISON_DTW, "fdtw": C.MODE_COMPARISON_FDTW, "frechet": C.MODE_COMPARISON_FRECHET}

    # ---------------------------------------------------------------- generators
    def exhaustive_scopes(self, tier):
        if tier == "thorough":
            return ["mode DTW (with the FDTW score and the swapped score), p in {1,2,inf}: all ordered pairs of tracks of sizes 1..4 on the lattice {0,1}^2, dim 2 (340^2 pairs)",
                    "same, all ordered pairs of tracks of sizes 1..4 on the 1-D lattice {0,1,2}, dim 1 (120^2 pairs)",
                    "same, all ordered pairs of tracks of sizes 1..3 on the lattice {0,1,2}^2, dim 2, track1 up to the 8 symmetries of the square",
                    "modes FDTW and FRECHET: all ordered pairs of tracks of sizes 1..3 on {0,1}^2 (dim 2) and on the 1-D lattice {0,1,2} (dim 1)"]
        return ["mode DTW (with the FDTW score and the swapped score), p in {1,2,inf}: all ordered pairs of tracks of sizes 1..3 on the lattice {0,1}^2, dim 2 (84^2 pairs)",
                "same, all ordered pairs of tracks of sizes 1..3 on the 1-D lattice {0,1,2}, dim 1 (39^2 pairs)",
                "same, all ordered pairs of tracks of sizes 1..2 on the lattice {0,1,2}^2, dim 2 (90^2 pairs)",
                "modes FDTW and FRECHET: all ordered pairs of tracks of sizes 1..3 on the 1-D lattice {0,1,2}, dim 1"]

    @staticmethod
    def sym_canon(t, g=3):
        """is the digit string t the least among its images under the 8 symmetries of the g x g lattice?"""
        def img(k, s):
            x, y = k // g, k % g
            if s & 1:
                x = g - 1 - x
            if s & 2:
                y = g - 1 - y
            if s & 4:
                x, y = y, x
            return x * g + y
        return all(t <= "".join(str(img(int(c), s)) for c in t) for s in range(1, 8))

    def cases(self, rng, tier):
        out = []
        th = tier == "thorough"

        def allpairs(g, npts, maxn, dim, mode, ps, canon=False):
            ts = lat_tracks(npts, maxn)
            for a in ts:
                if canon and not self.sym_canon(a, g):
                    continue
                for b in ts:
                    out.append({"kind": "m", "mode": mode, "ps": ps, "dim": dim, "a": "%d:%s" % (g, a), "b": "%d:%s" % (g, b)})
        # exhaustive lattices. 1-D lattice {0,1,2}: digits 0..2 of a '3:' string are the points (0, k, k), seen with dim = 1
        allpairs(2, 4, 4 if th else 3, 2, "dtw", PS)
        allpairs(3, 3, 4 if th else 3, 1, "dtw", PS)
        if th:
            allpairs(3, 9, 3, 2, "dtw", PS, canon=True)
            allpairs(2, 4, 3, 2, "fdtw", PS)
            allpairs(2, 4, 3, 2, "frechet", ["inf"])
        else:
            allpairs(3, 9, 2, 2, "dtw", PS)
        allpairs(3, 3, 3, 1, "fdtw", PS)
        allpairs(3, 3, 3, 1, "frechet", ["inf"])
        # random
        nrand = 40000 if th else 5000
        for k in range(nrand):
            r = rng.random()
            hi = 8 if r < 0.9 else 12
            n1, n2 = rng.randint(1, hi), rng.randint(1, hi)
            style = rng.choice(["lat3", "lat3", "lat2", "half", "float", "line"])
            dim = rng.choice([1, 2, 2, 3])
            mode = rng.choice(["dtw", "dtw", "fdtw", "frechet"])
            ps = ["inf"] if mode == "frechet" else [rng.choice(PS)]
            a = self.rand_track(rng, n1, style)
            b = self.rand_track(rng, n2, style)
            if k % 10 == 9:
                out.append({"kind": "cmp", "mode": mode, "p": ps[0], "dim": dim, "a": a, "b": b})
            else:
                out.append({"kind": "m", "mode": mode, "ps": ps, "dim": dim, "a": a, "b": b})
        return out

    def rand_track(self, rng, n, style):
        if style == "lat3":
            return [[rng.randint(0, 2), rng.randint(0, 2), rng.randint(0, 2)] for _ in range(n)]
        if style == "lat2":
            return [[rng.randint(0, 1), rng.randint(0, 1), rng.randint(0, 1)] for _ in range(n)]
        if style == "half":
            return [[rng.randint(-6, 6) / 2, rng.randint(-6, 6) / 2, rng.randint(-6, 6) / 2] for _ in range(n)]
        if style == "line":   # axis-aligned: distances are integers, ties are exact in every dim
            return [[float(rng.randint(0, 4)), 0.0, float(rng.randint(0, 3))] for _ in range(n)] if rng.random() < 0.5 else \
                   [[0.0, float(rng.randint(0, 4)), 0.0] for _ in range(n)]
        return [[rng.uniform(-10, 10), rng.uniform(-10, 10), rng.uniform(-3, 3)] for _ in range(n)]

    def has_tie(self, case):
        """some interior cell of the forward table has two equal least predecessors (the back-pointer rule matters)"""
        t1, t2 = pts(case["a"]), pts(case["b"])
        p = case["ps"][0] if case["kind"] == "m" else case["p"]
        C = cost_matrix(t1, t2, case["dim"], p)
        n2, n1 = len(C), len(C[0])
        T = [[0.0] * n1 for _ in range(n2)]
        tie = False
        for i in range(n2):
            for j in range(n1):
                if i == 0 and j == 0:
                    T[i][j] = acc(p, 0.0, C[0][0])
                elif i == 0:
                    T[i][j] = acc(p, T[0][j - 1], C[i][j])
                elif j == 0:
                    T[i][j] = acc(p, T[i - 1][0], C[i][j])
                else:
                    v = sorted([T[i - 1][j - 1], T[i - 1][j], T[i][j - 1]])
                    tie = tie or v[0] == v[1]
                    T[i][j] = acc(p, v[0], C[i][j])
        return tie

    def describe(self, case):
        t1, t2 = pts(case["a"]), pts(case["b"])
        return {"kind": case["kind"], "mode": case["mode"], "dim": case["dim"],
                "p": ",".join(case["ps"]) if case["kind"] == "m" else case["p"],
                "sizes": "%s x %s" % (min(len(t1), 9), min(len(t2), 9)) if max(len(t1), len(t2)) <= 4 else "larger",
                "tie_between_predecessors": self.has_tie(case) if len(t1) > 1 and len(t2) > 1 else False}

    def nontrivial(self, case):
        # at least one interior cell: a genuine three-way minimum and a back-pointer choice
        return len(pts(case["a"])) >= 2 and len(pts(case["b"])) >= 2

    # ---------------------------------------------------------------- implementation
    @staticmethod
    def parg(case):
        """the exponent handed to a FRECHET call (which must not use it)"""
        return case.get("parg") or ("1" if (len(pts(case["a"])) + len(pts(case["b"]))) % 2 else "2")

    def out_of(self, m):
        return {"score": float(m.score), "pairs": [[int(i) for i in l] for l in m["pair"]], "nb_links": int(m.nb_links),
                "diff": [float(v) for v in m["diff"]], "ex": [float(v) for v in m["ex"]], "ey": [float(v) for v in m["ey"]]}

    def impl(self, case):
        C = self.C
        t1, t2 = self.mk(case["a"]), self.mk(case["b"])
        dim, mode = case["dim"], case["mode"]
        if case["kind"] == "cmp":
            pa = PVAL[self.parg(case)] if mode == "frechet" else PVAL[case["p"]]
            return {"value": float(C.compare(t1, t2, mode=self.CM[mode], p=pa, dim=dim, verbose=False))}
        res = {}
        for p in case["ps"]:
            # FRECHET must ignore the exponent it is given: it is called with p = 1 or 2 (`parg`), never with inf
            pa = PVAL[self.parg(case)] if mode == "frechet" else PVAL[p]
            o = self.out_of(C.match(t1, t2, mode=self.MM[mode], p=pa, dim=dim, verbose=False))
            o["score_swapped"] = float(C.match(t2, t1, mode=self.MM[mode], p=pa, dim=dim, verbose=False).score)
            if mode == "dtw":
                o["score_fast"] = float(C.match(t1, t2, mode=C.MODE_MATCHING_FDTW, p=PVAL[p], dim=dim, verbose=False).score)
            if mode == "frechet":
                o["compare"] = float(C.compare(t1, t2, mode=C.MODE_COMPARISON_FRECHET, dim=dim, verbose=False))
            res[p] = o
        return res

    # ---------------------------------------------------------------- model
    @staticmethod
    def tok(tr):
        q = pts(tr)
        return ";".join(",".join(fbits(v) for v in pt) for pt in q) if q else "_"

    def requests(self, case):
        a, b = self.tok(case["a"]), self.tok(case["b"])
        dim, mode = case["dim"], case["mode"]
        if case["kind"] == "cmp":
            return ["C18.compare %s %s %d %s %s" % (mode, self.parg(case) if mode == "frechet" else case["p"], dim, a, b)]
        out = []
        for p in case["ps"]:
            pa = self.parg(case) if mode == "frechet" else p
            out.append("C18.match %s %s %d %s %s" % (mode, pa, dim, a, b))
            out.append("C18.match %s %s %d %s %s" % (mode, pa, dim, b, a))
            if mode == "dtw":
                out.append("C18.match fdtw %s %d %s %s" % (p, dim, a, b))
            if mode == "frechet":
                out.append("C18.compare frechet inf %d %s %s" % (dim, a, b))
        return out

    @staticmethod
    def parse_out(r):
        if r.startswith("err:") or r == "bad-request":
            raise ValueError(r)
        f = r.split(" ")
        fl = lambda tok: [bitsf(x) for x in untok(tok)]
        return {"score": bitsf(f[0]), "pairs": [[int(x) for x in untok(l)] for l in untok(f[2], ";")], "nb_links": int(f[3]),
                "diff": fl(f[4]), "ex": fl(f[5]), "ey": fl(f[6])}

    def decode(self, case, replies):
        if any(r.startswith("err:") for r in replies):
            return {"err": [r for r in replies if r.startswith("err:")][0]}
        if case["kind"] == "cmp":
            return {"value": bitsf(replies[0])}
        res, k = {}, 0
        for p in case["ps"]:
            o = self.parse_out(replies[k]); k += 1
            o["score_swapped"] = self.parse_out(replies[k])["score"]; k += 1
            if case["mode"] == "dtw":
                o["score_fast"] = self.parse_out(replies[k])["score"]; k += 1
            if case["mode"] == "frechet":
                o["compare"] = bitsf(replies[k]); k += 1
            res[p] = o
        return res

    def compare(self, case, impl_out, model_out):
        if "err" in impl_out or "err" in model_out:
            if impl_out.get("err") == model_out.get("err"):
                return None
            return "impl=%s model=%s" % (impl_out, model_out)
        if case["kind"] == "cmp":
            return Prop.compare(self, case, impl_out, model_out)
        t1, t2 = pts(case["a"]), pts(case["b"])
        for p in case["ps"]:
            io, mo = impl_out[p], model_out[p]
            if io["pairs"] != mo["pairs"]:
                # a different coupling is acceptable only when it is a valid optimal one too (a tie, resolved
                # differently because of the last bit of a float): validated by the property's oracle
                C = cost_matrix(t1, t2, case["dim"], p)
                bad = check_matching(C, p, io, len(t1), len(t2), "implementation") or check_matching(C, p, mo, len(t1), len(t2), "model")
                if bad or not close(io["score"], mo["score"], TOL):
                    return "p=%s: pairs impl=%s model=%s (%s)" % (p, io["pairs"], mo["pairs"], bad or "scores differ")
                if self.exact(case):
                    return "p=%s: exact-arithmetic input, yet the couplings differ: impl=%s model=%s" % (p, io["pairs"], mo["pairs"])
                for k in ("score", "score_swapped", "score_fast", "compare"):
                    if k in io and not close(io[k], mo[k], TOL):
                        return "p=%s: %s impl=%r model=%r" % (p, k, io[k], mo[k])
                continue
            if not close(io, mo, TOL):
                return "p=%s: impl=%s model=%s" % (p, io, mo)
        return None

    def exact(self, case):
        """float arithmetic is exact on this input (integer or half-integer coordinates and integer distances),
        so ties are resolved identically by the code and by the model; FDTW's choice among equal couplings is the
        heap's, modelled too"""
        t1, t2 = pts(case["a"]), pts(case["b"])
        for q in t1 + t2:
            if any(v * 2 != int(v * 2) or abs(v) > 1000 for v in q):
                return False
        if case["dim"] == 1:
            return True
        for a in t1:
            for b in t2:
                d = odist(a, b, case["dim"])
                if d * 2 != int(d * 2):
                    return False
        return True

    # ---------------------------------------------------------------- oracle (transfer)
    def spec(self, case, out):
        t1, t2 = pts(case["a"]), pts(case["b"])
        n1, n2 = len(t1), len(t2)
        if n1 == 0 or n2 == 0:
            return None     # the property is about tracks of sizes 1..n
        if "err" in out:
            return "raised %s (%s)" % (out["err"], out.get("detail", ""))
        dim, mode = case["dim"], case["mode"]
        if case["kind"] == "cmp":
            p = "inf" if mode == "frechet" else case["p"]
            if p != "inf":
                return None   # (score/nb_links)^(1/p): not part of the statement; correspondence only
            want = optimum(cost_matrix(t1, t2, dim, "inf"), "inf")
            if not close(out["value"], want, TOL):
                return "compare(%s) = %r, the discrete Frechet distance (least maximal link over all couplings) is %r" % (mode, out["value"], want)
            return None
        for p in case["ps"]:
            pe = "inf" if mode == "frechet" else p
            o = out[p]
            C = cost_matrix(t1, t2, dim, pe)
            want = optimum(C, pe)
            what = "%s p=%s dim=%d" % (mode, pe, dim)
            if not close(o["score"], want, TOL):
                return "%s: score %r, the least accumulated cost over all monotone couplings is %r" % (what, o["score"], want)
            if not close(o["score_swapped"], o["score"], TOL):
                return "%s: score %r but %r with the two tracks swapped" % (what, o["score"], o["score_swapped"])
            bad = check_matching(C, pe, o, n1, n2, what)
            if bad:
                return bad
            if "score_fast" in o and not close(o["score_fast"], o["score"], TOL):
                return "%s: the fast variant reports %r, DTW reports %r" % (what, o["score_fast"], o["score"])
            if "compare" in o and not close(o["compare"], want, TOL):
                return "%s: compare(FRECHET) = %r, the discrete Frechet distance is %r" % (what, o["compare"], want)
        return None

    # ---------------------------------------------------------------- shrinking / search
    def shrink(self, case):
        if case["kind"] == "m" and len(case["ps"]) > 1:
            for p in case["ps"]:
                yield dict(case, ps=[p])
        a, b = pts(case["a"]), pts(case["b"])
        for k in range(len(a)):
            if len(a) > 1:
                yield dict(case, a=a[:k] + a[k + 1:], b=b)
        for k in range(len(b)):
            if len(b) > 1:
                yield dict(case, a=a, b=b[:k] + b[k + 1:])
        for which, t in (("a", a), ("b", b)):
            for k in range(len(t)):
                for c in range(3):
                    if t[k][c] != 0:
                        t2 = [list(q) for q in t]
                        t2[k][c] = 0.0 if abs(t[k][c]) <= 1 else float(int(t[k][c] / 2))
                        yield dict(case, **{"a": a, "b": b, which: t2})

    def search_cases(self, rng):
        # the quick scopes again (other random draws) rather than the 290 k cases of the thorough tier
        return self.cases(rng, "quick")

    def mutate(self, case, rng):
        a, b = pts(case["a"]), pts(case["b"])
        if not a or not b:
            return
        for _ in range(20):
            t = [list(q) for q in a]
            u = [list(q) for q in b]
            for tr in (t, u):
                k = rng.randrange(len(tr))
                tr[k] = [float(rng.randint(0, 2)), float(rng.randint(0, 2)), float(rng.randint(0, 2))]
            yield dict(case, a=t, b=u)
