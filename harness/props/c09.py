"""C09 — hidden-Markov decoding returns a maximum-likelihood state sequence
(tracklib/algo/dynamics.py: HMM.Qlog, HMM.Plog, HMM.estimate)."""
import math, itertools
from fractions import Fraction
from engine import Prop, fbits, bitsf, ratstr, parse_rat, tok_list, untok, close, err_kind
from props import c09sess as SS

V_LOG = [0, -1, -2]        # what P / Q return when the model is declared log=True: log-likelihoods, i.e. costs 0, 1, 2
V_LIK = [0, 0.5, 1]        # likelihoods
V_INF = [0, -1, "-inf"]    # log-likelihoods with IMPOSSIBLE entries (the logarithm of a zero probability): costs 0, 1, +inf
SENTINEL = 1e300           # best_val's start value in HMM.estimate
SPECIAL = {"inf": float("inf"), "-inf": float("-inf"), "nan": float("nan")}


def num(v):
    """table entries are JSON-safe: the non-finite doubles are written "inf" / "-inf" / "nan" in a case"""
    return SPECIAL[v] if isinstance(v, str) else v


def nums(t):
    return [nums(x) for x in t] if isinstance(t, list) else num(t)


def tok(v):
    """the inverse of num"""
    if isinstance(v, float) and v != v:
        return "nan"
    if isinstance(v, float) and math.isinf(v):
        return "inf" if v > 0 else "-inf"
    return v
BLOCK = 243                # configurations per enumerated block (3^5)
TOL = 1e-9


def nP(n):
    return sum(n)


def nQ(n):
    return sum(a * b for a, b in zip(n, n[1:]))


def unflatten(n, flat):
    """flat value list (P epoch-major, then Q as for k, for m, for l) -> (P, Q) nested tables"""
    it = iter(flat)
    P = [[next(it) for _ in range(nk)] for nk in n]
    Q = [[[next(it) for _ in range(b)] for _ in range(a)] for a, b in zip(n, n[1:])]
    return P, Q


def flatten(P, Q):
    return [v for row in P for v in row], [v for blk in Q for row in blk for v in row]


def config(n, index, values):
    """the index-th table assignment of shape n over the 3-value set (digits base 3, little endian)"""
    e = nP(n) + nQ(n)
    flat = []
    for _ in range(e):
        flat.append(values[index % 3])
        index //= 3
    return unflatten(n, flat)


def shapes(T, S):
    return [list(s) for t in range(1, T + 1) for s in itertools.product(range(1, S + 1), repeat=t)]


def cost_of(v, log):
    """the cost the property attaches to a value returned by P / Q"""
    return -v if log else -math.log(v + 1e-300)


def best_by_enumeration(n, CP, CQ):
    """minimum total cost over ALL index sequences (one index < n_k per epoch), by exhaustive depth-first
    enumeration with the left fold ((c + q) + p) the statement's cost is defined by. Independent of any DP."""
    N = len(n)
    best = [None]

    def rec(k, prev, acc):
        if k == N:
            if best[0] is None or acc < best[0]:
                best[0] = acc
            return
        for l in range(n[k]):
            rec(k + 1, l, (CQ[k - 1][prev][l] + acc) + CP[k][l])
    for l in range(n[0]):
        rec(1, l, CP[0][l])
    return best[0]


def max_likelihood(n, P, Q):
    """maximum joint likelihood (exact rational product) over all sequences"""
    N = len(n)
    FP = [[Fraction(v) for v in row] for row in P]
    FQ = [[[Fraction(v) for v in row] for row in blk] for blk in Q]
    best = [Fraction(-1)]

    def rec(k, prev, acc):
        if k == N:
            if acc > best[0]:
                best[0] = acc
            return
        for l in range(n[k]):
            rec(k + 1, l, acc * FQ[k - 1][prev][l] * FP[k][l])
    for l in range(n[0]):
        rec(1, l, FP[0][l])
    return best[0]


def seq_cost(idx, CP, CQ):
    """prefix costs of an index sequence (left fold as in the statement)"""
    out = [CP[0][idx[0]]]
    for k in range(1, len(idx)):
        out.append((CQ[k - 1][idx[k - 1]][idx[k]] + out[-1]) + CP[k][idx[k]])
    return out


def same(a, b, exact):
    if exact:
        return a == b
    return close(a, b, TOL)


class P(Prop):
    id = "C09"
    design_ref = "DESIGN.md section 5, C09 and appendix A.4"
    M = "TracklibVerif.Props.C09"
    H = "TracklibVerif.Lemmas.Hmm"
    theorems = [
        (M, "TV.C09.decode_succeeds", "with >= 1 candidate per epoch the table-building decoder (what the driver runs) does not fail and records one entry per epoch"),
        (M, "TV.C09.decoded_valid", "T1: the state inferred at epoch k is an index < n_k, i.e. one of THAT epoch's candidates (no hypothesis on costs)"),
        (M, "TV.C09.decoded_cost", "T2: hmm_cost at epoch k is the left-fold cost of the decoded prefix; at the last epoch it is the minimum of the last column TAB_VAL[N]"),
        (M, "TV.C09.decoded_optimal", "T3: the decoded sequence costs no more than any sequence choosing one candidate per epoch, and the last recorded cost is that minimum (monotone accumulation, path costs below the sentinel)"),
        (M, "TV.C09.decoded_optimal_add", "T3 for + over any ordered additive commutative monoid (N, Z, Q, R)"),
        (M, "TV.C09.likelihood_form", "T4 (reals): with costs -log(v+eps) of likelihoods with v+eps > 0 the decoded sequence has maximal guarded joint likelihood and the recorded final cost is -log of that maximum"),
        (M, "TV.C09.logs_supplied_same", "T4b: supplying log(v+eps) with log=True gives the decoder the same cost tables, hence the same sequence and costs"),
        (M, "TV.C09.zero_factors_minimised", "T4c (reals): likelihoods 0 or in [a,b], guard eps > 0 small against them (eps (b+eps)^(2N) < a^(2N+1)): the decoded sequence has the fewest zero factors among all candidate sequences"),
        (M, "TV.C09.zero_avoided", "T4c corollary: if some candidate sequence has no zero likelihood, the decoded sequence has none"),
        (M, "TV.C09.estimate_spec", "T5: one call of estimate on any well-formed track (whatever it carried: hmm_* of an earlier decoding, of the user, a copy) raises nothing, or-s log into the object, writes STATES[k][i_k] and the recorded cost of the decoding of THIS call's tables at every epoch, leaves every other feature unchanged"),
        (M, "TV.C09.estimate_optimal", "T6: end to end over an ordered additive group: the states read from hmm_inference after the call are candidates of their epochs and form a minimal-cost sequence for the tables of this call; hmm_cost at the last epoch is that minimum"),
        (M, "TV.C09.estimate_twice", "T7: two calls on the same track (other object / model / observations / flag / mode): after the second call the result features hold the decoding of the second call, compiled from the track as the first call left it"),
        (M, "TV.C09.estimate_positions", "T8 (modes 3,4,5): the call writes no coordinate of any object (own positions and state objects keep theirs, also a state that is the position object of another epoch or is shared by several epochs); in modes 3,4,5 the position of every epoch is rebound to the state object recorded in hmm_inference, in every other mode every position is the object it was"),
        (M, "TV.C09.positions_as_observations", "T9: the names x, y, z as observations read the coordinates of the object the position of that epoch is when the call is made (MarkovRegularization: obs=[x,y,z], mode 4)"),
        (M, "TV.C09.estimate_then_xyz", "T8+T9: after a decoding in mode 3,4,5, x / y / z of every epoch read the coordinates of the decoded state of that epoch"),
        (M, "TV.C09.any_sequence_of_candidates", "T10: S(track,k) is used through len() and [i] only: when every epoch's return value has a length (list, tuple, numpy array, range, deque, user sequence) the call is estimate on the items in index order - same flag, track, exception"),
        (M, "TV.C09.negative_likelihood_raises", "T12: flag unset and some value returned by P / Q for a candidate (pair) is outside the domain of math.log once 1e-300 is added (a negative 'likelihood'): ValueError from the first column / forward pass, nothing of the track written"),
        (M, "TV.C09.no_domain_error_of_log", "with the flag set (constructor, setLog or the argument of the call) nothing is converted: math.log is not called"),
        (M, "TV.C09.paths_below_of_bounded", "the sentinel hypothesis made checkable: no table entry above B >= 0 and 2N*B below the sentinel imply PathsBelow"),
        (M, "TV.C09.likelihood_form_nonneg", "T4': for non-negative likelihoods (zeros and values above 1 included), guard 0 < eps <= 1 and 2N*(-log eps) below the sentinel (code's constants: < 1e296 epochs) the decoded sequence has maximal guarded joint likelihood and the last recorded cost is -log of it - no hypothesis on running costs"),
        (M, "TV.C09.candidates_without_length", "T11: S returning at some epoch something without a length (generator, None, a bare state): TypeError, the flag or-ed into the object, nothing of the track written"),
        (M, "TV.C09.estimate_reads_call_time_track", "T13: S(track,k), Q(..,track), P(..,track) may read the track: estimate depends on them only through their values on the track it is handed as it is when the call is made - functions that agree there (and differ on any other track, e.g. the half-written ones of the backward step) give the same track, exception and flag"),
        (M, "TV.C09.estimate_is_frozen_model", "T13, oracle form: decoding with track-reading user functions is decoding with the candidate lists and likelihood tables frozen when the call is made"),
        (M, "TV.C09.estimateS_reads_call_time_track", "T13 for any return type of S and any numbers (TypeError / ValueError of math.log included)"),
        (M, "TV.C09.user_exception_nothing_written", "T14: whenever the call ends with the exception of a user function the track is exactly what it was (no feature created, no cell, no position) and the flag has been or-ed"),
        (M, "TV.C09.user_exception_from_S", "T14a: S(track,k) raising at some epoch - whatever the other epochs return, whatever the observation names: that exception, nothing written (every S(track,k) is called before the first len())"),
        (M, "TV.C09.user_exception_from_call", "T14b: the first failing Plog / Qlog call in the order of the code (first column; per epoch, per candidate: transitions from every candidate of the previous epoch, then the observation) is a user function's exception: it propagates, nothing written"),
        (M, "TV.C09.no_user_exception", "T14c: no user function raises on the track of the call: the call is estimateS on the functions' values (T10-T12, hence T5-T9)"),
        ("TracklibVerif.Lemmas.HmmCall", "TV.Hmm.estimateS_ne_user", "estimate with total user functions never reports a user function's exception: every error of the front end is one of its own (index, value, exit, AnalyticalFeatureError, type)"),
        ("TracklibVerif.Lemmas.HmmPos", "TV.Hmm.writeBack_forward_pos", "the backward loop in modes 3,4,5: the position of every epoch j is rebound to STATES[j][back j], the object written to hmm_inference[j]"),
        ("TracklibVerif.Lemmas.HmmPos", "TV.Hmm.writeBack_xyz", "the backward loop, whatever the tables and wherever it stops: no coordinate of the track's own position objects is written"),
        (H, "TV.Hmm.writeBack_forward", "the backward loop with its writes: hmm_inference[j] = STATES[j][back j], hmm_cost[j] = TAB_VAL[j][back j] for every epoch, nothing else touched, no exception"),
        (H, "TV.Hmm.estimate_last_empty", "an empty candidate list at the last epoch: ValueError after the two features were created, nothing decoded, other features unchanged"),
        ("TracklibVerif.Lemmas.ViterbiTable", "TV.Viterbi.decode_eq", "refinement: the table-building decode equals the function-style back-pointer path from a minimal last state with the function-style values"),
        ("TracklibVerif.Lemmas.ViterbiTable", "TV.Viterbi.sentinel_of_paths", "if every candidate sequence's running cost stays below 1e300 then every value compared with best_val is below it"),
        (M, "TV.C09.decoded_optimal_feasible", "T15: T1-T3 with NO hypothesis on running costs: costs that never decrease a value (non-negative, +inf = impossible allowed) and SOME candidate sequence below the sentinel: candidates assigned, hmm_cost at every epoch is the decoded prefix cost, the decoded sequence costs no more than ANY candidate sequence and is below the sentinel"),
        (M, "TV.C09.decoded_infeasible", "T16: every candidate sequence costs at least the sentinel (no possible sequence): candidates are still assigned, the cost recorded at the last epoch is >= 1e300 (1e300 + p, not +inf)"),
        (M, "TV.C09.sentinel_cell", "T17: a candidate none of whose predecessors offers a value below 1e300 gets back-pointer 0 and value 1e300 + p (no hypothesis on the tables)"),
        (M, "TV.C09.infl_add", "+ with non-negative costs never decreases a running value (ordered additive commutative monoid; WithTop: +inf is a non-negative cost)"),
        (M, "TV.C09.decoded_optimal_feasible_add", "T15 for + and non-negative costs over any ordered additive commutative monoid (N, Q>=0, WithTop Q, ENNReal)"),
        (M, "TV.C09.estimate_optimal_feasible", "T6b: end to end without PathsBelow (ordered additive commutative monoid with negation, e.g. the extended reals): non-negative cost tables of THIS call (+inf allowed) and some candidate sequence below the sentinel: hmm_inference holds candidates, hmm_cost at EVERY epoch the decoded prefix cost, the decoded sequence is minimal among all candidate sequences"),
        (M, "TV.C09.impossible_avoided", "T18: costs in WithTop (top = impossible transition / emission, -log 0): if some candidate sequence is below the sentinel the decoded sequence uses NO impossible entry and is the cheapest of all sequences"),
        (M, "TV.C09.argmin_first_nan", "T19: numpy.argmin on a column that holds a NaN returns the index of the FIRST NaN whatever the other entries (any type with < and ==; the model's argmin? is numpy's loop)"),
        ("TracklibVerif.Lemmas.ViterbiSentinel", "TV.Viterbi.decoded_no_sentinel_hyp", "function style: minimal last entry below the sentinel iff some sequence is; then back-pointer path = prefix costs and optimal; else the recorded value is >= the sentinel"),
        ("TracklibVerif.Lemmas.ViterbiSentinel", "TV.Viterbi.val_le_cost_any", "TAB_VAL[k][l] <= cost of every sequence ending in l at epoch k - monotone accumulation only, no hypothesis on the sentinel"),
    ]
    partial = []
    open_statements = [
        "IEEE-754: monotonicity of float + on finite values and the rounding of math.log are not proved (theorems are over linear orders / ordered monoids / groups / reals); the float streams are covered by the correspondence and the sampled oracle only",
        "non-finite numbers and the sentinel: numpy.argmin's NaN rule is in the model (argmin?: first NaN, else first minimum; T19) and +inf / NaN / -inf costs and costs >= 1e300 run through the correspondence (IEEE doubles: single calls, enumerated {0,-1,-inf} tables, histories); PROVED over linear orders with a monotone accumulation that never decreases a value (non-negative costs, +inf = impossible allowed: T15-T18). NOT covered by a theorem: negative costs (log-likelihoods above 0: densities) together with a reached sentinel - T3 keeps PathsBelow there (discharged for bounded entries and non-negative likelihoods: paths_below_of_bounded, likelihood_form_nonneg); NaN / cost -inf tables beyond T19 (what the forward scan does with them is the model's, compared only). When NO candidate sequence costs less than 1e300 (e.g. every sequence goes through an impossible transition) the code records hmm_cost = 1e300 + p at the last epoch, not the true (infinite) cost: outside the statement's domain as the oracle reads it (optimum below the sentinel), stated as T16 / T17",
        "the user functions S, Q, P are parameters of the model (any functions of state, observation, epoch and track - track-reading ones included: T13; raising ones included: T14, one exception kind for all of them); user functions with SIDE EFFECTS (writing the track, an iterator that is consumed, random sampling: S(track,k) called twice would differ) are outside the model - a function is a value here",
        "feature names t, timestamp as observations are outside the model (`unsupported`; x, y, z are modelled: T9); writing x, y, z through setObsAnalyticalFeature (an in-place write of the position object by the USER) is outside the model",
        "object identity: the model represents a state by its label and a position by a reference (own object / state object), with no writer of a coordinate, so 'estimate does not modify what S returned' is a property of the model by construction (T8: xyz unchanged, stXYZ a constant); that the IMPLEMENTATION modifies neither a state object nor a container is checked by the harness after every call (every candidate re-read by value, every container re-read by identity), not proved",
        "S returning a container whose len() / [i] have side effects or disagree (a dict, a one-shot view), or a bare state that itself has a length (a str, a tuple: its items become the candidates) are outside the model",
    ]
    modelled = ("tracklib/algo/dynamics.py: HMM.__init__ / setLog / setStates / setTransitionModel / setObservationModel (the object: S, Q, P, log), "
                "HMM.Qlog / HMM.Plog (conversion -log(v + 1e-300) unless the flag is set; ValueError of math.log when v + 1e-300 <= 0), HMM.__getObs (feature values of the epoch, the first two / three "
                "fields merged into a Coords in modes 1,3 / 2,4, exit() when there are too few), HMM.estimate as a whole: self.log = self.log or log, "
                "compilation of STATES (whatever S returns: used through len() and [i]; TypeError of len() on a generator / None / bare state before anything is written) "
                "and OBS before any write, every user function evaluated on the track of the call (they may read it) and in the order of the code "
                "(all S, then the first column, then per epoch and candidate the transitions and the observation: the first exception of a user function "
                "or of math.log leaves the call), first column, forward recursion with the 1e300 sentinel and strict <, "
                "createAnalyticalFeature of the two result names (no-op when present), numpy.argmin of the last column with its NaN rule (the index of the FIRST NaN "
                "if there is one, else of the first minimum; the forward scan never takes a NaN: nan < best_val is false), backward loop writing the state "
                "OBJECT and the recorded cost per epoch and the position in modes 3,4,5, with the partial writes left by an IndexError / ValueError on "
                "an epoch without candidates; tracklib/core/track.py as far as this path uses it: createAnalyticalFeature, setObsAnalyticalFeature, "
                "getObsAnalyticalFeature(s) on the name -> column table and on the names x, y, z (coordinates of the object the position is: the track's own, "
                "or the state object bound there by a decoding in mode 3,4,5), copy(). There is no decoding mode besides Viterbi: `mode` only selects how "
                "observations are assembled and whether positions are overwritten; `verbose` only prints (randomised by the harness, not a parameter of the model)")
    trusted = ["numpy.argmin of a list of Python floats is numpy's double loop: the first NaN if any, else the first minimum (modelled as that loop: argmin? / argminFrom; exercised by the correspondence on columns with NaN, +-inf, ties)",
               "math.log / Lean Float.log (C library) in the likelihood streams; the theorems about likelihoods are over the reals",
               "copy.deepcopy of a track yields an independent track with equal features (the model's tracks are values)",
               "len() and integer indexing (with a Python int or a numpy.int64) of the containers S returns - tuple, numpy.ndarray, collections.deque, range - are Python's / numpy's: the model sees the items in index order"]
    rule = ("single calls: user-supplied S/Q/P read from tables, states labelled 10*epoch+index and callbacks that raise when called with a state or "
            "observation of the wrong epoch; enumerated blocks of all tables of a shape over {0,-1,-2} (logs) and {0,0.5,1} (likelihoods); "
            "random shapes to T=8, S=5 with integer, dyadic and float values; log-likelihoods with IMPOSSIBLE entries (-inf: zero-probability transitions / "
            "emissions, the normal case in map-matching; enumerated over {0,-1,-inf} for the small shapes, random with 29% / 60% of -inf: a possible sequence "
            "exists or not), costs that reach the 1e300 start value of the scan, NaN and +inf entries (numpy.argmin's NaN rule, inf - inf), inf / NaN handed over "
            "as likelihoods; non-finite entries are written \"inf\" / \"-inf\" / \"nan\" in a case; the oracle applies to a call iff every cost is a number above -inf and the "
            "enumerated optimum is below 1e300 (a predicate on the input), elsewhere the model is the only reference and a differing answer is a disagreement, never a tie; "
            "the flag given to the constructor, to setLog or to estimate(); "
            "S returning a list, tuple, numpy array, range or user sequence. "
            "histories (props/c09sess.py): tracks of 1..8 epochs with 1..3 discrete observation features whose values repeat, 1..4 models whose P depends on "
            "(state label, observed value, epoch) and Q on (label, label, epoch) (time-inhomogeneous or stationary), candidate lists over 1..4 labels that "
            "repeat across epochs (and inside one), state objects of 8 kinds (ints, strings, tuples, unhashable lists, equal-but-distinct hashable / "
            "unhashable objects, identity objects, positions, positions of the track itself), 1..3 HMM objects, 1..4 estimate calls interleaved with setLog / setStates / "
            "setTransitionModel / setObservationModel (16% of the models over log-likelihoods with -inf / NaN / +inf / -1e300 entries), edits of observations, copy() of the track, user features named hmm_inference / hmm_cost, "
            "hmm_inference / hmm_cost / idx / x / y / z used as observations, modes 0..6, all verbose levels; S returning per epoch a list, tuple, numpy array "
            "(int64 / object), user class with __len__/__getitem__, deque or range - or a generator / None / bare state (TypeError, outside the statement); "
            "state objects and containers fresh at every call, or constants of the session, or ONE container object for all epochs; flavour trackpos: the "
            "candidate states are the position OBJECTS of the decoded track (other epochs' positions), decoded in modes 3,4,5 too; every label is read from the "
            "state's VALUE after the call and every candidate / container is re-read after the call; the oracle re-derives the optimum of EVERY call by "
            "enumeration from the tables and the observations that call was given. User functions that READ THE TRACK they are handed (22% of the models): "
            "S(track,k) chooses its candidate table, Q / P the column of their table from a digit read at epoch k+off (off -1..2, cyclic) of x, y, z, idx, "
            "hmm_inference, hmm_cost or a user feature - candidates laid out from the next fix, a model that depends on an earlier decoding; in the modes 3,4,5 "
            "and in second decodings the value read changes WHILE the call writes its result; the oracle freezes what every such function saw in the track "
            "when the call was made and enumerates that model. User functions that RAISE for some arguments (5% of the models; S at an epoch, P at (epoch, state), "
            "Q at (epoch, state, state)): outside the statement when the argument is reached, status and untouched track compared. non-trivial = at least 2 epochs and at least 2 candidate sequences")

    # ------------------------------------------------------------------ setup / implementation
    def setup(self):
        from tracklib.core import Obs, ENUCoords, ObsTime
        from tracklib.core.track import Track
        from tracklib.algo import dynamics
        self.Obs, self.ENU, self.ObsTime, self.Track, self.dyn = Obs, ENUCoords, ObsTime, Track, dynamics
        self.runner = SS.Runner(Obs, ENUCoords, ObsTime, Track, dynamics)

    def run_hmm(self, n, Pt, Qt, log, via="ctor", cont="list"):
        """decode through the public API; returns {"states": labels, "cost": recorded hmm_cost}.
        `cont`: the type of what S returns (estimate() only uses len() and [i])"""
        N = len(n)
        tr = self.Track([self.Obs(self.ENU(float(k), 0.0, 0.0), self.ObsTime.readUnixTime(60 * k)) for k in range(N)])
        if N > 0:
            tr.createAnalyticalFeature("yk", [float(k) for k in range(N)])

        def S(track, k):
            labs = [10 * k + l for l in range(n[k])]
            return SS.make_container(cont, labs, labs, "int")

        def Qf(s1, s2, k, track):
            if s1 // 10 != k or s2 // 10 != k + 1:
                raise LookupError("Q called at epoch %r with states %r -> %r of other epochs" % (k, s1, s2))
            return Qt[k][s1 % 10][s2 % 10]

        def Pf(s, y, k, track):
            if s // 10 != k or y != k:
                raise LookupError("P called at epoch %r with state %r / observation %r of another epoch" % (k, s, y))
            return Pt[k][s % 10]
        if via == "ctor":
            h = self.dyn.HMM(S, Qf, Pf, log=log)
            h.estimate(tr, "yk", mode=self.dyn.MODE_OBS_AS_SCALAR, verbose=self.dyn.MODE_VERBOSE_NONE)
        elif via == "setter":
            h = self.dyn.HMM()
            h.setStates(S); h.setTransitionModel(Qf); h.setObservationModel(Pf); h.setLog(log)
            h.estimate(tr, "yk", mode=self.dyn.MODE_OBS_AS_SCALAR, verbose=self.dyn.MODE_VERBOSE_NONE)
        else:  # "estimate-arg": the flag is given to estimate() itself
            h = self.dyn.HMM(S, Qf, Pf)
            h.estimate(tr, "yk", log=log, mode=self.dyn.MODE_OBS_AS_SCALAR, verbose=self.dyn.MODE_VERBOSE_NONE)
        states = [tr.getObsAnalyticalFeature("hmm_inference", k) for k in range(N)]
        cost = [tr.getObsAnalyticalFeature("hmm_cost", k) for k in range(N)]
        import numpy as np
        states = [int(s) if isinstance(s, (int, np.integer)) and not isinstance(s, bool) else repr(s) for s in states]
        cost = [c if isinstance(c, int) and not isinstance(c, bool) else float(c) for c in cost]
        return {"states": states, "cost": cost}

    def safe_run(self, *a, **kw):
        try:
            return self.run_hmm(*a, **kw)
        except BaseException as e:
            if isinstance(e, KeyboardInterrupt):
                raise
            return {"err": err_kind(e), "detail": str(e)[:120]}

    @staticmethod
    def logs_of(Pt, Qt):
        """the tables a user holding likelihoods would pass as logarithms"""
        return ([[math.log(v + 1e-300) for v in row] for row in Pt],
                [[[math.log(v + 1e-300) for v in row] for row in blk] for blk in Qt])

    def run_config(self, n, Pt, Qt, log, via="ctor", cont="list"):
        if log:
            return {"log": self.safe_run(n, Pt, Qt, True, via, cont)}
        LP, LQ = self.logs_of(Pt, Qt)
        return {"lik": self.safe_run(n, Pt, Qt, False, via, cont), "log": self.safe_run(n, LP, LQ, True, via, cont)}

    def items(self, case):
        """the explicit configurations (n, P, Q, log, exact) a case stands for"""
        if case["kind"] == "exh":
            vals = self.exh_values(case)
            for i in range(case["start"], case["start"] + case["count"]):
                Pt, Qt = config(case["n"], i, vals)
                yield case["n"], nums(Pt), nums(Qt), case["log"], case["log"] and not case.get("vals")
        else:
            yield case["n"], nums(case["P"]), nums(case["Q"]), case["log"], bool(case.get("exact"))

    @staticmethod
    def exh_values(case):
        if case.get("vals") == "inf3":
            return V_INF
        return V_LOG if case["log"] else V_LIK

    def impl(self, case):
        if case["kind"] == "sess":
            if not SS.valid(case):
                return {"err": "invalid-session"}
            return self.runner.run(case)
        via = case.get("via", "ctor")
        outs = [self.run_config(n, Pt, Qt, log, via, case.get("cont", "list")) for (n, Pt, Qt, log, ex) in self.items(case)]
        return {"items": outs}

    # ------------------------------------------------------------------ model
    def req_lines(self, n, Pt, Qt, log, exact):
        pf, qf = flatten(Pt, Qt)
        ns = tok_list(map(str, n))
        if exact:
            return ["C09.decodeQ log %s %s %s" % (ns, tok_list(map(ratstr, pf)), tok_list(map(ratstr, qf)))]
        if log:
            return ["C09.decodeF log %s %s %s" % (ns, tok_list(map(fbits, pf)), tok_list(map(fbits, qf)))]
        LP, LQ = self.logs_of(Pt, Qt)
        lpf, lqf = flatten(LP, LQ)
        return ["C09.decodeF lik %s %s %s" % (ns, tok_list(map(fbits, pf)), tok_list(map(fbits, qf))),
                "C09.decodeF log %s %s %s" % (ns, tok_list(map(fbits, lpf)), tok_list(map(fbits, lqf)))]

    def requests(self, case):
        if case["kind"] == "sess":
            return [SS.request(case, fbits, tok_list)]
        out = []
        for it in self.items(case):
            out += self.req_lines(*it)
        return out

    @staticmethod
    def parse_reply(rep, exact):
        if rep.startswith("err:"):
            return {"err": rep}
        a, b = rep.split(" ")
        idx = [int(t) for t in untok(a)]
        if exact:
            cost = []
            for t in untok(b):
                f = parse_rat(t)
                cost.append(int(f) if f.denominator == 1 else float(f))
        else:
            cost = [bitsf(t) for t in untok(b)]
        return {"states": [10 * k + l for k, l in enumerate(idx)], "cost": cost}

    def decode(self, case, replies):
        if case["kind"] == "sess":
            return SS.parse_reply(case, replies[0], bitsf, untok)
        outs, i = [], 0
        for (n, Pt, Qt, log, exact) in self.items(case):
            if log:
                outs.append({"log": self.parse_reply(replies[i], exact)}); i += 1
            else:
                outs.append({"lik": self.parse_reply(replies[i], False), "log": self.parse_reply(replies[i + 1], False)}); i += 2
        if i != len(replies):
            raise ValueError("reply count")
        return {"items": outs}

    # ------------------------------------------------------------------ oracle
    def well_posed(self, n):
        return len(n) >= 1 and all(nk >= 1 for nk in n)

    @staticmethod
    def in_domain(CP, CQ, opt):
        """the statement speaks about likelihoods: every cost is a number above -inf (a likelihood is finite), and — the
        documented limit of the implementation — the optimum is below the 1e300 start value of the scan. Costs of +inf
        (IMPOSSIBLE transitions / emissions, the logarithm of a zero probability) are inside as long as some candidate
        sequence is possible. Outside: NaN, cost -inf, no possible sequence / optimum >= 1e300 (Props T16, T17 say what the
        code does there: candidates are assigned, the recorded cost is 1e300 + p, not the true cost)."""
        flat = [v for row in CP for v in row] + [v for blk in CQ for row in blk for v in row]
        if any(v != v or v == float("-inf") for v in flat):
            return False
        return opt is not None and opt == opt and opt < SENTINEL

    def check_run(self, n, CP, CQ, opt, res, exact, what):
        """property oracle for one decoding result, given the per-entry costs and the enumerated optimum"""
        if not self.in_domain(CP, CQ, opt):
            return None
        if "err" in res:
            return "%s: decoding raised %s (%s)" % (what, res["err"], res.get("detail", ""))
        st, co = res["states"], res["cost"]
        N = len(n)
        if len(st) != N or len(co) != N:
            return "%s: %d epochs but %d states / %d costs recorded" % (what, N, len(st), len(co))
        idx = []
        for k, s in enumerate(st):
            if not isinstance(s, int) or s // 10 != k or not (0 <= s % 10 < n[k]):
                return "%s: epoch %d is assigned %r, which is not one of its %d candidate states %s" % (
                    what, k, s, n[k], [10 * k + l for l in range(n[k])])
            idx.append(s % 10)
        total = seq_cost(idx, CP, CQ)[-1]
        if not same(total, opt, exact) and not (total < opt):
            return "%s: decoded sequence %s has total cost %r but the best of all %d candidate sequences costs %r" % (
                what, idx, total, math.prod(n), opt)
        if not same(co[-1], opt, exact):
            return "%s: cost recorded at the last epoch is %r, the optimum over all candidate sequences is %r" % (what, co[-1], opt)
        return None

    def spec_item(self, n, Pt, Qt, log, exact, out):
        if not self.well_posed(n):
            return None   # outside the statement's quantifier (an epoch without candidates, or no epoch)
        if log:
            CP = [[cost_of(v, True) for v in row] for row in Pt]
            CQ = [[[cost_of(v, True) for v in row] for row in blk] for blk in Qt]
            opt = best_by_enumeration(n, CP, CQ)
            return self.check_run(n, CP, CQ, opt, out["log"], exact, "logs")
        pf, qf = flatten(Pt, Qt)
        if any(v != v or math.isinf(v) or v < 0 for v in pf + qf):
            return None   # not likelihoods (NaN, inf, negative): outside the statement
        CP = [[cost_of(v, False) for v in row] for row in Pt]
        CQ = [[[cost_of(v, False) for v in row] for row in blk] for blk in Qt]
        opt = best_by_enumeration(n, CP, CQ)
        m = self.check_run(n, CP, CQ, opt, out["lik"], False, "likelihoods")
        if m:
            return m
        # maximum joint likelihood, exactly
        idx = [s % 10 for s in out["lik"]["states"]]
        lik = Fraction(Pt[0][idx[0]])
        for k in range(1, len(n)):
            lik *= Fraction(Qt[k - 1][idx[k - 1]][idx[k]]) * Fraction(Pt[k][idx[k]])
        mx = max_likelihood(n, Pt, Qt)
        if lik < mx * (1 - Fraction(1, 10 ** 9)):
            return "likelihoods: decoded sequence %s has joint likelihood %s, the maximum over all candidate sequences is %s" % (
                idx, float(lik), float(mx))
        # the same model supplied as logarithms: a sequence of the same optimal cost
        m = self.check_run(n, CP, CQ, opt, out["log"], False, "same model given as logarithms")
        if m:
            return m
        return None

    def spec(self, case, impl_out):
        if case["kind"] == "sess":
            return SS.spec(case, impl_out)
        if "items" not in impl_out:
            return "harness: %s" % impl_out
        for i, (it, out) in enumerate(zip(self.items(case), impl_out["items"])):
            m = self.spec_item(*it, out)
            if m:
                if case["kind"] == "exh":
                    return "configuration %d of shape %s: %s" % (case["start"] + i, case["n"], m)
                return m
        return None

    # ------------------------------------------------------------------ comparison
    def cmp_run(self, n, Pt, Qt, log_costs, exact, ri, rm, what):
        """implementation vs model for one decoding run; a different sequence is accepted iff it is itself
        optimal and the recorded costs are the prefix costs of that sequence (tie-breaking is not part of the property)"""
        if "err" in ri or "err" in rm:
            if ri.get("err") == rm.get("err"):
                return None
            return "%s: impl=%s model=%s" % (what, ri, rm)
        if ri["states"] == rm["states"]:
            if len(ri["cost"]) == len(rm["cost"]) and all(same(a, b, exact) for a, b in zip(ri["cost"], rm["cost"])):
                return None
            return "%s: recorded costs differ impl=%s model=%s" % (what, ri["cost"], rm["cost"])
        if not self.well_posed(n):
            return "%s: impl=%s model=%s" % (what, ri, rm)
        CP = [[cost_of(v, log_costs) for v in row] for row in Pt]
        CQ = [[[cost_of(v, log_costs) for v in row] for row in blk] for blk in Qt]
        opt = best_by_enumeration(n, CP, CQ)
        if not self.in_domain(CP, CQ, opt):
            return "%s: outside the statement (NaN / cost -inf / no sequence below the sentinel), where the model is the only reference: impl=%s model=%s" % (what, ri, rm)
        m = self.check_run(n, CP, CQ, opt, ri, exact, what)
        if m:
            return "%s: differs from the model (%s) and is not optimal: %s" % (what, rm["states"], m)
        pre = seq_cost([s % 10 for s in ri["states"]], CP, CQ)
        if not all(same(a, b, exact) for a, b in zip(ri["cost"], pre)):
            return "%s: another optimal sequence %s, but recorded costs %s are not its prefix costs %s" % (what, ri["states"], ri["cost"], pre)
        return None

    def compare(self, case, impl_out, model_out):
        if case["kind"] == "sess":
            return SS.compare(case, impl_out, model_out)
        if "items" not in impl_out:
            return "impl=%s" % impl_out
        for i, (it, oi, om) in enumerate(zip(self.items(case), impl_out["items"], model_out["items"])):
            n, Pt, Qt, log, exact = it
            if log:
                m = self.cmp_run(n, Pt, Qt, True, exact, oi["log"], om["log"], "logs")
            else:
                m = self.cmp_run(n, Pt, Qt, False, False, oi["lik"], om["lik"], "likelihoods")
                if not m:
                    LP, LQ = self.logs_of(Pt, Qt)
                    m = self.cmp_run(n, LP, LQ, True, False, oi["log"], om["log"], "given as logarithms")
            if m:
                return ("configuration %d: " % (case["start"] + i) if case["kind"] == "exh" else "") + m
        return None

    # ------------------------------------------------------------------ generators
    QUICK_FULL = 20000   # shapes with at most this many tables are enumerated completely in the quick tier

    def exhaustive_scopes(self, tier):
        if tier == "thorough":
            return ["every table assignment of every shape with T <= 3 epochs and 1..2 states per epoch (14 shapes, 5 175 210 assignments) "
                    "over log-likelihoods {0,-1,-2} (costs 0,1,2; exact)",
                    "the same 5 175 210 assignments over likelihoods {0, 0.5, 1}, each decoded both as likelihoods and as the corresponding logarithms",
                    "every table assignment of the 13 shapes other than (2,2,2) over log-likelihoods {0,-1,-inf} (costs 0, 1, +inf: impossible transitions / "
                    "emissions; 392 241 assignments, IEEE doubles); (2,2,2) sampled by 60 blocks of 243"]
        return ["every table assignment of every shape with T <= 3, S <= 2 that has at most %d assignments (all shapes with T <= 2; "
                "(1,1,1) (1,1,2) (1,2,1) (2,1,1) (2,1,2)): 37 947 assignments over log-likelihoods {0,-1,-2} and again over likelihoods {0,0.5,1}; "
                "the shapes (1,2,2) (2,2,1) (2,2,2) are sampled by 40 random blocks of 243 consecutive assignments each (enumerated completely in the thorough tier); "
                "over log-likelihoods {0,-1,-inf} (costs 0, 1, +inf = impossible) every assignment of the shapes (1) (2) (1,1) (1,2) (2,1) (1,1,1) (1,1,2) (2,1,1) "
                "(5 142 assignments), the other shapes sampled by 6 blocks of 243 each; "
                "histories of calls are sampled, not enumerated" % self.QUICK_FULL]

    def blocks(self, n, log, total):
        return [{"kind": "exh", "log": log, "n": n, "start": s, "count": min(BLOCK, total - s)} for s in range(0, total, BLOCK)]

    def rand_tables(self, rng, n, flavour):
        def v():
            if flavour == "int":
                return -rng.randrange(0, 4)
            if flavour == "int-wide":
                return -rng.randrange(0, 50)
            if flavour == "dyadic":
                return -rng.randrange(0, 13) / 4.0
            if flavour == "logfloat":
                return -rng.uniform(0.0, 6.0)
            if flavour == "lik3":
                return rng.choice(V_LIK)
            if flavour == "lik8":
                return rng.randrange(0, 9) / 8.0
            if flavour == "likfloat":
                return rng.choice([rng.uniform(0.001, 1.0), rng.uniform(0.001, 1.0), 0.0, 1.0, rng.uniform(0, 20.0)])
            if flavour == "loginf":      # zero-probability transitions / emissions given as logarithms: the normal case in map-matching
                return rng.choice(["-inf", "-inf", 0, -1, -2, -0.5, -3.25])
            if flavour == "logzero":     # mostly impossible: often NO possible sequence (sentinel cells, recorded cost 1e300 + p)
                return rng.choice(["-inf", "-inf", "-inf", 0, -1])
            if flavour == "loghuge":     # finite costs that reach the 1e300 start value of the scan
                return -rng.choice([0, 1, 2.5, 1e299, 3e299, 5e299, 1e300, 2e300])
            if flavour == "lognan":      # NaN (numpy.argmin: first NaN), -inf costs, inf - inf
                return rng.choice([0, -1, -2, -1.5, -1, 0, "nan", "inf", "-inf", "-inf"])
            if flavour == "likspecial":  # inf / NaN handed over as likelihoods: math.log(inf) = inf, math.log(nan) = nan
                return rng.choice([0, 0.5, 1, 0.25, 0.5, 1, "inf", "nan"])
            raise ValueError(flavour)
        flat = [v() for _ in range(nP(n) + nQ(n))]
        return unflatten(n, flat)

    FLAVOURS = {"int": (True, True), "int-wide": (True, True), "dyadic": (True, True), "logfloat": (True, False),
                "lik3": (False, False), "lik8": (False, False), "likfloat": (False, False),
                "loginf": (True, False), "logzero": (True, False), "loghuge": (True, False), "lognan": (True, False),
                "likspecial": (False, False)}

    def rand_case(self, rng, maxT, maxS, cap, fl=None):
        while True:
            T = rng.randrange(1, maxT + 1)
            n = [rng.randrange(1, maxS + 1) for _ in range(T)]
            if math.prod(n) <= cap:
                break
        fl = fl or rng.choice(["int", "int", "int-wide", "dyadic", "logfloat", "lik3", "lik8", "lik8", "likfloat",
                               "loginf", "loginf", "logzero", "loghuge", "lognan", "likspecial"])
        log, exact = self.FLAVOURS[fl]
        Pt, Qt = self.rand_tables(rng, n, fl)
        return {"kind": "rand", "flavour": fl, "log": log, "exact": exact, "n": n, "P": Pt, "Q": Qt,
                "via": rng.choice(["ctor", "ctor", "setter", "estimate-arg"]),
                "cont": rng.choice(["list"] * 5 + ["tuple", "nparray", "range", "userseq", "deque"])}

    def cases(self, rng, tier):
        out = []
        thorough = tier == "thorough"
        for n in shapes(3, 2):
            total = 3 ** (nP(n) + nQ(n))
            for log in (True, False):
                if thorough or total <= self.QUICK_FULL:
                    out += self.blocks(n, log, total)
                else:
                    for _ in range(40):
                        s = rng.randrange(0, total // BLOCK) * BLOCK
                        out.append({"kind": "exh", "log": log, "n": n, "start": s, "count": BLOCK})
        # impossible entries (cost +inf) enumerated: every table of the small shapes over log-likelihoods {0, -1, -inf}
        for n in shapes(3, 2):
            total = 3 ** (nP(n) + nQ(n))
            if total <= (200000 if thorough else 2500):
                out += [dict(b, vals="inf3") for b in self.blocks(n, True, total)]
            else:
                for _ in range(60 if thorough else 6):
                    s = rng.randrange(0, total // BLOCK) * BLOCK
                    out.append({"kind": "exh", "log": True, "vals": "inf3", "n": n, "start": s, "count": BLOCK})
        # an epoch without candidates / no epoch at all (outside the statement; error kinds are compared)
        for n in ([], [0], [1, 0], [0, 1], [2, 0, 1], [1, 2, 0], [0, 0], [2, 1, 0, 2]):
            for fl in ("int", "lik3"):
                log, exact = self.FLAVOURS[fl]
                Pt, Qt = self.rand_tables(rng, n, fl)
                out.append({"kind": "empty", "flavour": fl, "log": log, "exact": exact, "n": n, "P": Pt, "Q": Qt})
        nrand = 40000 if thorough else 3000
        for _ in range(nrand):
            out.append(self.rand_case(rng, 8, 5, 3000))
        for _ in range(60 if thorough else 6):
            c = self.rand_case(rng, 8, 5, 5 ** 8)
            out.append(c)
        for _ in range(20 if thorough else 4):   # the largest shape of the statement
            fl = rng.choice(["int", "dyadic", "lik8"])
            log, exact = self.FLAVOURS[fl]
            n = [5] * 8
            Pt, Qt = self.rand_tables(rng, n, fl)
            out.append({"kind": "rand", "flavour": fl, "log": log, "exact": exact, "n": n, "P": Pt, "Q": Qt})
        # histories of calls (props/c09sess.py)
        for _ in range(50000 if thorough else 6000):
            out.append(SS.gen_session(rng))
        for _ in range(400 if thorough else 30):
            out.append(SS.gen_session(rng, big=True))
        return out

    def search_cases(self, rng):
        out = []
        for n in shapes(3, 2):
            total = 3 ** (nP(n) + nQ(n))
            for log in (True, False):
                if total <= 200000:
                    out += self.blocks(n, log, total)
                else:
                    for _ in range(300):
                        out.append({"kind": "exh", "log": log, "n": n, "start": rng.randrange(0, total // BLOCK) * BLOCK, "count": BLOCK})
        for _ in range(10000):
            out.append(self.rand_case(rng, 8, 5, 3000))
        for n in shapes(3, 2):
            total = 3 ** (nP(n) + nQ(n))
            if total <= 20000:
                out += [dict(b, vals="inf3") for b in self.blocks(n, True, total)]
        for _ in range(20000):
            out.append(SS.gen_session(rng))
        return out

    def nontrivial(self, case):
        if case["kind"] == "sess":
            return SS.nontrivial(case)
        n = case["n"]
        return len(n) >= 2 and all(nk >= 1 for nk in n) and math.prod(n) >= 2

    def describe(self, case):
        if case["kind"] == "sess":
            return SS.describe(case)
        n = case["n"]
        return {"kind": case["kind"], "T": len(n), "maxS": max(n) if n else 0, "values": ("log " if case["log"] else "lik ") + case.get("flavour", "3-set" + ("+inf" if case.get("vals") else "")),
                "via": case.get("via", "ctor"), "S returns": case.get("cont", "list")}

    # ------------------------------------------------------------------ findings / shrinking
    def classify(self, case, impl_out, msg):
        return None

    def explicit(self, case, i):
        Pt, Qt = config(case["n"], i, self.exh_values(case))
        return {"kind": "one", "log": case["log"], "exact": case["log"] and not case.get("vals"), "n": case["n"], "P": Pt, "Q": Qt}

    def shrink(self, case):
        if case["kind"] == "sess":
            yield from SS.shrink(case)
            return
        if case["kind"] == "exh":
            c = case["count"]
            if c == 1:
                yield self.explicit(case, case["start"])
                return
            h = c // 2
            yield dict(case, count=h)
            yield dict(case, start=case["start"] + h, count=c - h)
            return
        n, Pt, Qt = case["n"], case["P"], case["Q"]
        T = len(n)
        base = {k: v for k, v in case.items() if k not in ("n", "P", "Q")}
        base["kind"] = "one"
        if case.get("cont", "list") != "list":
            yield dict(case, kind="one", cont="list")
        if T > 1:   # drop the last / the first epoch
            yield dict(base, n=n[:-1], P=Pt[:-1], Q=Qt[:-1])
            yield dict(base, n=n[1:], P=Pt[1:], Q=Qt[1:])
        for k in range(T):   # drop one state of an epoch
            if n[k] > 1:
                for l in range(n[k]):
                    n2 = n[:k] + [n[k] - 1] + n[k + 1:]
                    P2 = [row if j != k else row[:l] + row[l + 1:] for j, row in enumerate(Pt)]
                    Q2 = []
                    for j, blk in enumerate(Qt):
                        if j == k:       # from epoch k: drop row l
                            Q2.append(blk[:l] + blk[l + 1:])
                        elif j == k - 1:   # into epoch k: drop column l
                            Q2.append([row[:l] + row[l + 1:] for row in blk])
                        else:
                            Q2.append(blk)
                    yield dict(base, n=n2, P=P2, Q=Q2)
        # simplify one value
        simple = 0 if case["log"] else 1
        for k in range(T):
            for l in range(n[k]):
                if Pt[k][l] != simple:
                    P2 = [list(r) for r in Pt]; P2[k][l] = simple
                    yield dict(base, n=n, P=P2, Q=Qt)
        for k in range(T - 1):
            for m in range(n[k]):
                for l in range(n[k + 1]):
                    if Qt[k][m][l] != simple:
                        Q2 = [[list(r) for r in blk] for blk in Qt]; Q2[k][m][l] = simple
                        yield dict(base, n=n, P=Pt, Q=Q2)

    def mutate(self, case, rng):
        out = []
        if case["kind"] == "sess":
            return SS.mutate(case, rng)
        if case["kind"] == "exh":
            bases = [self.explicit(case, case["start"] + rng.randrange(case["count"])) for _ in range(10)]
        else:
            bases = [case]
        for b in bases:
            if not self.well_posed(b["n"]):
                continue
            out.append(b)
            pf, qf = flatten(b["P"], b["Q"])
            flat = pf + qf
            pool = sorted(set(flat), key=str) + ([0, -1, -2, -3] if b["log"] else [0, 0.5, 1])
            if not b.get("exact") and b["log"]:
                pool += ["-inf"]
            for _ in range(10):
                f2 = list(flat)
                for _ in range(rng.randrange(1, 4)):
                    f2[rng.randrange(len(f2))] = rng.choice(pool)
                P2, Q2 = unflatten(b["n"], f2)
                out.append(dict(b, kind="one", P=P2, Q=Q2))
        return out
