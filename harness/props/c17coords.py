"""C17 — one track per COORDINATE CLASS (ENUCoords, GeoCoords, ECEFCoords).

The features of the statement are computed by the same Python whatever the class of the position objects; which
planimetric distance they use is decided by a dispatch chain (Obs.distance2DTo -> <class>.distance2DTo for `ds`,
<class>.distance2DTo directly for `speed` and computeCurvAbsBetweenTwoPoints). Model: Model/CinematicsCoords.lean
(driver `C17.coords`, at Float with the libm functions Python calls).

What "planimetric distance" is, per class (the oracle recomputes it without the library):
* ENUCoords : sqrt(dE^2 + dN^2);
* GeoCoords : the library's definition (GeoCoords.distance2DTo = self.toENUCoords(point).norm2D()): the horizontal (East /
  North) part of the chord between the two positions in the local tangent frame of the WGS84 ellipsoid. The statement
  does not say at WHICH of the two fixes the frame is taken; the oracle computes both (own geodetic -> ECEF formulas, own
  East / North unit vectors from the geodetic angles) and accepts anything between them (they differ by about
  leg * height difference / Earth radius), with an absolute allowance of 1e-6 m for the rounding of coordinates of
  magnitude 6.4e6 m (measured: the library and the oracle differ by less than 1e-8 m);
* ECEFCoords: the library defines no planimetric distance (Obs.distance2DTo refuses, ECEFCoords has no distance2DTo): the
  statement does not apply; only "positions and timestamps are left unchanged" is checked, the rest by correspondence.

This module holds the pieces that do not need tracklib."""
import math

A_WGS84 = 6378137.0
F_WGS84 = 1.0 / 298.257223563
E2_WGS84 = F_WGS84 * (2.0 - F_WGS84)
GEO_ATOL = 1e-6           # metres

OPS = ["a", "s", "as", "sa", "aa", "ss", "asas", "c", "ca", "ac", "o", "oa", "ao", "da", "ad", "d", "sas", "acso", "osca",
       "S", "aS", "Sa", "SS", "sS", "oSc"]          # S = the method track.estimate_speed()


# ---------------------------------------------------------------- independent geodesy
def ecef_of(lon, lat, h):
    la, ph = math.radians(lon), math.radians(lat)
    n = A_WGS84 / math.sqrt(1.0 - E2_WGS84 * math.sin(ph) ** 2)
    return ((n + h) * math.cos(ph) * math.cos(la), (n + h) * math.cos(ph) * math.sin(la), (n * (1.0 - E2_WGS84) + h) * math.sin(ph))


def horizontal_at(p, base):
    """East / North part of the chord base -> p in the tangent frame at `base` (both (lon deg, lat deg, h m))"""
    P, B = ecef_of(*p), ecef_of(*base)
    dx, dy, dz = P[0] - B[0], P[1] - B[1], P[2] - B[2]
    la, ph = math.radians(base[0]), math.radians(base[1])
    e = -math.sin(la) * dx + math.cos(la) * dy
    n = -math.sin(ph) * math.cos(la) * dx - math.sin(ph) * math.sin(la) * dy + math.cos(ph) * dz
    return math.hypot(e, n)


def leg_range(cls, p, q):
    """(lo, hi, absolute allowance) of the planimetric distance between two positions of class `cls`"""
    if cls == "N":
        d = math.hypot(p[0] - q[0], p[1] - q[1])
        return d, d, 1e-300
    if cls == "G":
        if list(p) == list(q):
            return 0.0, 0.0, 1e-300
        a, b = horizontal_at(p, q), horizontal_at(q, p)
        return min(a, b), max(a, b), GEO_ATOL
    raise ValueError(cls)


# ---------------------------------------------------------------- generators
def wrap_lon(x):
    while x > 180.0:
        x -= 360.0
    while x < -180.0:
        x += 360.0
    return x


def gen_geo(rng, n):
    lon = rng.choice([2.34, 2.34, 0.0, 179.9999, -179.9999, -73.98, 151.2, rng.uniform(-180, 180)])
    lat = rng.choice([48.85, 48.85, 0.0, 89.999, -89.999, 64.1, -33.9, rng.uniform(-89.9, 89.9)])
    h = rng.choice([0.0, 35.0, 35.0, 4000.0, -30.0, rng.uniform(-400, 9000)])
    pos = []
    for _ in range(n):
        pos.append([lon, lat, h])
        step = rng.choice([0.0, 0.0, 1e-8, 1e-6, 1e-5, 1e-4, 1e-3, 1e-3, 1e-2, 0.1, 1.0, rng.uniform(0, 0.01)])
        if step:
            shape = rng.random()
            a = 0.0 if shape < 0.2 else math.pi / 2 if shape < 0.4 else rng.uniform(0, 2 * math.pi)
            lon = wrap_lon(lon + step * math.cos(a))
            lat = max(-90.0, min(90.0, lat + step * math.sin(a)))
        h = h + rng.choice([0.0, 0.0, 1.0, -2.5, 30.0, rng.uniform(-200, 200)])
    return pos


def gen_enu(rng, n):
    x, y = rng.uniform(-1000, 1000), rng.uniform(-1000, 1000)
    pos = []
    for _ in range(n):
        pos.append([x, y, rng.choice([0.0, rng.uniform(-100, 100)])])
        step = rng.choice([0.0, 1e-6, 1e-3, 1.0, 10.0, 1e4, 1e7, rng.uniform(0, 100)])
        if step:
            a = rng.uniform(0, 2 * math.pi)
            x, y = x + step * math.cos(a), y + step * math.sin(a)
    return pos


def gen_coords(rng, times):
    """`times(rng, n, ms)` is the stamp generator of the P class"""
    n = rng.choice([1, 2, 2, 3, 3, 4, 5, 6, 7, 8])
    r = rng.random()
    cls = "G" if r < 0.6 else "N" if r < 0.8 else "X"
    if cls == "G":
        pos = gen_geo(rng, n)
    elif cls == "N":
        pos = gen_enu(rng, n)
    else:
        pos = [list(ecef_of(*p)) for p in gen_geo(rng, n)]
    ms = rng.random() < 0.3
    feats = []
    r = rng.random()
    if r < 0.15:
        feats = [["w", [rng.choice([0.0, 1.0, 2.5, -3.0, "nan"]) for _ in range(n)]]]
    elif r < 0.25:
        names = rng.sample(["w", "ds", "abs_curv", "speed"], rng.randrange(1, 3))
        feats = [[nm, [rng.choice([0.0, 1.0, 2.5, -3.0, "nan", float(rng.randrange(-9, 9))]) for _ in range(n)]] for nm in names]
    return {"kind": "coords-" + {"G": "geo", "N": "enu", "X": "ecef"}[cls], "cls": cls, "mode": "f", "pos": pos,
            "tms": times(rng, n, ms), "feats": feats, "ops": rng.choice(OPS)}


def enum_coords():
    """directed cases: the 6-fix walk around Paris of the GPX sample kind (legs along a parallel, along a meridian, oblique,
    a repeated position), the same walk as ECEF positions, a walk across the date line, along the equator, near a pole"""
    paris = [[2.3400, 48.8500, 35.0], [2.3410, 48.8500, 35.0], [2.3410, 48.8510, 36.0], [2.3425, 48.8520, 38.0],
             [2.3425, 48.8520, 38.0], [2.3450, 48.8515, 37.0]]
    walks = {"paris": paris,
             "dateline": [[179.9990, -16.5, 10.0], [179.9999, -16.5, 10.0], [-179.9992, -16.5005, 12.0], [-179.9980, -16.5005, 12.0]],
             "equator": [[10.0, 0.0, 0.0], [10.001, 0.0, 0.0], [10.001, 0.001, 0.0], [10.0, -0.001, 5.0]],
             "pole": [[0.0, 89.999, 0.0], [90.0, 89.999, 0.0], [180.0, 89.9995, 2.0], [-90.0, 90.0, 2.0]],
             "climb": [[6.8650, 45.8320, 1035.0], [6.8652, 45.8321, 1235.0], [6.8652, 45.8321, 1435.0], [6.8660, 45.8330, 1400.0]]}
    out = []
    for name, w in walks.items():
        tms = [1646136000000 + 10000 * k for k in range(len(w))]
        if name == "paris":
            tms[3] = tms[2]          # a repeated stamp
        for ops in ("asca", "saos", "da", "oc"):
            out.append({"kind": "coords-geo", "cls": "G", "mode": "f", "pos": w, "tms": tms, "feats": [], "ops": ops, "walk": name})
        out.append({"kind": "coords-ecef", "cls": "X", "mode": "f", "pos": [list(ecef_of(*p)) for p in w], "tms": tms, "feats": [],
                    "ops": "aassco", "walk": name})
    return out


def shrink_coords(case):
    n = len(case["pos"])
    if len(case["ops"]) > 1:
        for i in range(len(case["ops"])):
            yield dict(case, ops=case["ops"][:i] + case["ops"][i + 1:])
    if n > 2:
        for i in range(n):
            c = dict(case, pos=case["pos"][:i] + case["pos"][i + 1:], tms=case["tms"][:i] + case["tms"][i + 1:],
                     feats=[[nm, col[:i] + col[i + 1:]] for nm, col in case["feats"]])
            if case.get("zones"):
                c["zones"] = case["zones"][:i] + case["zones"][i + 1:]
            yield c
    if case["feats"]:
        for i in range(len(case["feats"])):
            yield dict(case, feats=case["feats"][:i] + case["feats"][i + 1:])
    if any(case.get("zones") or []):
        yield {k: v for k, v in case.items() if k != "zones"}
    if case["cls"] != "X" and any(p[2] != 0 for p in case["pos"]):
        yield dict(case, pos=[[p[0], p[1], 0.0] for p in case["pos"]])
    t0 = case["tms"][0]
    if t0 != 0:
        yield dict(case, tms=[t - t0 for t in case["tms"]])
