"""C09 — histories of HMM.estimate calls (helper of props/c09.py).

A session is a track of N epochs with user features, a few HMM models given as tables, and a list of steps:
objects are created (constructor or setters), flags and models are changed, observations are edited, tracks are
copied, features named hmm_inference / hmm_cost are created by the user, and `estimate` is called several times.
The user functions are table look-ups that depend on the STATE (by label, whatever object carries it), on the
OBSERVED VALUE and on the EPOCH:
    S(track, k)         = fresh state objects for the labels SL[k] (labels repeat across epochs and may repeat in one)
    Q(s1, s2, k, track) = QT[k][label s1][label s2]
    P(s, y, k, track)   = PT[k][label s][code(y)]        code = digits of the fields of y in base R, mod YD
so that the same (state, observed value) pair meets different likelihoods at different epochs.
Cells are canonicalised as a number (float) or ["s", label] for a state object. The label of a state is read from
its VALUE (for positions: from the coordinates), never from its identity: a state object whose value has changed
reads as another label or as no state at all.

What S returns and what it is made of (per model):
    cont[k]  the container type of epoch k: list, tuple, numpy array, a user class with __len__/__getitem__, deque,
             range (flavour int, consecutive labels) — estimate() only uses len() and [i] — or something without a
             length (a generator, None, a bare state): TypeError, outside the statement
    share    "fresh": new objects at every call of S; "const": one state object per label for the whole session and
             one container per epoch (module-level constants); "same": moreover the SAME container object at every
             epoch whose candidates are those of epoch 0
Flavour "trackpos": the states are the position OBJECTS of track 0 (label l = the position of epoch l, coordinates
(l, -l-1, 0)); other epochs of the decoded track are its candidates. x, y, z may be observation names (the
coordinates of whatever object the position is when the call is made).

User functions that READ THE TRACK they are handed (per model, key "dep": {"S" | "Q" | "P": {"src": name, "off": d}}):
the function reads the digit v of feature `src` (x, y, z, idx, hmm_inference, hmm_cost, a user feature; 0 when the track
has no such feature) at epoch (k + off) mod N and answers
    S(track, k) = row k of table number v mod (1 + len(SV)) of [S] + SV      Q = QT[k][s1][(s2 + v) mod L]
    P = PT[k][s][(code(y) + v) mod YD]
The model of a call is the one these functions define on the track AS IT IS WHEN THE CALL IS MADE (the harness reads what
they see there before the call: `dep` of the result); during the backward step the values they would read change.
User functions that RAISE (key "exc": {"S": [k, ...], "P": [[k, label], ...], "Q": [[k, label, label], ...]}): the call
with those arguments raises UserFunctionError; a call of estimate that reaches one is outside the statement."""
import math, copy, itertools, collections

SFLAVS = ["int", "str", "tuple", "list", "obj", "objnh", "ident", "coords", "trackpos"]
HASHABLE = {"int", "str", "tuple", "obj", "coords", "trackpos"}
POSFLAVS = ("coords", "trackpos")       # states that are positions: the modes 3, 4, 5 are generated for them
SIZED = ["list", "tuple", "nparray", "userseq", "deque", "range"]
UNSIZED = ["gen", "none", "bare"]
NOLEN = {"int", "obj", "objnh", "ident", "coords", "trackpos"}    # flavours whose state objects have no len()
RESERVED = ["x", "y", "z", "t", "timestamp", "idx"]
CAP = 2500          # largest number of candidate sequences the oracle enumerates
TOL = 1e-9
SENTINEL = 1e300    # best_val's start value in HMM.estimate
SPECIAL = {"inf": float("inf"), "-inf": float("-inf"), "nan": float("nan")}


def num(v):
    """table entries are JSON-safe: the non-finite doubles are written "inf" / "-inf" / "nan" in a case"""
    return SPECIAL[v] if isinstance(v, str) else v


def nums(t):
    return [nums(x) for x in t] if isinstance(t, list) else num(t)


class St:
    """a state equal to every state of the same label, hashable"""
    def __init__(self, lab):
        self.lab = lab

    def __eq__(self, o):
        return isinstance(o, St) and o.lab == self.lab

    def __hash__(self):
        return hash(("St", self.lab))

    def __repr__(self):
        return "St(%d)" % self.lab


class StNH:
    """equal by label, not hashable"""
    __hash__ = None

    def __init__(self, lab):
        self.lab = lab

    def __eq__(self, o):
        return isinstance(o, StNH) and o.lab == self.lab

    def __repr__(self):
        return "StNH(%d)" % self.lab


class StId:
    """identity semantics: two states of the same label are different objects, unequal"""
    def __init__(self, lab):
        self.lab = lab

    def __repr__(self):
        return "StId(%d)" % self.lab


class UserSeq:
    """a sequence of the user's own: nothing but __len__ and __getitem__"""
    def __init__(self, items):
        self._items = tuple(items)

    def __len__(self):
        return len(self._items)

    def __getitem__(self, i):
        return self._items[i.__index__()]


def make_container(kind, objs, labs, flname):
    """what S hands to estimate() for one epoch"""
    if kind == "list":
        return list(objs)
    if kind == "tuple":
        return tuple(objs)
    if kind == "nparray":
        import numpy as np
        if flname == "int":
            return np.array(labs, dtype=np.int64)
        a = np.empty(len(objs), dtype=object)
        for i, o in enumerate(objs):
            a[i] = o
        return a
    if kind == "userseq":
        return UserSeq(objs)
    if kind == "deque":
        return collections.deque(objs)
    if kind == "range":
        if flname == "int" and labs and labs == list(range(labs[0], labs[0] + len(labs))):
            return range(labs[0], labs[0] + len(labs))
        return tuple(objs)
    if kind == "none":
        return None
    if kind == "bare" and len(objs) == 1 and flname in NOLEN:
        return objs[0]
    if kind in UNSIZED:
        return (o for o in objs)
    raise ValueError(kind)


def conts_of(m, N):
    c = m.get("cont")
    if c is None:
        return ["list"] * N
    if isinstance(c, str):
        return [c] * N
    return list(c)


DEP_OFFS = [1, 1, 1, 2, -1, 0]


class UserFunctionError(Exception):
    """what a user function of the session raises where the model's `exc` says so"""


def exc_of(m, which):
    """the arguments at which the user function `which` of this model RAISES: S: epochs k; P: (k, label);
    Q: (k, label, label)"""
    return [tuple(a) if isinstance(a, list) else a for a in (m.get("exc") or {}).get(which, [])]


def dep_of(m, which):
    """(feature name, epoch offset) that the user function `which` ("S", "Q", "P") of this model READS FROM THE TRACK it
    is handed, or None: S(track, k), Q(s1, s2, k, track), P(s, y, k, track) all receive the track and may look at it"""
    d = (m.get("dep") or {}).get(which)
    return (d["src"], d["off"]) if d else None


def s_tables(m):
    """the candidate tables S chooses from (the first one when S does not read the track)"""
    return [m["S"]] + list(m.get("SV", []))


def read_digit(fl, track, dep, k, N, R):
    """what a track-reading user function sees: the digit of feature `src` at epoch (k + off) mod N of the track it is
    handed (x, y, z: the coordinates of whatever object the position is), 0 when the track has no such feature"""
    if dep is None:
        return 0
    src, off = dep
    j = (k + off) % N
    if src not in ("x", "y", "z", "idx") and src not in track.getListAnalyticalFeatures():
        return 0
    return fl.digits(track.getObsAnalyticalFeature(src, j), R)[0]


def st_coords(sflav, lab):
    """coordinates of the state object of a label when states are positions"""
    return (float(lab), -float(lab) - 1.0, 0.0) if sflav == "trackpos" else (float(lab), 0.0, 0.0)


def pos0_coords(sflav, L, k):
    """coordinates of the position of epoch k of track 0 when the session starts"""
    return st_coords(sflav, k) if (sflav == "trackpos" and k < L) else (float(k), 0.0, 0.0)


def make_coords_state_class(base):
    """states that are positions: a subclass of ENUCoords carrying its label (named ENUCoords so that
    Track.getSRID(), which parses the class name of the first position, still says ENU after a mode-3/4/5 decoding)"""
    def __init__(self, lab):
        base.__init__(self, float(lab), 0.0, 0.0)
        self.lab = lab
    return type("ENUCoords", (base,), {"__init__": __init__, "__repr__": lambda self: "StC(%d)" % self.lab})


def is_num(v):
    return isinstance(v, (int, float)) and not isinstance(v, bool)


def digit_num(v, R):
    """the digit a number stands for: 0 <= c < R integral -> c, anything else 0"""
    try:
        if 0 <= v < R and v == math.floor(v):
            return int(v)
    except (TypeError, ValueError, OverflowError):
        pass
    return 0


class Flavour:
    """how labels are carried by Python objects in one session"""
    def __init__(self, name, coords_base, coords_state, pool=None):
        self.name, self.base, self.cstate, self.pool = name, coords_base, coords_state, pool

    def make(self, lab):
        n = self.name
        if n == "int":
            return lab
        if n == "str":
            return "s%d" % lab
        if n == "tuple":
            return (lab, "a")
        if n == "list":
            return [lab]
        if n == "obj":
            return St(lab)
        if n == "objnh":
            return StNH(lab)
        if n == "ident":
            return StId(lab)
        if n == "coords":
            return self.cstate(lab)
        if n == "trackpos":
            return self.pool[lab]          # the position object itself, never a copy
        raise ValueError(n)

    def label(self, v):
        """label of a state object of this flavour, None for anything else (flavour int: states are plain numbers)"""
        n = self.name
        if n == "str":
            return int(v[1:]) if isinstance(v, str) and v[:1] == "s" and v[1:].isdigit() else None
        if n == "tuple":
            return v[0] if isinstance(v, tuple) and len(v) == 2 and v[1] == "a" else None
        if n == "list":
            return v[0] if isinstance(v, list) and len(v) == 1 and isinstance(v[0], int) else None
        if n == "obj":
            return v.lab if isinstance(v, St) else None
        if n == "objnh":
            return v.lab if isinstance(v, StNH) else None
        if n == "ident":
            return v.lab if isinstance(v, StId) else None
        if n == "coords":       # by value: an object whose coordinates were written is no longer the state it was
            if isinstance(v, self.cstate) and (v.E, v.N, v.U) == st_coords("coords", v.lab):
                return v.lab
            return None
        if n == "trackpos":
            if isinstance(v, self.base) and is_num(v.E) and v.E >= 0 and v.E == math.floor(v.E) \
                    and (v.E, v.N, v.U) == st_coords("trackpos", int(v.E)):
                return int(v.E)
            return None
        return None

    def state_label(self, v):
        """label of whatever S returned (flavour int included)"""
        if self.name == "int":
            if isinstance(v, bool):
                return None
            if isinstance(v, int):
                return v
            try:
                import numpy as np
                if isinstance(v, np.integer):      # an element of a numpy array of candidates
                    return int(v)
            except Exception:
                pass
            return None
        return self.label(v)

    def canon(self, v):
        lab = self.label(v)
        if lab is not None:
            return ["s", lab]
        if isinstance(v, bool):
            return ["?", repr(v)]
        try:
            import numpy as np
            if isinstance(v, np.generic):
                v = v.item()
        except Exception:
            pass
        if is_num(v):
            return float(v)
        return ["?", repr(v)[:40]]

    def digits(self, item, R, built=False):
        """digits of one field of the observation handed to P; `built`: the field is the Coords that __getObs made of
        the first two / three values (three digits, also when its coordinates happen to be those of a state)"""
        if built and isinstance(item, self.base):
            return self.digits(item.E, R)[:1] + self.digits(item.N, R)[:1] + self.digits(item.U, R)[:1]
        lab = self.label(item)
        if lab is not None:
            return [lab % R]
        if isinstance(item, self.base):
            return self.digits(item.E, R)[:1] + self.digits(item.N, R)[:1] + self.digits(item.U, R)[:1]
        if is_num(item):
            return [digit_num(item, R)]
        try:
            import numpy as np
            if isinstance(item, np.generic):
                return [digit_num(item.item(), R)]
        except Exception:
            pass
        return [0]

    def code(self, y, R, YD, posfirst=False):
        """`posfirst`: the call is in mode 1, 2, 3 or 4, the first field is the position made by __getObs"""
        fields = y if isinstance(y, list) else [y]
        ds = []
        for i, f in enumerate(fields):
            ds += self.digits(f, R, built=(posfirst and i == 0))
        return sum(d * R ** i for i, d in enumerate(ds)) % YD


def canon_digit(c, R):
    """digit of a canonical cell"""
    if isinstance(c, list):
        return c[1] % R if c[0] == "s" else 0
    return digit_num(c, R)


def code_of_pre(cells, mode, R, YD):
    """the code of the observation the call's P is to receive at one epoch, from the cells read before the call
    (modes 1,3: the first two fields form a Coords with Z = 0.0; modes 2,4: the first three)"""
    ds = [canon_digit(c, R) for c in cells]
    if mode in (1, 3):
        ds = ds[:2] + [0] + ds[2:]
    return sum(d * R ** i for i, d in enumerate(ds)) % YD


def fields_needed(mode):
    return 2 if mode in (1, 3) else 3 if mode in (2, 4) else 0


# --------------------------------------------------------------------------------------------------
# validity of a session description (references only; used by the shrinker and by spec)
# --------------------------------------------------------------------------------------------------
def valid(case):
    try:
        N, L, R, YD = case["N"], case["L"], case["R"], case["YD"]
        if N < 1 or L < 1 or R < L or YD < 1:
            return False
        nm = len(case["models"])
        for m in case["models"]:
            if len(m["S"]) != N or any(l >= L or l < 0 for row in m["S"] for l in row):
                return False
            if len(m["P"]) != N or any(len(r) != L or any(len(c) != YD for c in r) for r in m["P"]):
                return False
            if len(m["Q"]) != N - 1 or any(len(r) != L or any(len(c) != L for c in r) for r in m["Q"]):
                return False
            if len(conts_of(m, N)) != N or any(c not in SIZED + UNSIZED for c in conts_of(m, N)):
                return False
            if m.get("share", "fresh") not in ("fresh", "const", "same"):
                return False
            for tab in m.get("SV", []):
                if len(tab) != N or any(l >= L or l < 0 for row in tab for l in row):
                    return False
            for w, args in (m.get("exc") or {}).items():
                ar = {"S": 0, "P": 2, "Q": 3}.get(w)
                if ar is None:
                    return False
                for a in args:
                    if ar == 0:
                        if not (isinstance(a, int) and 0 <= a < N):
                            return False
                    elif not (isinstance(a, list) and len(a) == ar and 0 <= a[0] < N and all(0 <= l < L for l in a[1:])):
                        return False
            for w, d in (m.get("dep") or {}).items():
                if w not in ("S", "Q", "P") or not isinstance(d["off"], int) or d["src"] in ("t", "timestamp") \
                        or not isinstance(d["src"], str) or any(ch in d["src"] for ch in " ,;:/|@!^#"):
                    return False
        if case["sflav"] not in SFLAVS:
            return False
        names = [f[0] for f in case["feats"]]
        if len(set(names)) != len(names) or any(n in RESERVED for n in names) or any(len(f[1]) != N for f in case["feats"]):
            return False
        no, nt = 0, 1
        for st in case["steps"]:
            op = st["op"]
            if op == "new":
                if st["h"] != no or any(st[k] >= nm for k in ("mS", "mQ", "mP")):
                    return False
                no += 1
            elif op in ("log", "stat", "setS", "setQ", "setP"):
                if st["h"] >= no or (op not in ("log", "stat") and st["m"] >= nm):
                    return False
            elif op == "est":
                if st["h"] >= no or st["t"] >= nt:
                    return False
                if any(n in ("t", "timestamp") for n in st["obs"]):
                    return False
            elif op == "obs":
                if st["t"] >= nt or not (0 <= st["k"] < N) or st["name"] in RESERVED:
                    return False
            elif op == "mk":
                if st["t"] >= nt or len(st["vals"]) != N or st["name"] in RESERVED:
                    return False
            elif op == "copy":
                if st["t"] >= nt:
                    return False
                nt += 1
            else:
                return False
        return True
    except (KeyError, TypeError, IndexError):
        return False


# --------------------------------------------------------------------------------------------------
# running a session on the real code
# --------------------------------------------------------------------------------------------------
class Runner:
    def __init__(self, Obs, ENU, ObsTime, Track, dyn):
        self.Obs, self.ENU, self.ObsTime, self.Track, self.dyn = Obs, ENU, ObsTime, Track, dyn
        self.cstate = make_coords_state_class(ENU)

    def flavour(self, case):
        pool = None
        if case["sflav"] == "trackpos":
            pool = [self.ENU(*st_coords("trackpos", l)) for l in range(case["L"])]
        return Flavour(case["sflav"], self.ENU, self.cstate, pool)

    @staticmethod
    def boolform(case):
        f = case.get("boolform", "bool")
        if f == "int":
            return int
        if f == "npbool":
            import numpy as np
            return np.bool_
        return bool

    def yval(self, case, c):
        return float(c) if case.get("yflav") == "float" else c

    @staticmethod
    def modified(fl, rets):
        """what the call did to the containers and state objects S handed out: nothing, on correct code"""
        out = []
        for k, cont, objs_k, labs in rets:
            if cont is not None and hasattr(cont, "__len__"):
                now = [cont[i] for i in range(len(cont))]
                if len(now) != len(objs_k) or (fl.name != "int" and any(a is not b for a, b in zip(now, objs_k))) \
                        or (fl.name == "int" and [fl.state_label(a) for a in now] != labs):
                    out.append("the container returned for epoch %d holds %r" % (k, now))
                    continue
            got = [fl.state_label(o) for o in objs_k]
            if got != labs:
                out.append("candidates of epoch %d (labels %s) read %s after the call" % (k, labs, got))
        return out[:3]

    def read_col(self, fl, tr, name, N):
        if name not in tr.getListAnalyticalFeatures():
            return None
        return [fl.canon(tr.getObsAnalyticalFeature(name, k)) for k in range(N)]

    def run(self, case):
        N, L, R, YD = case["N"], case["L"], case["R"], case["YD"]
        fl = self.flavour(case)
        sflav = case["sflav"]
        # flavour trackpos: the candidate states ARE the position objects of track 0 (epoch l carries the state of label l)
        tr0 = self.Track([self.Obs(fl.pool[k] if (sflav == "trackpos" and k < L) else self.ENU(*pos0_coords(sflav, L, k)),
                                   self.ObsTime.readUnixTime(60 * k)) for k in range(N)])
        for name, vals in case["feats"]:
            tr0.createAnalyticalFeature(name, [self.yval(case, c) for c in vals])
        tracks, objs, ests = [tr0], [], []
        cur = {"track": None, "rets": []}
        spool = {}            # share = const / same: one state object per label for the whole session

        def shared_state(lab):
            if lab not in spool:
                spool[lab] = fl.make(lab)
            return spool[lab]

        def functions(m):
            PT, QT = nums(m["P"]), nums(m["Q"])
            tabs = s_tables(m)
            dS, dQ, dP = dep_of(m, "S"), dep_of(m, "Q"), dep_of(m, "P")
            xS, xQ, xP = set(exc_of(m, "S")), set(exc_of(m, "Q")), set(exc_of(m, "P"))
            conts, share = conts_of(m, N), m.get("share", "fresh")
            cache = {}

            def build(SL, k):
                objs_k = [shared_state(lab) if share != "fresh" else fl.make(lab) for lab in SL[k]]
                return make_container(conts[k], objs_k, list(SL[k]), sflav), objs_k

            def S(track, k):
                if track is not cur["track"]:
                    raise LookupError("S called with another track")
                if k in xS:
                    raise UserFunctionError("S(track, %d)" % k)
                v = read_digit(fl, track, dS, k, N, R) % len(tabs)     # a candidate function that looks at the track
                SL = tabs[v]
                if share == "fresh" or conts[k] in UNSIZED:
                    cont, objs_k = build(SL, k)
                else:
                    key = 0 if (share == "same" and SL[k] == SL[0] and conts[k] == conts[0]) else k
                    if (v, key) not in cache:
                        cache[(v, key)] = build(SL, key)
                    cont, objs_k = cache[(v, key)]
                cur["rets"].append((k, cont, objs_k, list(SL[k])))
                return cont

            def Q(s1, s2, k, track):
                if track is not cur["track"]:
                    raise LookupError("Q called with another track")
                a, b = fl.state_label(s1), fl.state_label(s2)
                if a is None or b is None or not (0 <= k < N - 1):
                    raise LookupError("Q called with %r, %r at epoch %r" % (s1, s2, k))
                if (k, a, b) in xQ:
                    raise UserFunctionError("Q(%d, %d, %d, track)" % (a, b, k))
                return QT[k][a][(b + read_digit(fl, track, dQ, k, N, R)) % L]

            def P(s, y, k, track):
                if track is not cur["track"]:
                    raise LookupError("P called with another track")
                a = fl.state_label(s)
                if a is None or not (0 <= k < N):
                    raise LookupError("P called with %r at epoch %r" % (s, k))
                if (k, a) in xP:
                    raise UserFunctionError("P(%d, y, %d, track)" % (a, k))
                return PT[k][a][(fl.code(y, R, YD, cur.get("mode", 0) in (1, 2, 3, 4)) + read_digit(fl, track, dP, k, N, R)) % YD]
            return S, Q, P
        funs = [functions(m) for m in case["models"]]
        B = self.boolform(case)      # how the session writes its flags: True / 1 / numpy.bool_(True)

        for st in case["steps"]:
            op = st["op"]
            if op == "new":
                S, Q, P = funs[st["mS"]][0], funs[st["mQ"]][1], funs[st["mP"]][2]
                if st.get("via") == "setter":
                    h = self.dyn.HMM()
                    h.setStates(S); h.setTransitionModel(Q); h.setObservationModel(P)
                    if st["log"] or st.get("always_setlog"):
                        h.setLog(B(st["log"]))
                elif st.get("via") == "ctor-pos":
                    h = self.dyn.HMM(S, Q, P, B(st["log"]))
                else:
                    h = self.dyn.HMM(S, Q, P, log=B(st["log"]), stationarity=B(bool(st.get("stat"))))
                objs.append(h)
            elif op == "log":
                objs[st["h"]].setLog(B(st["log"]))
            elif op == "stat":          # declared, never read by estimate()
                objs[st["h"]].setStationarity(B(st["b"]))
            elif op == "setS":
                objs[st["h"]].setStates(funs[st["m"]][0])
            elif op == "setQ":
                objs[st["h"]].setTransitionModel(funs[st["m"]][1])
            elif op == "setP":
                objs[st["h"]].setObservationModel(funs[st["m"]][2])
            elif op == "obs":
                if st["name"] not in tracks[st["t"]].getListAnalyticalFeatures():
                    return {"err": "invalid-session"}     # (only shrinking produces this)
                tracks[st["t"]].setObsAnalyticalFeature(st["name"], st["k"], self.yval(case, st["c"]))
            elif op == "mk":
                tracks[st["t"]].createAnalyticalFeature(st["name"], [self.yval(case, c) for c in st["vals"]])
            elif op == "copy":
                tracks.append(tracks[st["t"]].copy())
            elif op == "est":
                tr, h = tracks[st["t"]], objs[st["h"]]
                have = tr.getListAnalyticalFeatures()
                pre = []
                for k in range(N):
                    row = []
                    for name in st["obs"]:
                        if name == "idx":
                            row.append(float(k))
                        elif name in ("x", "y", "z"):     # the coordinates of whatever object the position is now
                            try:
                                row.append(fl.canon(tr.getObsAnalyticalFeature(name, k)))
                            except Exception as e:
                                row.append(["?", type(e).__name__])
                        elif name in have:
                            row.append(fl.canon(tr.getObsAnalyticalFeature(name, k)))
                        else:
                            row.append(None)
                    pre.append(row)
                # what the track-reading user functions of every model see in the track AS IT IS WHEN THE CALL IS MADE
                # (the model the statement speaks about is the one S, Q, P define on the track handed to estimate)
                dep = []
                for m in case["models"]:
                    if not m.get("dep"):
                        dep.append(None)
                        continue
                    try:
                        dep.append({"S": [read_digit(fl, tr, dep_of(m, "S"), k, N, R) for k in range(N)],
                                    "Q": [read_digit(fl, tr, dep_of(m, "Q"), k, N, R) for k in range(N - 1)],
                                    "P": [read_digit(fl, tr, dep_of(m, "P"), k, N, R) for k in range(N)]})
                    except Exception as e:
                        dep.append({"unreadable": type(e).__name__})
                obsarg = st["obs"][0] if (len(st["obs"]) == 1 and st.get("obs_as_str")) else list(st["obs"])
                kw = {}
                if st.get("logarg") is not None:
                    kw["log"] = B(st["logarg"])
                if st.get("mode", 0) != 0 or st.get("mode_explicit"):
                    kw["mode"] = st.get("mode", 0)
                kw["verbose"] = st.get("verbose", 0)
                cur["track"] = tr
                cur["mode"] = st.get("mode", 0)
                cur["rets"] = []
                status = "ok"
                detail = ""
                try:
                    h.estimate(tr, obsarg, **kw)
                except BaseException as e:
                    if isinstance(e, KeyboardInterrupt):
                        raise
                    from engine import err_kind
                    status, detail = err_kind(e), str(e)[:100]
                cur["track"] = None
                ests.append({"status": status, "detail": detail, "pre": pre, "dep": dep, "mut": self.modified(fl, cur["rets"]),
                             "inf": self.read_col(fl, tr, "hmm_inference", N),
                             "cost": self.read_col(fl, tr, "hmm_cost", N)})
            else:
                raise ValueError(op)
        tout = []
        for tr in tracks:
            names = tr.getListAnalyticalFeatures()
            pos = []
            for k in range(N):
                lab = fl.label(tr[k].position)
                pos.append(-1 if lab is None else lab)
            tout.append({"names": list(names), "cols": {n: self.read_col(fl, tr, n, N) for n in names}, "pos": pos})
        return {"est": ests, "tracks": tout, "logs": [bool(h.log) for h in objs]}


# --------------------------------------------------------------------------------------------------
# protocol
# --------------------------------------------------------------------------------------------------
def request(case, fbits, tok_list):
    N, L, R, YD = case["N"], case["L"], case["R"], case["YD"]
    feats = tok_list(("%s:%s" % (n, tok_list(fbits(c) for c in vals)) for n, vals in case["feats"]), "|")
    ms = []
    for m in case["models"]:
        def stab(tab):
            return ";".join(("u" if c in UNSIZED else "e" if not row else ",".join(map(str, row)))
                            for row, c in zip(tab, conts_of(m, N)))
        S = stab(m["S"])
        Pf = tok_list(fbits(num(v)) for r in m["P"] for c in r for v in c)
        Qf = tok_list(fbits(num(v)) for r in m["Q"] for c in r for v in c)
        if m.get("dep") or m.get("SV") or m.get("exc"):
            # user functions that read the track / that raise: <depS>!<depQ>!<depP>!<exc>!<further S tables>
            ds = []
            for w in ("S", "Q", "P"):
                d = dep_of(m, w)
                ds.append("-" if d is None else "%s^%d" % (d[0], d[1] % N))
            ex = ["S,%d" % k for k in exc_of(m, "S")] + ["Q,%d,%d,%d" % a for a in exc_of(m, "Q")] + \
                 ["P,%d,%d" % a for a in exc_of(m, "P")]
            ds.append(";".join(ex) if ex else "-")
            ms.append("%s/%s/%s/%s" % (S, Pf, Qf, "!".join(ds + [stab(t) for t in m.get("SV", [])])))
        else:
            ms.append("%s/%s/%s" % (S, Pf, Qf))
    steps = []
    for st in case["steps"]:
        op = st["op"]
        if op == "new":
            steps.append("new:%d:%d:%d:%d:%d" % (st["h"], int(st["log"]), st["mS"], st["mQ"], st["mP"]))
        elif op == "stat":
            pass                       # HMM.stationarity is not read on this path: not part of the model
        elif op == "log":
            steps.append("log:%d:%d" % (st["h"], int(st["log"])))
        elif op in ("setS", "setQ", "setP"):
            steps.append("%s:%d:%d" % (op, st["h"], st["m"]))
        elif op == "est":
            steps.append("est:%d:%d:%d:%d:%s" % (st["h"], st["t"], int(bool(st.get("logarg"))), st.get("mode", 0),
                                                  tok_list(st["obs"])))
        elif op == "obs":
            steps.append("obs:%d:%s:%d:%s" % (st["t"], st["name"], st["k"], fbits(st["c"])))
        elif op == "mk":
            steps.append("mk:%d:%s:%s" % (st["t"], st["name"], tok_list(fbits(c) for c in st["vals"])))
        elif op == "copy":
            steps.append("copy:%d" % st["t"])
    sf = case["sflav"]
    coords = "%s/%s" % (tok_list(fbits(c) for l in range(L) for c in st_coords(sf, l)),
                        tok_list(fbits(c) for k in range(N) for c in pos0_coords(sf, L, k)))
    return "C09.sess %d,%d,%d,%d %s %s %s %s" % (N, L, R, YD, feats, tok_list(ms, "@"), tok_list(steps, "|"), coords)


def parse_reply(case, rep, bitsf, untok):
    if "#" not in rep:
        return {"err": rep}
    as_num = case["sflav"] == "int"

    def cell(t):
        if t[0] == "n":
            return bitsf(t[1:])
        lab = int(t[1:])
        return float(lab) if as_num else ["s", lab]

    def col(t):
        return None if t == "-" else [cell(x) for x in untok(t)]
    e, t, o = rep.split("#")
    ests = []
    for x in untok(e, "|"):
        status, a, b = x.split("/")
        ests.append({"status": status, "inf": col(a), "cost": col(b)})
    tracks = []
    for x in untok(t, "|"):
        cols, pos = x.split("/")
        names, cd = [], {}
        for c in untok(cols, ";"):
            n, v = c.split(":")
            names.append(n)
            cd[n] = col(v)
        pl = [int(p) for p in untok(pos)]
        if case["sflav"] == "trackpos":      # read by value: the own position of epoch k < L is the state of label k
            pl = [k if (p == -1 and k < case["L"]) else p for k, p in enumerate(pl)]
        tracks.append({"names": names, "cols": cd, "pos": pl})
    return {"est": ests, "tracks": tracks, "logs": [x == "1" for x in untok(o)]}


# --------------------------------------------------------------------------------------------------
# oracle
# --------------------------------------------------------------------------------------------------
def cost_of(v, log):
    return -v if log else -math.log(v + 1e-300)


def close(a, b):
    if a == b:
        return True
    if a != a or b != b:
        return a != a and b != b          # NaN only equals NaN
    if math.isinf(a) or math.isinf(b):
        return False                      # an infinity only equals itself (1e300 is not +inf)
    return abs(a - b) <= TOL * max(1.0, abs(a), abs(b))


def in_domain(CP, CQ, opt):
    """the statement speaks about likelihoods: every cost is a number above -inf, and - the documented limit of the
    implementation - the optimum is below the 1e300 start value of the scan; costs of +inf (IMPOSSIBLE transitions /
    emissions: the logarithm of a zero probability) are inside as long as some candidate sequence is possible.
    Outside (Props T16, T17, T19 say what the code does there): NaN, cost -inf, no possible sequence / optimum >= 1e300."""
    flat = [v for row in CP for v in row] + [v for blk in CQ for row in blk for v in row]
    if any(v != v or v == float("-inf") for v in flat):
        return False
    return opt is not None and opt == opt and opt < SENTINEL


def best_cost(n, CP, CQ):
    """minimum of the left-fold cost over all index sequences, by plain enumeration (no dynamic programme)"""
    best = None
    for seq in itertools.product(*[range(x) for x in n]):
        acc = CP[0][seq[0]]
        for k in range(1, len(n)):
            acc = (CQ[k - 1][seq[k - 1]][seq[k]] + acc) + CP[k][seq[k]]
        if best is None or acc < best:
            best = acc
    return best


def est_contexts(case):
    """for every est step, what the user has declared when the call is made: the models behind S, Q, P of the object,
    the flag: True / False / None (None = only an earlier estimate(log=True) of the same object said so and nothing
    was declared since: the statement does not say whether that declaration still stands)"""
    objs, out = [], []
    for st in case["steps"]:
        op = st["op"]
        if op == "new":
            objs.append({"declared": bool(st["log"]), "sticky": False, "S": st["mS"], "Q": st["mQ"], "P": st["mP"]})
        elif op == "log":
            objs[st["h"]]["declared"] = bool(st["log"]); objs[st["h"]]["sticky"] = False
        elif op in ("setS", "setQ", "setP"):
            objs[st["h"]][op[3]] = st["m"]
        elif op == "est":
            o = objs[st["h"]]
            flag = True if (st.get("logarg") or o["declared"]) else (None if o["sticky"] else False)
            out.append({"flag": flag, "S": o["S"], "Q": o["Q"], "P": o["P"], "step": st})
            if st.get("logarg"):
                o["sticky"] = True
    return out


def eff_model(case, ctx, res):
    """the model of THIS call: candidate labels per epoch and the tables behind P and Q, as the user functions define them
    on the track handed to estimate (`res["dep"]`: what the track-reading ones saw in it when the call was made; a function
    that does not look at the track is its table). None when such a reading was not possible."""
    N, L, YD = case["N"], case["L"], case["YD"]
    mS, mQ, mP = case["models"][ctx["S"]], case["models"][ctx["Q"]], case["models"][ctx["P"]]
    dep = res.get("dep") or [None] * len(case["models"])

    def seen(mi, m, w, n):
        if dep_of(m, w) is None:
            return [0] * n
        d = dep[mi] if mi < len(dep) else None
        if not d or w not in d or len(d[w]) != n:
            return None
        return d[w]
    vS, vQ, vP = seen(ctx["S"], mS, "S", N), seen(ctx["Q"], mQ, "Q", N - 1), seen(ctx["P"], mP, "P", N)
    if vS is None or vQ is None or vP is None:
        return None
    tabs = s_tables(mS)
    SL = [tabs[vS[k] % len(tabs)][k] for k in range(N)]
    PT = [[[num(mP["P"][k][a][(c + vP[k]) % YD]) for c in range(YD)] for a in range(L)] for k in range(N)]
    QT = [[[num(mQ["Q"][k][a][(b + vQ[k]) % L]) for b in range(L)] for a in range(L)] for k in range(N - 1)]
    return SL, PT, QT


def in_statement(case, ctx, res):
    """is this estimate call one the property speaks about? (every epoch has a candidate, the observation features
    exist and a position is made of enough numeric fields, and what is declared to be likelihoods is not negative)"""
    N, R, YD = case["N"], case["R"], case["YD"]
    st = ctx["step"]
    mode = st.get("mode", 0)
    em = eff_model(case, ctx, res)
    if em is None:
        return False                                  # a user function could not read the track (harness plumbing)
    SL, PT, QT = em
    n = [len(r) for r in SL]
    if any(x == 0 for x in n) or math.prod(n) > CAP:
        return False                                  # an epoch without candidates: outside the quantifier
    if any(c in UNSIZED for c in conts_of(case["models"][ctx["S"]], N)):
        return False                                  # S did not return a collection of candidates
    if exc_of(case["models"][ctx["S"]], "S") \
            or any(lab in SL[k] for (k, lab) in exc_of(case["models"][ctx["P"]], "P")) \
            or any(k + 1 < N and a in SL[k] and b in SL[k + 1] for (k, a, b) in exc_of(case["models"][ctx["Q"]], "Q")):
        return False                                  # a user function raises for a candidate: S, Q, P do not define a model
    if any(c is None for row in res["pre"] for c in row):
        return False                                  # an observation feature the track does not have
    if len(st["obs"]) < fields_needed(mode):
        return False                                  # too few fields for a position
    if any(isinstance(c, list) and c[0] == "?" for row in res["pre"] for c in row):
        return False
    if any(isinstance(c, list) for row in res["pre"] for c in row[:fields_needed(mode)]):
        return False                                  # a position made of something that is not a number
    if ctx["flag"] is not True:
        codes = [code_of_pre(res["pre"][k], mode, R, YD) for k in range(N)]
        used = [PT[k][lab][codes[k]] for k in range(N) for lab in SL[k]] + \
               [QT[k][a][b] for k in range(N - 1) for a in SL[k] for b in SL[k + 1]]
        if any(not (v >= 0) for v in used):
            return False                              # declared as likelihoods, but a value is negative: not a model
    return True


def check_est(case, ctx, res, i):
    """the property on one estimate call; None when it holds or when the call is outside the statement"""
    N, L, R, YD = case["N"], case["L"], case["R"], case["YD"]
    st = ctx["step"]
    mode = st.get("mode", 0)
    if not in_statement(case, ctx, res):
        return None
    SL, PT, QT = eff_model(case, ctx, res)
    n = [len(r) for r in SL]
    codes = [code_of_pre(res["pre"][k], mode, R, YD) for k in range(N)]
    what = "estimate call %d (object %d, track %d)" % (i, st["h"], st["t"])
    if res["status"] != "ok":
        return "%s: decoding raised %s (%s)" % (what, res["status"], res.get("detail", ""))
    inf, co = res["inf"], res["cost"]
    if inf is None or co is None or len(inf) != N or len(co) != N:
        return "%s: hmm_inference / hmm_cost missing or not one value per epoch: %r / %r" % (what, inf, co)
    as_num = case["sflav"] == "int"
    idx = []
    for k in range(N):
        c = inf[k]
        lab = int(c) if (as_num and is_num(c) and c == int(c)) else (c[1] if isinstance(c, list) and c[0] == "s" else None)
        if lab is None or lab not in SL[k]:
            return "%s: epoch %d is assigned %r, which is not one of its candidate states (labels %s)" % (what, k, c, SL[k])
        idx.append(SL[k].index(lab))
    if not all(is_num(c) for c in co):
        return "%s: hmm_cost holds %r" % (what, co)
    msgs = []
    for flag in ([True, False] if ctx["flag"] is None else [ctx["flag"]]):
        try:
            CP = [[cost_of(PT[k][lab][codes[k]], flag) for lab in SL[k]] for k in range(N)]
            CQ = [[[cost_of(QT[k][a][b], flag) for b in SL[k + 1]] for a in SL[k]] for k in range(N - 1)]
        except ValueError:
            msgs.append("the tables are not likelihoods")
            continue
        opt = best_cost(n, CP, CQ)
        if not in_domain(CP, CQ, opt):
            return None
        tot = CP[0][idx[0]]
        for k in range(1, N):
            tot = (CQ[k - 1][idx[k - 1]][idx[k]] + tot) + CP[k][idx[k]]
        tag = "logarithms" if flag else "likelihoods"
        if not close(tot, opt) and not tot < opt:
            msgs.append("%s [%s]: the sequence read from hmm_inference %s (indices %s) costs %r under the model of THIS call, "
                        "the best of all %d candidate sequences costs %r" % (what, tag, [SL[k][j] for k, j in enumerate(idx)], idx, tot, math.prod(n), opt))
        elif not close(co[-1], opt):
            msgs.append("%s [%s]: hmm_cost at the last epoch is %r, the optimum of the model of this call is %r" % (what, tag, co[-1], opt))
        else:
            return None
    return " / ".join(msgs)


def prefix_costs_ok(case, ctx, res):
    """recorded costs are the prefix costs of the recorded sequence (used when validating a tie against the model)"""
    N, R, YD = case["N"], case["R"], case["YD"]
    st = ctx["step"]
    SL, PT, QT = eff_model(case, ctx, res)
    as_num = case["sflav"] == "int"
    labs = [int(c) if as_num else c[1] for c in res["inf"]]
    codes = [code_of_pre(res["pre"][k], st.get("mode", 0), R, YD) for k in range(N)]
    for flag in ([True, False] if ctx["flag"] is None else [ctx["flag"]]):
        try:
            acc = cost_of(PT[0][labs[0]][codes[0]], flag)
            ok = close(acc, res["cost"][0])
            for k in range(1, N):
                acc = (cost_of(QT[k - 1][labs[k - 1]][labs[k]], flag) + acc) + cost_of(PT[k][labs[k]][codes[k]], flag)
                ok = ok and close(acc, res["cost"][k])
        except ValueError:
            continue
        if ok:
            return True
    return False


def est_in_domain(case, ctx, res):
    """`in_domain` for the tables of one estimate call (flag of the context; called when in_statement holds)"""
    N, R, YD = case["N"], case["R"], case["YD"]
    SL, PT, QT = eff_model(case, ctx, res)
    codes = [code_of_pre(res["pre"][k], ctx["step"].get("mode", 0), R, YD) for k in range(N)]
    try:
        CP = [[cost_of(PT[k][lab][codes[k]], ctx["flag"]) for lab in SL[k]] for k in range(N)]
        CQ = [[[cost_of(QT[k][a][b], ctx["flag"]) for b in SL[k + 1]] for a in SL[k]] for k in range(N - 1)]
    except ValueError:
        return False
    return in_domain(CP, CQ, best_cost([len(r) for r in SL], CP, CQ))


def tie_ok(case, ctx, res, i):
    """a result that differs from the model's is accepted iff the call is inside the statement, the result is optimal
    and the recorded costs are the prefix costs of the recorded sequence"""
    if ctx["flag"] is None:
        # only an earlier estimate(log=True) of this object declared logarithms: the statement leaves open whether that
        # still stands (the oracle accepts either reading and demands nothing when one of them is not a model); the
        # MODEL keeps the flag (self.log = self.log or log), and it is the model's choice among ties that is validated here
        ctx = dict(ctx, flag=True)
    if not in_statement(case, ctx, res):
        return False
    if not est_in_domain(case, ctx, res):
        return False                      # NaN / cost -inf / no sequence below the sentinel: the model is the only reference
    if check_est(case, ctx, res, i) is not None:
        return False
    try:
        return prefix_costs_ok(case, ctx, res)
    except Exception:
        return False


def spec(case, out):
    if not valid(case):
        return None
    if out.get("err") == "invalid-session":
        return None
    if "est" not in out:
        return "session did not run: %s" % (out,)
    ctxs = est_contexts(case)
    if len(ctxs) != len(out["est"]):
        return "session: %d estimate calls, %d results" % (len(ctxs), len(out["est"]))
    for i, (ctx, res) in enumerate(zip(ctxs, out["est"])):
        m = check_est(case, ctx, res, i)
        if m:
            return m
    return None


def cells_equal(a, b):
    if a is None or b is None:
        return a is None and b is None
    if len(a) != len(b):
        return False
    for x, y in zip(a, b):
        if isinstance(x, list) or isinstance(y, list):
            if x != y:
                return False
        elif not close(x, y):
            return False
    return True


def same_shape(case, ctx, res, a, b):
    """two partially written hmm_inference columns: states at the same epochs, each a candidate of its epoch; other
    cells equal"""
    if a is None or b is None or len(a) != len(b):
        return False
    em = eff_model(case, ctx, res)
    if em is None:
        return False
    SL = em[0]
    as_num = case["sflav"] == "int"
    for k, (x, y) in enumerate(zip(a, b)):
        if as_num:
            if x != y and not (is_num(x) and is_num(y) and x in SL[k] and y in SL[k]):
                return False
        elif isinstance(x, list) and isinstance(y, list):
            if x != y and not (x[0] == y[0] == "s" and x[1] in SL[k] and y[1] in SL[k]):
                return False
        elif x != y:
            return False
    return True


def compare(case, io, mo):
    if io.get("err") == "invalid-session" and mo.get("err") == "bad-request":
        return None
    if "est" not in io or "est" not in mo:
        return "impl=%s model=%s" % (str(io)[:300], str(mo)[:300])
    if len(io["est"]) != len(mo["est"]):
        return "number of estimate results: impl %d, model %d" % (len(io["est"]), len(mo["est"]))
    ctxs = est_contexts(case)
    for i, (a, b) in enumerate(zip(io["est"], mo["est"])):
        if a.get("mut"):       # the model has no writer of a state object or of a container
            return "estimate call %d modified what S returned: %s" % (i, "; ".join(a["mut"]))
        if a["status"] == b["status"] and cells_equal(a["inf"], b["inf"]) and cells_equal(a["cost"], b["cost"]):
            continue
        # another optimal sequence (tie-breaking is not part of the property): accepted, the rest of the history cannot be followed
        if a["status"] == "ok" and b["status"] == "ok" and not cells_equal(a["inf"], b["inf"]) \
                and tie_ok(case, ctxs[i], a, i):
            return None
        # outside the statement (an epoch without candidates: every value saturates at the sentinel and ties), the call
        # raised on both sides after the same partial writes up to the choice among tied states
        if a["status"] == b["status"] != "ok" and not in_statement(case, ctxs[i], a) and cells_equal(a["cost"], b["cost"]) \
                and same_shape(case, ctxs[i], a, a["inf"], b["inf"]):
            return None
        return "estimate call %d: impl %s inf=%s cost=%s, model %s inf=%s cost=%s" % (
            i, a["status"], a["inf"], a["cost"], b["status"], b["inf"], b["cost"])
    if io["logs"] != mo["logs"]:
        return "log flags of the objects after the history: impl %s model %s" % (io["logs"], mo["logs"])
    if len(io["tracks"]) != len(mo["tracks"]):
        return "number of tracks"
    for j, (a, b) in enumerate(zip(io["tracks"], mo["tracks"])):
        if a["names"] != b["names"]:
            return "track %d: feature names impl %s model %s" % (j, a["names"], b["names"])
        for n in a["names"]:
            if not cells_equal(a["cols"][n], b["cols"][n]):
                return "track %d: feature %s after the history: impl %s model %s" % (j, n, a["cols"][n], b["cols"][n])
        if a["pos"] != b["pos"]:
            return "track %d: positions replaced by states: impl %s model %s" % (j, a["pos"], b["pos"])
    return None


# --------------------------------------------------------------------------------------------------
# generator
# --------------------------------------------------------------------------------------------------
LIK_SETS = {"lik3": [0, 0.5, 1], "lik8": [i / 8.0 for i in range(9)], "likw": [0, 0.25, 0.5, 1, 2, 4], "lik01": [0, 1]}
LOG_SETS = {"logint": [0, -1, -2, -3], "logdy": [-i / 4.0 for i in range(13)], "logpm": [-2, -1, 0, 1, 2],
            # zero-probability transitions / emissions supplied as logarithms (cost +inf): the normal case in map-matching
            "loginf": [0, -1, -2, -0.5, "-inf", "-inf", "-inf"],
            # mostly impossible (often no possible sequence: sentinel cells), costs that reach 1e300, NaN, cost -inf
            "logzero": [0, -1, "-inf", "-inf", "-inf", "-inf"], "loghuge": [0, -1, -4e299, -6e299, -1e300],
            "lognan": [0, -1, -2, -1, 0, "nan", "inf", "-inf"]}


def gen_model(rng, N, L, YD, kind, maxseq, sflav="int"):
    # user functions that LOOK AT THE TRACK they are handed (S(track, k), Q(s1, s2, k, track), P(s, y, k, track)): the
    # candidate table / the column of the likelihood table is selected by a value read at epoch k + off
    dep, nalt = {}, 0
    if rng.random() < 0.22:
        srcs = ["x", "x", "hmm_inference", "hmm_inference", "hmm_cost", "ya", "ya", "yb", "idx", "y", "z"]
        if sflav in POSFLAVS:
            srcs += ["x"] * 5
        for w in rng.choice(["S", "S", "S", "S", "Q", "P", "SQ", "SP", "SQP"]):
            dep[w] = {"src": rng.choice(srcs), "off": rng.choice(DEP_OFFS)}
        if "S" in dep:
            nalt = rng.choice([1, 1, 2])
    while True:
        if rng.random() < 0.35:
            row = [rng.randrange(L) for _ in range(rng.randrange(1, 4))]
            S = [list(row) for _ in range(N)]
        else:
            S = [[rng.randrange(L) for _ in range(rng.randrange(1, 4))] for _ in range(N)]
        SV = [[[rng.randrange(L) for _ in range(rng.randrange(1, 4))] for _ in range(N)] for _ in range(nalt)]
        if math.prod(max(len(t[k]) for t in [S] + SV) for k in range(N)) <= maxseq:
            break
    vals = LIK_SETS[kind] if kind in LIK_SETS else LOG_SETS[kind]
    if rng.random() < 0.25:      # observation model that does not depend on the epoch
        p0 = [[rng.choice(vals) for _ in range(YD)] for _ in range(L)]
        Pt = [[list(c) for c in p0] for _ in range(N)]
    else:
        Pt = [[[rng.choice(vals) for _ in range(YD)] for _ in range(L)] for _ in range(N)]
    if rng.random() < 0.4:       # stationary transitions
        q0 = [[rng.choice(vals) for _ in range(L)] for _ in range(L)]
        Qt = [[list(c) for c in q0] for _ in range(N - 1)]
    else:
        Qt = [[[rng.choice(vals) for _ in range(L)] for _ in range(L)] for _ in range(N - 1)]
    m = {"S": S, "P": Pt, "Q": Qt, "kind": "lik" if kind in LIK_SETS else "log"}
    if dep:
        m["dep"] = dep
    if SV:
        m["SV"] = SV
    if rng.random() < 0.05:      # a user function that raises for some arguments (outside the statement when it is reached)
        w = rng.choice(["S", "P", "P", "Q", "Q"])
        if w == "S":
            m["exc"] = {"S": [rng.randrange(N)]}
        elif w == "P":
            m["exc"] = {"P": [[rng.randrange(N), rng.randrange(L)] for _ in range(rng.choice([1, 1, 2]))]}
        elif N >= 2:
            m["exc"] = {"Q": [[rng.randrange(N - 1), rng.randrange(L), rng.randrange(L)] for _ in range(rng.choice([1, 1, 2, 3]))]}
    # what S returns: the container type per epoch, and whether containers / state objects are shared between calls
    r = rng.random()
    if r < 0.60:
        pass                                                   # lists (the key is left out)
    elif r < 0.84:
        m["cont"] = [rng.choice(SIZED[1:])] * N
    elif r < 0.97:
        m["cont"] = [rng.choice(SIZED) for _ in range(N)]
    else:                                                      # one epoch without a length: TypeError (outside the statement)
        m["cont"] = [rng.choice(SIZED) for _ in range(N)]
        m["cont"][rng.randrange(N)] = rng.choice(UNSIZED)
    r = rng.random()
    if r >= 0.60:
        m["share"] = "const" if r < 0.85 else "same"
    return m


def log_twin(m):
    f = lambda v: math.log(v + 1e-300)
    t = {"S": [list(r) for r in m["S"]], "P": [[[f(v) for v in c] for c in r] for r in m["P"]],
         "Q": [[[f(v) for v in c] for c in r] for r in m["Q"]], "kind": "log"}
    for k in ("cont", "share", "dep", "SV", "exc"):
        if k in m:
            t[k] = copy.deepcopy(m[k])
    return t


def gen_session(rng, big=False):
    N = rng.choice([1, 2, 2, 3, 3, 3, 4, 4, 5, 6] if not big else [5, 6, 7, 8])
    L = rng.choice([1, 2, 2, 3, 3, 4])
    R = max(L, rng.choice([2, 2, 3]))
    YD = rng.choice([1, 2, 3, 3, 4, 6])
    sflav = rng.choice(SFLAVS + ["trackpos"])
    case = {"kind": "sess", "N": N, "L": L, "R": R, "YD": YD, "sflav": sflav, "yflav": rng.choice(["int", "float"])}
    r = rng.random()
    if r < 0.12:
        case["boolform"] = "int" if r < 0.07 else "npbool"
    models = []
    for _ in range(rng.choice([1, 2, 2, 3])):
        kind = rng.choice(["lik3", "lik8", "lik8", "likw", "likw", "likw", "lik01", "logint", "logdy", "logpm",
                           "loginf", "loginf", "loginf", "logzero", "loghuge", "lognan"])
        m = gen_model(rng, N, L, YD, kind, 1500 if not big else CAP, sflav)
        models.append(m)
        if m["kind"] == "lik" and rng.random() < 0.2:
            models.append(log_twin(m))
    if rng.random() < 0.04:     # an epoch without candidates (outside the statement; error kinds and partial writes are compared)
        m = models[rng.randrange(len(models))]
        m["S"][rng.randrange(N)] = []
    case["models"] = models
    unames = ["ya", "yb", "yc"][:rng.choice([1, 1, 2, 2, 3])]
    feats = [[n, [rng.randrange(R) for _ in range(N)]] for n in unames]
    if rng.random() < 0.12:
        feats.append(["hmm_inference", [rng.randrange(R) for _ in range(N)]])
    if rng.random() < 0.12:
        feats.append(["hmm_cost", [rng.randrange(R) for _ in range(N)]])
    rng.shuffle(feats)
    case["feats"] = feats
    steps, objs = [], []
    tfeats = [set(f[0] for f in feats)]      # feature names per track, as the generator expects them

    def new_obj():
        m = rng.randrange(len(models))
        mS, mQ, mP = m, m, m
        if rng.random() < 0.15:
            mQ = rng.randrange(len(models))
        if rng.random() < 0.15:
            mP = rng.randrange(len(models))
        need = any(models[x]["kind"] == "log" for x in (mQ, mP))
        lg = rng.random() < (0.7 if need else 0.15)
        steps.append({"op": "new", "h": len(objs), "log": lg, "mS": mS, "mQ": mQ, "mP": mP,
                      "via": rng.choice(["ctor", "ctor", "setter", "ctor-pos"]), "stat": rng.random() < 0.3,
                      "always_setlog": rng.random() < 0.5})
        objs.append({"actual": lg, "declared": lg, "sticky": False, "S": mS, "Q": mQ, "P": mP})

    new_obj()
    cur_t = 0
    n_est = rng.choice([1, 1, 1, 2, 2, 2, 3, 3, 4] if not big else [1, 2])
    for e in range(n_est):
        if e > 0:
            for _ in range(rng.choice([0, 1, 1, 2, 3])):
                r = rng.random()
                h = rng.randrange(len(objs))
                if r < 0.22:
                    m = rng.randrange(len(models))
                    which = rng.choice(["all", "all", "P", "Q", "S"])
                    for w in ("S", "Q", "P"):
                        if which in ("all", w):
                            steps.append({"op": "set" + w, "h": h, "m": m})
                            objs[h][w] = m
                elif r < 0.36:
                    b = rng.random() < 0.5
                    steps.append({"op": "log", "h": h, "log": b})
                    objs[h].update(actual=b, declared=b, sticky=False)
                    if rng.random() < 0.3:
                        steps.append({"op": "stat", "h": h, "b": rng.random() < 0.5})
                elif r < 0.62:
                    cand = sorted(tfeats[cur_t])
                    if cand:
                        for _ in range(rng.choice([1, 1, 2, 3])):
                            steps.append({"op": "obs", "t": cur_t, "name": rng.choice(cand), "k": rng.randrange(N), "c": rng.randrange(R)})
                elif r < 0.76:
                    steps.append({"op": "copy", "t": cur_t})
                    tfeats.append(set(tfeats[cur_t]))
                    if rng.random() < 0.7:
                        cur_t = len(tfeats) - 1
                elif r < 0.84:
                    name = rng.choice(["hmm_inference", "hmm_cost", "yd"])
                    steps.append({"op": "mk", "t": cur_t, "name": name, "vals": [rng.randrange(R) for _ in range(N)]})
                    tfeats[cur_t].add(name)
                elif r < 0.92 and len(objs) < 3:
                    new_obj()
                else:
                    cur_t = rng.randrange(len(tfeats))
        h = rng.randrange(len(objs))
        o = objs[h]
        t = cur_t
        avail = sorted(tfeats[t])
        names = []
        k = rng.choice([1, 1, 1, 2, 2, 3])
        pool = [n for n in avail if n.startswith("y")]
        if "hmm_inference" in avail and rng.random() < 0.5:
            pool.append("hmm_inference")
        if "hmm_cost" in avail and rng.random() < 0.2:
            pool.append("hmm_cost")
        if rng.random() < 0.1:
            pool.append("idx")
        if rng.random() < (0.3 if sflav in POSFLAVS else 0.06):      # the position itself as (part of) the observation
            pool += rng.sample(["x", "y", "z"], rng.choice([1, 2, 3]))
        rng.shuffle(pool)
        names = pool[:k]
        r = rng.random()
        if r < 0.02:
            names = names + ["nosuch"]
        elif r < 0.04:
            names = []
        modes = [0, 0, 0, 0, 6]
        if len(names) >= 2:
            modes += [1, 1]
        if len(names) >= 3:
            modes += [2, 2]
        if sflav in POSFLAVS:
            modes += [5, 5]
            if len(names) >= 2:
                modes += [3]
            if len(names) >= 3:
                modes += [4]
        mode = rng.choice(modes)
        if rng.random() < 0.015:
            mode = rng.choice([1, 2])        # possibly too few fields: exit()
        if sflav != "int" and "hmm_inference" in names[:fields_needed(mode)]:
            mode = 0                          # a position is made of numbers (Coords.__str__ formats them)
        need = any(models[x]["kind"] == "log" for x in (o["Q"], o["P"]))
        if o["declared"]:
            logarg = rng.choice([None, None, False, True])
        elif need and rng.random() < 0.05:
            logarg = rng.choice([None, False])           # logarithms handed over as likelihoods: math.log of a negative number
        elif need:
            logarg = True
        elif o["sticky"]:
            logarg = rng.choice([None, False, True])      # the declaration of an earlier call: either reading is accepted
        else:
            logarg = rng.choice([None, None, None, False, False, True])
        steps.append({"op": "est", "h": h, "t": t, "obs": names, "logarg": logarg, "mode": mode,
                      "verbose": rng.choice([0] * 12 + [1, 2, 3]), "obs_as_str": rng.random() < 0.5,
                      "mode_explicit": rng.random() < 0.5})
        if logarg:
            o["sticky"] = True
            o["actual"] = True
        tfeats[t].update(["hmm_inference", "hmm_cost"])
    case["steps"] = steps
    return case


def nontrivial(case):
    ne = sum(1 for s in case["steps"] if s["op"] == "est")
    big = any(math.prod(len(r) for r in m["S"]) >= 2 for m in case["models"])
    return case["N"] >= 2 and big and ne >= 1


def describe(case):
    ne = sum(1 for s in case["steps"] if s["op"] == "est")
    ops = set(s["op"] for s in case["steps"])
    kinds = sorted(set(c for m in case["models"] for c in conts_of(m, case["N"])))
    return {"kind": "sess", "T": case["N"], "maxS": max((len(r) for m in case["models"] for r in m["S"]), default=0),
            "values": "sess " + case["sflav"], "via": "%d est%s%s" % (ne, " copy" if "copy" in ops else "", " edit" if "obs" in ops else ""),
            "S returns": "+".join(kinds) if len(kinds) <= 2 else "%d kinds" % len(kinds),
            "share": "+".join(sorted(set(m.get("share", "fresh") for m in case["models"]))),
            "xyz obs": any(n in ("x", "y", "z") for s in case["steps"] if s["op"] == "est" for n in s["obs"]),
            "raises": "".join(w for w in ("S", "Q", "P") if any(exc_of(m, w) for m in case["models"])) or "-",
            "non-finite": "+".join(sorted(set(v for m in case["models"] for tab in (m["P"], m["Q"]) for r in tab for c in r for v in c
                                              if isinstance(v, str)))) or "-",
            "reads track": "".join(w for w in ("S", "Q", "P") if any(dep_of(m, w) for m in case["models"])) or "-"}


def shrink(case):
    steps = case["steps"]
    # drop one step (objects and tracks are renumbered when a creation is dropped: simply reject invalid results)
    for i in range(len(steps) - 1, -1, -1):
        c = dict(case, steps=steps[:i] + steps[i + 1:])
        if valid(c):
            yield c
    # drop a model that is not referenced (the later ones are renumbered)
    used = set()
    for s in steps:
        for k in ("mS", "mQ", "mP", "m"):
            if k in s:
                used.add(s[k])
    for mi in range(len(case["models"]) - 1, -1, -1):
        if mi not in used and len(case["models"]) > 1:
            c = copy.deepcopy(case)
            del c["models"][mi]
            for s in c["steps"]:
                for k in ("mS", "mQ", "mP", "m"):
                    if k in s and s[k] > mi:
                        s[k] -= 1
            if valid(c):
                yield c
            break
    if "boolform" in case:
        yield {k: v for k, v in case.items() if k != "boolform"}
    # drop the last epoch
    N = case["N"]
    if N > 1:
        c = copy.deepcopy(case)
        c["N"] = N - 1
        for m in c["models"]:
            m["S"] = m["S"][:-1]; m["P"] = m["P"][:-1]; m["Q"] = m["Q"][:-1]
            if "SV" in m:
                m["SV"] = [t[:-1] for t in m["SV"]]
            if "exc" in m:      # keep what still designates an epoch / a transition of the shorter track
                ex = {"S": [k for k in exc_of(m, "S") if k < N - 1], "P": [list(a) for a in exc_of(m, "P") if a[0] < N - 1],
                      "Q": [list(a) for a in exc_of(m, "Q") if a[0] < N - 2]}
                m["exc"] = {w: v for w, v in ex.items() if v}
                if not m["exc"]:
                    del m["exc"]
            if isinstance(m.get("cont"), list):
                m["cont"] = m["cont"][:-1]
        c["feats"] = [[n, v[:-1]] for n, v in c["feats"]]
        c["steps"] = [dict(s, vals=s["vals"][:-1]) if s["op"] == "mk" else s for s in c["steps"]
                      if not (s["op"] == "obs" and s["k"] >= N - 1)]
        if valid(c):
            yield c
    # fewer candidates
    for mi, m in enumerate(case["models"]):
        for k, row in enumerate(m["S"]):
            if len(row) > 1:
                for j in range(len(row)):
                    c = copy.deepcopy(case)
                    c["models"][mi]["S"][k] = row[:j] + row[j + 1:]
                    yield c
    # user functions that do not raise
    for mi, m in enumerate(case["models"]):
        if m.get("exc"):
            c = copy.deepcopy(case)
            del c["models"][mi]["exc"]
            yield c
    # user functions that do not look at the track
    for mi, m in enumerate(case["models"]):
        if m.get("dep") or m.get("SV"):
            c = copy.deepcopy(case)
            c["models"][mi].pop("dep", None); c["models"][mi].pop("SV", None)
            yield c
            for w in sorted(m.get("dep") or {}):
                if len(m["dep"]) > 1:
                    c = copy.deepcopy(case)
                    del c["models"][mi]["dep"][w]
                    if w == "S":
                        c["models"][mi].pop("SV", None)
                    yield c
            if len(m.get("SV", [])) > 1:
                c = copy.deepcopy(case)
                c["models"][mi]["SV"] = c["models"][mi]["SV"][:1]
                yield c
            for ti, tab in enumerate(m.get("SV", [])):
                for k, row in enumerate(tab):
                    if len(row) > 1:
                        for j in range(len(row)):
                            c = copy.deepcopy(case)
                            c["models"][mi]["SV"][ti][k] = row[:j] + row[j + 1:]
                            yield c
    # plain containers, nothing shared
    for mi, m in enumerate(case["models"]):
        if "cont" in m or "share" in m:
            c = copy.deepcopy(case)
            c["models"][mi].pop("cont", None); c["models"][mi].pop("share", None)
            yield c
            if "cont" in m and "share" in m:
                c = copy.deepcopy(case); c["models"][mi].pop("share")
                yield c
            if "cont" in m and len(set(conts_of(m, case["N"]))) > 1:
                for kind in sorted(set(conts_of(m, case["N"]))):
                    c = copy.deepcopy(case); c["models"][mi]["cont"] = [kind] * case["N"]
                    yield c
    # plain flavours
    if case["sflav"] != "int" and not any(s.get("mode", 0) in (3, 4, 5) for s in steps if s["op"] == "est"):
        yield dict(case, sflav="int")
    for i, s in enumerate(steps):
        if s["op"] == "est" and (s.get("verbose") or s.get("mode", 0) == 6):
            yield dict(case, steps=steps[:i] + [dict(s, verbose=0, mode=0 if s.get("mode", 0) == 6 else s.get("mode", 0))] + steps[i + 1:])
    # simpler table values
    for mi, m in enumerate(case["models"]):
        simple = 1 if m.get("kind") == "lik" else 0
        for tab in ("P", "Q"):
            for a, r in enumerate(m[tab]):
                for b, c_ in enumerate(r):
                    if any(v != simple for v in c_):
                        c = copy.deepcopy(case)
                        c["models"][mi][tab][a][b] = [simple] * len(c_)
                        yield c


def mutate(case, rng):
    out = [case]
    for _ in range(8):
        c = copy.deepcopy(case)
        m = c["models"][rng.randrange(len(c["models"]))]
        pool = [0, 0.5, 1, 2] if m.get("kind") == "lik" else [0, -1, -2, 1]
        for _ in range(rng.randrange(1, 4)):
            tab = m[rng.choice(["P", "Q"])]
            if not tab:
                continue
            r = rng.choice(rng.choice(tab))
            r[rng.randrange(len(r))] = rng.choice(pool)
        out.append(c)
    return out
