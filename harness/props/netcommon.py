"""Shared by the C06 and C07 checks: graph cases, the real `Network` builder, the Floyd-Warshall oracle.

A graph case is JSON-able:
  {"kind": ..., "n": n, "order": node insertion order (permutation of 0..n-1),
   "edges": [[id, src, tgt, w, ori], ...]   (insertion order; w an int or a "p/q" string; ori in {-1,0,1}),
   ["e": [codes]  compact form of the enumerated scopes instead of "edges", see `alphabet`],
   ["pos": [[x,y],...], "lines": [[[x,y],...] per edge]]   (C07 only)}
Node ids are the integers 0..n-1 (heap ties are broken by node id, `Node.__lt__`).
"""
import itertools, signal
from fractions import Fraction

BIG = 1e300


def num(w):
    """case weight -> exact number (int or Fraction)"""
    if isinstance(w, str):
        f = Fraction(w)
        return f.numerator if f.denominator == 1 else f
    if isinstance(w, float):
        return Fraction(w)          # the real number the float denotes
    return w


def pynum(w):
    """exact number -> what is handed to tracklib (int, or a float holding the dyadic value exactly)"""
    if isinstance(w, float):
        return w
    w = num(w)
    return w if isinstance(w, int) else float(w)


def tok(x):
    """number -> protocol token"""
    f = Fraction(x)
    return str(f.numerator) if f.denominator == 1 else "%d/%d" % (f.numerator, f.denominator)


def alphabet(n, weights=(0, 1, 2), oris=(-1, 0, 1)):
    """every possible edge (src, tgt, w, ori) on n nodes, self-loops included"""
    return [(s, t, w, o) for s in range(n) for t in range(n) for w in weights for o in oris]


def expand(case):
    """explicit edge list of a case (decodes the compact enumerated form)"""
    if "edges" in case:
        return [list(e) for e in case["edges"]]
    al = alphabet(case["n"])
    return [[i] + list(al[c]) for i, c in enumerate(case["e"])]


def explicit(case):
    c = {k: v for k, v in case.items() if k != "e"}
    c["edges"] = expand(case)
    return c


def arcs(edges):
    """permitted arcs (u, v, w, edge id): orientation >= 0 allows source->target, <= 0 allows target->source"""
    out = []
    for (i, s, t, w, o) in edges:
        if o >= 0:
            out.append((s, t, num(w), i))
        if o <= 0:
            out.append((t, s, num(w), i))
    return out


def floyd_warshall(n, edges):
    """d[u][v] = minimum total weight over walks of permitted arcs, None when there is no walk"""
    d = [[None] * n for _ in range(n)]
    for u in range(n):
        d[u][u] = 0
    for (u, v, w, _) in arcs(edges):
        if d[u][v] is None or w < d[u][v]:
            d[u][v] = w
    for k in range(n):
        dk = d[k]
        for i in range(n):
            dik = d[i][k]
            if dik is None:
                continue
            di = d[i]
            for j in range(n):
                if dk[j] is not None and (di[j] is None or dik + dk[j] < di[j]):
                    di[j] = dik + dk[j]
    return d


def cuts_for(dist):
    """cut-offs below / equal / above each distinct finite distance (as exact numbers), ascending"""
    ds = sorted({x for row in dist for x in row if x is not None})
    out = set()
    for x in ds:
        out.update([x - Fraction(1, 2), x, x + Fraction(1, 2)])
    return sorted(out)


def enum_graphs(n, k, ordered):
    """all edge-code tuples of length k over the alphabet of n nodes (ordered lists or multisets)"""
    m = len(alphabet(n))
    return itertools.product(range(m), repeat=k) if ordered else itertools.combinations_with_replacement(range(m), k)


def random_graph(rng, nmax=12, emax=40, small=False):
    n = rng.randint(1, 4) if small else rng.randint(2, nmax)
    m = rng.randint(0, 6) if small else rng.randint(0, emax)
    style = rng.random()
    wchoices = [0, 0, 1, 1, 2, 3, 5, 7, 10]
    edges = []
    ids = rng.sample(range(0, 3 * m + 5), m)
    for i in range(m):
        s = rng.randrange(n)
        t = rng.randrange(n) if rng.random() < 0.9 else s
        if style < 0.25:      # many ties: weights 0/1
            w = rng.choice([0, 1, 1])
        elif style < 0.5:     # dyadic weights
            w = tok(Fraction(rng.randrange(0, 17), rng.choice([1, 2, 4])))
            w = int(w) if "/" not in w else w
        else:
            w = rng.choice(wchoices)
        if edges and rng.random() < 0.15:   # parallel edge of another weight / orientation
            _, s, t, _, _ = rng.choice(edges)
            if rng.random() < 0.5:
                s, t = t, s
        o = rng.choice([-1, 0, 0, 1, 1]) if style > 0.1 else rng.choice([-1, 1])
        edges.append([ids[i], s, t, w, o])
    order = list(range(n))
    rng.shuffle(order)
    return {"n": n, "order": order, "edges": edges}


def random_geometry(rng, n, edges, box=3):
    """node positions on the integer lattice (some coincide) and for each edge a polyline with 1-4 vertices
    that starts at its source's position and ends at its target's"""
    pos = []
    for v in range(n):
        if pos and rng.random() < 0.2:
            pos.append(list(rng.choice(pos)))
        else:
            pos.append([rng.randint(0, box), rng.randint(0, box)])
    lines = []
    for (_, s, t, _, _) in edges:
        ps, pt = pos[s], pos[t]
        r = rng.random()
        mids = lambda k: [[rng.randint(-1, box + 1), rng.randint(-1, box + 1)] for _ in range(k)]
        if ps == pt and r < 0.4:
            lines.append([list(ps)])
        elif r < 0.6:
            lines.append([list(ps), list(pt)])
        elif r < 0.9:
            lines.append([list(ps)] + mids(1) + [list(pt)])
        else:
            lines.append([list(ps)] + mids(2) + [list(pt)])
    return pos, lines


class Timeout(Exception):
    pass


class Skipped(Exception):
    pass


_timeouts = 0


class time_limit:
    """A mutated loop that never ends must become a failing output, not a hung check: the implementation gets
    `seconds` of CPU time (not wall time, so a loaded machine cannot cause a false alarm; the real code needs
    milliseconds). After two such failures inside a pool worker the rest of that worker's share is skipped
    (reported as not evaluated, never as passing evidence for the failing ones): the run is failing already."""

    def __init__(self, seconds):
        self.seconds = seconds

    def _raise(self, *a):
        global _timeouts
        _timeouts += 1
        raise Timeout("no result within %ss of CPU time (endless loop?)" % self.seconds)

    def __enter__(self):
        import multiprocessing
        if _timeouts >= 2 and multiprocessing.current_process().name != "MainProcess":
            raise Skipped()
        self.old = signal.signal(signal.SIGVTALRM, self._raise)
        signal.setitimer(signal.ITIMER_VIRTUAL, self.seconds)

    def __exit__(self, *a):
        signal.setitimer(signal.ITIMER_VIRTUAL, 0)
        signal.signal(signal.SIGVTALRM, self.old)


def build_network(mods, case, with_geom=False):
    """the real tracklib Network of a case (nodes added in `order`, edges in list order)"""
    Network, Node, Edge, Track, Obs, ENUCoords, ObsTime = mods
    net = Network()
    pos = case.get("pos")
    nodes = {}
    for v in case["order"]:
        x, y = pos[v] if pos else (v, 0)
        nodes[v] = Node(v, ENUCoords(x, y, 0))
        net.addNode(nodes[v])
    for k, (i, s, t, w, o) in enumerate(expand(case)):
        if with_geom:
            tr = Track([Obs(ENUCoords(x, y, 0), ObsTime()) for (x, y) in case["lines"][k]])
        else:
            tr = Track()
        e = Edge(i, tr)
        e.orientation = o
        e.weight = pynum(w)
        net.addEdge(e, nodes[s], nodes[t])
    return net


def import_mods():
    from tracklib.core.network import Network, Node, Edge
    from tracklib.core import Track, Obs, ENUCoords, ObsTime
    return (Network, Node, Edge, Track, Obs, ENUCoords, ObsTime)


def edges_token(edges):
    return ";".join("%d,%d,%d,%s,%d" % (i, s, t, tok(num(w)), o) for (i, s, t, w, o) in edges) if edges else "_"


def shrink_graph(case):
    """smaller graphs: explicit form, drop an edge, drop the last node, lower a weight"""
    if "e" in case:
        yield explicit(case)
        return
    edges = case["edges"]
    n = case["n"]
    for k in range(len(edges)):
        c = dict(case, edges=edges[:k] + edges[k + 1:])
        if "lines" in case:
            c["lines"] = case["lines"][:k] + case["lines"][k + 1:]
        yield c
    used = {x for e in edges for x in (e[1], e[2])}
    for v in range(n - 1, -1, -1):
        if v not in used and n > 1:          # drop an isolated node, renumbering the ones above it
            r = lambda x: x - 1 if x > v else x
            c = dict(case, n=n - 1, order=[r(x) for x in case["order"] if x != v],
                     edges=[[i, r(a), r(b), w, o] for (i, a, b, w, o) in edges])
            if "pos" in case:
                c["pos"] = case["pos"][:v] + case["pos"][v + 1:]
            yield c
    if case["order"] != sorted(case["order"]):
        yield dict(case, order=sorted(case["order"]))
    for k, (i, s, t, w, o) in enumerate(edges):
        if isinstance(w, str):
            yield dict(case, edges=edges[:k] + [[i, s, t, int(Fraction(w)), o]] + edges[k + 1:])
        elif isinstance(w, int) and w > 2:
            yield dict(case, edges=edges[:k] + [[i, s, t, w // 2, o]] + edges[k + 1:])
