"""C01 — the feature table stays aligned with the observations under any operation history
(tracklib/core/track.py analytical-feature methods, __setitem__, operate; operators.py; utils.addListToAF;
the helpers of algo/cinematics.py and algo/segmentation.py that create features; tables carried by copy / extract / slice / +).

A case is a history of API calls on a fresh track of n observations. After EVERY call the harness
observes the listed names, every column (read through the name), len(obs.features) of every
observation, X/Y/Z/T, the outcome (ok / exception kind) and the returned value, on the real code,
on the Lean model of the code (dict + rows) and on the Lean specification (name -> column).
The oracle (`spec`) keeps, independently of both, "what was last written under each name".

The `carry` stream makes a track from another one (copy / extract / slice / + / extractSpanTime / loop(add=True) /
addObs or insertObs of an Obs.copy()), runs a history on it and then on the source again; the whole session is also run
on the Lean model of the heap of Obs objects (Model/FeaturesWorld.lean: tracks hold references, the derivations are
modelled) and every track is compared wherever the implementation is observed."""
import re, json, hashlib, math
import numpy as np
from engine import Prop, fbits, bitsf, close

NAN = float("nan")
RESERVED = ["x", "y", "z", "t", "timestamp", "idx"]


def fv(v):
    """case value -> python float ("nan" encodes NaN)"""
    return NAN if v == "nan" else float(v)


def fl(l):
    return [fv(v) for v in l]


def tokf(v):
    return fbits(fv(v))


def tokl(l):
    return ",".join(tokf(v) for v in l) if l else "_"


def is_nan(v):
    return isinstance(v, float) and v != v


def is_scalar(v):
    """one number: Python int / float / bool / complex or a 0-dimensional numpy number - not a container"""
    return isinstance(v, (int, float, bool, complex, np.integer, np.floating, np.bool_, np.complexfloating)) and np.ndim(v) == 0


def canon(v):
    """value stored in a feature -> float (or a marker string for something that is not one real scalar)"""
    if not is_scalar(v):
        return "obj:%s" % type(v).__name__
    if isinstance(v, (complex, np.complexfloating)):
        return "complex"                   # x ** y with a negative base: one value, but not a real one (outside the model)
    return float(v)


def finite(l):
    return all(isinstance(v, float) and math.isfinite(v) for v in l)


def close_scaled(a, b):
    """vectors computed through an FFT: tolerance relative to the largest magnitude"""
    if len(a) != len(b) or any(isinstance(v, str) for v in a):
        return False
    if not finite(b):
        return True                        # non-finite inputs: values out of scope (IEEE inf/nan algebra of the FFT)
    m = max([1.0] + [abs(v) for v in b])
    return all(isinstance(x, float) and abs(x - y) <= 1e-9 * m * max(1, len(b)) for x, y in zip(a, b))


# ------------------------------------------------------------------------------------------
# the "vals" stream: cell values that are arbitrary Python objects. The property says "exactly the values last written",
# whatever they are; a value is described in a case by a JSON spec, made by mk_val, and observed as a TOKEN (vtok):
#   numbers (bool, int, float, numpy scalars) by VALUE (`True == 1 == 1.0 == np.float64(1)`: one token, so a change of the
#   number's type is not judged), NaN as one token; a str by its characters; any other object by type name and repr
# ------------------------------------------------------------------------------------------
from fractions import Fraction

VAL_POOL = [["none"], ["none"], ["none"], ["bool", True], ["bool", False], ["int", "0"], ["int", "3"], ["int", "-7"],
            ["int", str(2 ** 70 + 1)], ["float", "0.0"], ["float", "0.1"], ["float", "-2.5"], ["float", "nan"], ["float", "inf"],
            ["str", "s"], ["str", ""], ["str", "#0"], ["str", "a"], ["str", "x"], ["str", "0.0"], ["str", "None"], ["str", "é b"],
            ["np", "float64", "2.5"], ["np", "int32", "3"], ["np", "bool_", "1"], ["np", "float32", "0.5"],
            ["complex", 1.0, 2.0], ["bytes", "6162"]]


def mk_val(spec):
    k = spec[0]
    if k == "none":
        return None
    if k == "bool":
        return bool(spec[1])
    if k == "int":
        return int(spec[1])
    if k == "float":
        return float(spec[1])
    if k == "str":
        return str(spec[1])
    if k == "np":
        return getattr(np, spec[1])(float(spec[2]) if "float" in spec[1] else int(spec[2]))
    if k == "complex":
        return complex(spec[1], spec[2])
    if k == "bytes":
        return bytes.fromhex(spec[1])
    raise ValueError(spec)


def vtok(v):
    """Python object -> token (protocol-safe: letters, digits, - / only)"""
    if isinstance(v, (bool, np.bool_)):
        return "n1" if v else "n0"
    if isinstance(v, (int, np.integer)):
        return "n%d" % int(v)
    if isinstance(v, (float, np.floating)):
        f = float(v)
        if f != f:
            return "nnan"
        if math.isinf(f):
            return "ninf" if f > 0 else "n-inf"
        return "n%s" % Fraction(f)
    if isinstance(v, str):
        return "s" + v.encode("utf-8").hex()
    return "o" + ("%s:%r" % (type(v).__name__, v))[:200].encode("utf-8").hex()


VTOK_RE = re.compile(r"'(s(?:[0-9a-f]{2})+|o(?:[0-9a-f]{2})+|n-?[0-9]+(?:/[0-9]+)?|nnan|ninf|n-inf)'")


def untok_text(msg):
    """tokens in a message -> readable values"""
    def f(m):
        t = m.group(1)
        if t[0] == "n":
            return t[1:]
        txt = bytes.fromhex(t[1:]).decode("utf-8", "replace")
        return repr(txt) if t[0] == "s" else "<" + txt + ">"
    return VTOK_RE.sub(f, msg)


DELETE_TOK = "s" + "#DELETE".encode().hex()


class VTab:
    """the oracle's table of the vals stream: name -> list of tokens, coordinates as tokens"""
    def __init__(self, n):
        self.n = n
        self.cols = {}
        self.X = [vtok(10.0 + i) for i in range(n)]
        self.Y = [vtok(20.0 + 2 * i) for i in range(n)]
        self.Z = [vtok(30.0 + 3 * i) for i in range(n)]
        self.T = [vtok(1000.0 + i) for i in range(n)]


def vcol(n, kind, val):
    """the column a scalar / list argument stands for (None: a list shorter than the track - no expectation)"""
    if kind == "s":
        return [vtok(mk_val(val))] * n
    l = [vtok(mk_val(v)) for v in val]
    return l[:n] if len(l) >= n else None


def expected_v(tab, op):
    """vals stream: what a successful call must have done, from the documented meaning of the call (same shape as expected_)"""
    n = tab.n
    k = op[0]
    e = {"cols": {}, "drop": set(), "coord": {}, "ret": "-", "scaled": False}
    if n == 0:
        return None
    if k == "create":
        if op[1] is None:
            return None                    # None is not a feature name: no expectation on the outcome - nothing may change (no target)
        if op[1] in RESERVED:
            return None
        if op[1] in tab.cols:
            return e                       # creating an existing feature writes nothing
        if op[2] == "d":
            return None                    # no value given: whatever the default is, only the target may appear
        c = vcol(n, op[2], op[3])
        if c is None:
            return None
        e["cols"][op[1]] = c
        return e
    if k in ("update", "setitem"):
        if op[1] in RESERVED or (k == "update" and op[1] not in tab.cols):
            return None
        c = vcol(n, op[2], op[3])
        if c is None:
            return None
        e["cols"][op[1]] = c
        return e
    if k == "remove":
        if op[1] not in tab.cols:
            return None
        e["drop"].add(op[1])
        return e
    if k == "setobs":
        if op[1] not in tab.cols or op[2] >= n:
            return None
        c = list(tab.cols[op[1]])
        c[op[2]] = vtok(mk_val(op[3]))
        e["cols"][op[1]] = c
        return e
    if k == "addaf":
        if op[1] in RESERVED:
            return None
        c = [vtok(mk_val(op[2]))] * n
        e["cols"][op[1]] = c
        e["ret"] = ("c", c)
        return e
    if k == "rev":
        out = op[2] if op[2] is not None else op[1]
        if op[1] not in tab.cols or out in RESERVED:
            return None
        e["cols"][out] = tab.cols[op[1]][::-1]
        return e
    if k == "expr":
        lhs, ast = parse_expr(op[1])
        if lhs is None or lhs in RESERVED or lhs.isdigit() or any(nm.startswith("#") for nm in tab.cols):
            return None
        if ast[0] == "name" and ast[1] in tab.cols:
            e["cols"][lhs] = list(tab.cols[ast[1]])
            return e
        if ast[0] == "num" and str(ast[1]) not in tab.cols:
            e["cols"][lhs] = [vtok(float(ast[1]))] * n
            return e
        return None
    raise ValueError(k)


# ------------------------------------------------------------------------------------------
# names across the driver protocol: [A-Za-z0-9#]+ as it is, anything else as '|' + hex(UTF-8)
# ------------------------------------------------------------------------------------------
PLAIN = re.compile(r"^[A-Za-z0-9#]+$")


def enc(name):
    return name if PLAIN.match(name) else "|" + name.encode("utf-8").hex()


def dec(tok):
    return bytes.fromhex(tok[1:]).decode("utf-8") if tok.startswith("|") else tok


def enc_list(names):
    return ",".join(enc(x) for x in names) if names else "_"


# ------------------------------------------------------------------------------------------
# expressions: the harness's own parser (recursive descent) -> AST, RPN.
# Surface syntax generated: names, integer literals, ( ), =, + - * / and - always parenthesised, so that
# no precedence convention is involved - (l % r) (l ^ r) (l < r) (l > r) (l >> k) (l << k), and F{e}.
# ------------------------------------------------------------------------------------------
NAME_RE = r"[^\W\d_][\w#]*|#[\w#]*"
TOK = re.compile(r"\s*(" + NAME_RE + r"|\d+|>>|<<|[-+*/^%<>(){}=])", re.UNICODE)
OPCHARS = set("+-*/^%<>(){}=&$!@'")
VOID_FN = ["I", "D", "LOG", "ABS", "SQRT", "DIODE", "SIGN", "EXP", "COS", "SIN", "TAN"]
AGG_FN = ["SUM", "AVG", "MIN", "MAX", "ARGMIN", "ARGMAX"]
ALL_FN = VOID_FN + AGG_FN + ["D2", "VAR", "STD", "MSE", "RMSE", "MAD", "MEDIAN"]
BIN_LEVELS = [["<", ">"], ["+", "-"], ["*", "/"], ["%"], ["^"], [">>", "<<"]]
RPN_OP = {">>": "&", "<<": "$"}


def expr_safe(name):
    """can the name be written in an expression (one token for the library's splitter and for ours)?"""
    return bool(re.match(r"^(?:" + NAME_RE + r")$", name, re.UNICODE)) and name not in ALL_FN


def tokenize(s):
    out, p = [], 0
    s = s.strip()
    while p < len(s):
        m = TOK.match(s, p)
        if not m:
            raise ValueError("bad expression %r" % s)
        out.append(m.group(1))
        p = m.end()
    return out


def parse_expr(s):
    """-> (lhs or None, ast) with ast = ('name', n) | ('num', k) | (op, l, r) | ('call', F, e)"""
    toks = tokenize(s)
    lhs = None
    if "=" in toks:
        assert toks[1] == "=" and toks.count("=") == 1
        lhs, toks = toks[0], toks[2:]
    pos = [0]

    def peek():
        return toks[pos[0]] if pos[0] < len(toks) else None

    def take():
        pos[0] += 1
        return toks[pos[0] - 1]

    def atom():
        t = take()
        if t == "(":
            e = level(0)
            assert take() == ")"
            return e
        if t.isdigit() and t.isascii():
            return ("num", int(t))
        if peek() == "{":
            take()
            e = level(0)
            assert take() == "}"
            return ("call", t, e)
        return ("name", t)

    def level(k):
        if k == len(BIN_LEVELS):
            return atom()
        e = level(k + 1)
        while peek() in BIN_LEVELS[k]:
            o = take()
            e = (o, e, level(k + 1))
        return e
    ast = level(0)
    assert pos[0] == len(toks), "trailing tokens in %r" % s
    return lhs, ast


def rpn_of(ast):
    if ast[0] in ("name", "num"):
        return [str(ast[1])]
    if ast[0] == "call":
        return [ast[1]] + rpn_of(ast[2]) + ["@"]
    return rpn_of(ast[1]) + rpn_of(ast[2]) + [RPN_OP.get(ast[0], ast[0])]


def expr_rpn(s):
    lhs, ast = parse_expr(s)
    r = rpn_of(ast)
    return ([lhs] + r + ["="]) if lhs is not None else r


def ast_names(ast, out=None):
    out = [] if out is None else out
    if ast[0] == "name":
        out.append(ast[1])
    elif ast[0] == "call":
        ast_names(ast[2], out)
    elif ast[0] != "num":
        ast_names(ast[1], out)
        ast_names(ast[2], out)
    return out


def ast_nums(ast, out=None):
    out = [] if out is None else out
    if ast[0] == "num":
        out.append(str(ast[1]))
    elif ast[0] == "call":
        ast_nums(ast[2], out)
    elif ast[0] != "name":
        ast_nums(ast[1], out)
        ast_nums(ast[2], out)
    return out


def expr_names(s):
    lhs, ast = parse_expr(s)
    return ([lhs] if lhs is not None else []) + ast_names(ast)


# ------------------------------------------------------------------------------------------
# the oracle's table: name -> list of floats, plus coordinates
# ------------------------------------------------------------------------------------------
class Tab:
    def __init__(self, n):
        self.n = n
        self.cols = {}
        self.X = [10.0 + i for i in range(n)]
        self.Y = [20.0 + 2 * i for i in range(n)]
        self.Z = [30.0 + 3 * i for i in range(n)]
        self.T = [1000.0 + i for i in range(n)]

    def clone(self):
        t = Tab(self.n)
        t.cols = {k: list(v) for k, v in self.cols.items()}
        t.X, t.Y, t.Z, t.T = list(self.X), list(self.Y), list(self.Z), list(self.T)
        return t

    def read(self, name):
        """column read under a name as the documentation defines it (None = no such thing)"""
        if name in ("x", "y", "z", "t"):
            c = getattr(self, name.upper())
            if not all(isinstance(v, float) for v in c):
                raise Exc()                # a coordinate holding a complex / an object (written by an operator): no expectation downstream
            return list(c)
        if name == "idx":
            return [float(i) for i in range(self.n)]
        if name in self.cols:
            c = self.cols[name]
            if not all(isinstance(v, float) for v in c):
                raise Exc()                # a column holding a complex / an object: no expectation downstream
            return list(c)
        return None


def init_col(n, kind, val):
    if kind == "s":
        return [fv(val)] * n
    l = fl(val)
    return l[:n] if len(l) >= n else None


class Exc(Exception):
    """the oracle's own arithmetic met a situation where ordinary arithmetic has no value (division by zero,
    overflow, complex result, domain error) or where the expression language has no such form: no expectation"""


def _num(f):
    def g(*a):
        try:
            r = f(*a)
        except (ZeroDivisionError, OverflowError, ValueError, TypeError, IndexError):
            raise Exc()
        if isinstance(r, complex):
            raise Exc()
        return float(r)
    return g


BOPS = {"add": _num(lambda a, b: a + b), "sub": _num(lambda a, b: a - b), "mul": _num(lambda a, b: a * b),
        "div": _num(lambda a, b: NAN if b == 0 else a / b),            # DIVIDER: denominator 0 -> NaN
        "pow": _num(lambda a, b: a ** b), "mod": _num(lambda a, b: a % b),
        "above": _num(lambda a, b: a > b), "below": _num(lambda a, b: a < b)}
SOPS = {"add": _num(lambda a, k: a + k), "sub": _num(lambda a, k: a - k), "rsub": _num(lambda a, k: k - a),
        "mul": _num(lambda a, k: a * k), "pow": _num(lambda a, k: a ** k), "rpow": _num(lambda a, k: k ** a),
        "mod": _num(lambda a, k: a % k), "rmod": _num(lambda a, k: k % a),
        "above": _num(lambda a, k: a > k), "below": _num(lambda a, k: a < k),
        "rabove": _num(lambda a, k: k > a), "rbelow": _num(lambda a, k: k < a)}
# expression operator -> (feature o feature, feature o number, number o feature) operator kinds, by the documentation of operate()
EXPR_B = {"+": "add", "-": "sub", "*": "mul", "/": "div", "^": "pow", "%": "mod", ">": "above", "<": "below"}
EXPR_S = {"+": "add", "-": "sub", "*": "mul", "^": "pow", "%": "mod", ">": "above", "<": "below"}
EXPR_SR = {"+": "add", "-": "rsub", "*": "mul", "^": "rpow", "%": "rmod", ">": "rabove", "<": "rbelow"}
LIT = {"+": _num(lambda a, b: a + b), "-": _num(lambda a, b: a - b), "*": _num(lambda a, b: a * b),
       "/": _num(lambda a, b: a / b), "^": _num(lambda a, b: a ** b),
       ">": _num(lambda a, b: a > b), "<": _num(lambda a, b: a < b)}


def shift_col(a, k):
    """SHIFT_CIRCULAR: y(t) = x((t - k) % n)"""
    n = len(a)
    if k != k or math.isinf(k):
        raise Exc()
    idx = [int((i - k) % n) for i in range(n)]
    if any(j >= n for j in idx):
        raise Exc()                        # (i - k) % n rounds up to n for a tiny negative k: no such observation
    return [a[j] for j in idx]


def fn_void(name, a):
    """the unary void operators by their documentation (Operator docstring), NaN where the input is NaN"""
    n = len(a)
    if name == "I":                        # y(t) = y(t-1) + x(t), y(0) = 0
        c = [0.0] * n
        for i in range(1, n):
            c[i] = c[i - 1] + a[i]
        return c
    if name == "D":                        # y(t) = x(t) - x(t-1), undefined (NaN) at t = 0
        return [NAN] + [a[i] - a[i - 1] for i in range(1, n)]
    if name == "ABS":                      # y(t) = |x(t)|, infinities included (fix 8378be5)
        return [abs(v) for v in a]
    if not finite([v for v in a if v == v]):
        raise Exc()                        # infinities: IEEE algebra of the library's formulas, out of scope
    f = {"LOG": lambda x: math.log(x) if x > 0 else 0.0, "ABS": abs, "SQRT": math.sqrt,
         "DIODE": lambda x: x if x > 0 else 0.0 * x, "SIGN": lambda x: (1.0 if x >= 0 else -1.0),
         "EXP": math.exp, "COS": math.cos, "SIN": math.sin, "TAN": math.tan}[name]
    out = []
    for v in a:
        if v != v:
            out.append(0.0 if name in ("LOG", "SIGN") else NAN)   # LOG: "0 unless x > 0"; SIGN: 1[x>=0] - 1[x<0]
        else:
            out.append(_num(f)(v))
    return out


def fn_agg(name, a):
    v = [x for x in a if x == x]
    tot = 0.0
    for x in v:                            # plain left-to-right sum (Python's sum() compensates)
        tot += x
    if name == "SUM":
        return tot
    if name == "AVG":
        if not v:
            raise Exc()
        return tot / len(v)
    if not finite(v) or len(v) != len(a) or not a:
        raise Exc()                        # NaN / infinities / empty: the sentinel conventions of the library, out of scope
    if name == "MIN":
        return min(a)
    if name == "MAX":
        return max(a)
    if name == "ARGMIN":
        return float(a.index(min(a)))
    return float(a.index(max(a)))


def eval_ast(tab, ast):
    """-> ('s', float) | ('c', [floats]); None when a name is unknown; raises Exc when there is no expectation"""
    if ast[0] == "num":
        return ("s", float(ast[1]))
    if ast[0] == "name":
        c = tab.read(ast[1])
        return None if c is None else ("c", c)
    if ast[0] == "call":
        v = eval_ast(tab, ast[2])
        if v is None:
            return None
        if v[0] != "c":
            raise Exc()                    # a function of a number: not in the language
        if ast[1] in VOID_FN:
            return ("c", fn_void(ast[1], v[1]))
        if ast[1] in AGG_FN:
            return ("c", [fn_agg(ast[1], v[1])] * len(v[1]))
        raise Exc()
    l, r = eval_ast(tab, ast[1]), eval_ast(tab, ast[2])
    if l is None or r is None:
        return None
    o = ast[0]
    if o in (">>", "<<"):
        if l[0] != "c" or r[0] != "s":
            raise Exc()
        return ("c", shift_col(l[1], r[1] if o == ">>" else -r[1]))
    if l[0] == "s" and r[0] == "s":
        if o not in LIT:
            raise Exc()
        return ("s", LIT[o](l[1], r[1]))
    if l[0] == "c" and r[0] == "c":
        f = BOPS[EXPR_B[o]]
        return ("c", [f(p, q) for p, q in zip(l[1], r[1])])
    if l[0] == "c":
        if o == "/":                       # documented as x(t) / arg
            if r[1] == 0:
                raise Exc()
            return ("c", [_num(lambda p, k: p * (1.0 / k))(p, r[1]) for p in l[1]])
        f = SOPS[EXPR_S[o]]
        return ("c", [f(p, r[1]) for p in l[1]])
    if o == "/":                           # arg / x(t)
        return ("c", [_num(lambda q, k: (1.0 / q) * k)(q, l[1]) for q in r[1]])
    f = SOPS[EXPR_SR[o]]
    return ("c", [f(q, l[1]) for q in r[1]])


LIST_VOID = ("uvoid", "bvoid", "svoid", "ufn", "sk")     # families whose list form runs one execute per position
LIST_REFUSED = ("sum", "aggf")                              # value-returning unary operators: the list form raises TypeError


def op_targets(op):
    k = op[0]
    if k == "list":
        out = set()
        for sub in op[1]:
            out |= op_targets(sub)
        return out
    if k in ("create", "update", "setitem", "remove", "setobs", "addaf"):
        return {op[1]} if op[1] is not None else set()
    if k == "uvoid":
        return {op[3] if op[3] is not None else op[2]}
    if k == "bvoid":
        return {op[4] if op[4] is not None else op[2]}
    if k in ("svoid", "sk"):
        return {op[4] if op[4] is not None else op[2]}
    if k == "ufn":
        return {op[3] if op[3] is not None else op[2]}
    if k in ("sum", "agg", "aggf"):
        return set()
    if k == "abscurv":
        return {"ds", "abs_curv"}          # the two built-in names the helper is documented to use
    if k == "estspeed":
        return {"speed"}
    if k == "seg":
        return {op[2]}
    if k == "conv":
        return {op[3] if op[3] is not None else op[1]}
    if k in ("fft", "apply", "shiftc"):
        return {op[3] if op[3] is not None else op[1 if k == "fft" else 2 if k == "apply" else 1]}
    if k == "rev":
        return {op[2] if op[2] is not None else op[1]}
    if k == "expr":
        lhs, _ = parse_expr(op[1])
        return {lhs} if lhs is not None else set()
    raise ValueError(k)


FFT_KERNELS = {1: [2.0], 3: [1.0, 2.0, 1.0]}


def oracle_conv(a, b):
    """|circular cross-correlation|, by the definition (no FFT)"""
    n = len(a)
    return [abs(sum(a[(j + k) % n] * b[j] for j in range(n))) for k in range(n)]


def oracle_fft_filter(g, klen):
    """Filter_FFT with a list kernel, by the definition (no FFT): correlate, flip, roll by D"""
    n = len(g)
    ker = FFT_KERNELS[klen]
    tot = sum(ker)
    h = [v / tot for v in ker] + [0.0] * (n - klen)
    r = [sum(h[(j + k) % n] * g[j] for j in range(n)) for k in range(n)]
    f = r[::-1]
    D = klen // 2
    return [f[(i - D) % n] for i in range(n)]


def expected(tab, op):
    try:
        return expected_(tab, op)
    except Exc:
        return None


def expected_(tab, op):
    """What a *successful* call must have done, computed directly from the documentation's meaning of the
    call on the name -> column table. Returns None when the oracle has no expectation (unknown input name,
    write to something that is not a feature ...), else a dict with
      cols: {name: column} to write, drop: names to delete, coord: {X|Y|Z: column}, ret: expected return value
    ('-' = not checked)."""
    n = tab.n
    k = op[0]
    e = {"cols": {}, "drop": set(), "coord": {}, "ret": "-", "scaled": False}
    if n == 0:
        return None                        # no observation: nothing can be written
    if k == "list":
        # list form of operate: for a void family one call per position, in order (documented: "arg2 = F(arg1)" for lists of
        # names); for a value-returning operator the list form raises (TypeError): no expectation, nothing may change
        if op[1][0][0] in LIST_REFUSED:
            return None
        t2 = tab.clone()
        for sub in op[1]:
            es = expected_(t2, sub)
            if es is None:
                return None
            for nm, c in es["cols"].items():
                t2.cols[nm] = c
                e["cols"][nm] = c
        return e
    if k in ("create", "setitem") and op[1] in RESERVED:
        return None
    if k in ("conv", "fft", "apply", "shiftc"):
        out = list(op_targets(op))[0]
        if out in RESERVED:
            return None

        def rd2(name):
            if name == out and out not in tab.cols:
                return [0.0] * n
            return tab.read(name)
        if k == "conv":
            a, b = rd2(op[1]), rd2(op[2])
            if a is None or b is None:
                return None
            c = oracle_conv(a, b) if finite(a) and finite(b) else [NAN] * n
            e["scaled"] = True
        elif k == "fft":
            a = rd2(op[1])
            if a is None or op[2] > n:
                return None
            c = oracle_fft_filter(a, op[2]) if finite(a) else [NAN] * n
            e["scaled"] = True
        elif k == "apply":
            a = rd2(op[2])
            if a is None:
                return None
            c = [v * v for v in a] if op[1] == "square" else [-v for v in a]
        else:
            a = rd2(op[1])
            if a is None:
                return None
            c = [a[(i - op[2]) % n] for i in range(n)]
        e["cols"][out] = c
        e["ret"] = ("c", c)
        return e
    if k == "rev":
        out = list(op_targets(op))[0]
        a = tab.read(op[1])
        if a is None or out in RESERVED:
            return None
        e["cols"][out] = a[::-1]
        return e
    if k == "agg":
        a = tab.read(op[2])
        if a is None:
            return None
        kind = op[1]
        if kind == "min":
            m = math.inf                   # start value float('inf') (fix 68863c7)
            for v in a:
                if v < m:
                    m = v
            e["ret"] = ("n", m)
        elif kind == "argmax":
            m, im = -math.inf, 0
            for i, v in enumerate(a):
                if v > m:
                    m, im = v, i
            e["ret"] = ("n", float(im))
        elif kind == "zeros":
            e["ret"] = ("c", [float(i) for i, v in enumerate(a) if abs(v) == 0])
        elif kind == "median":
            if finite(a):
                srt = sorted(a)
                e["ret"] = ("n", srt[n // 2] if n % 2 else 0.5 * (srt[n // 2 - 1] + srt[n // 2]))
        elif kind == "len":
            e["ret"] = ("n", float(n))
        elif kind == "equal":
            b = tab.read(op[3])
            if b is None:
                return None
            eq = all((is_nan(p) and is_nan(q)) or p == q for p, q in zip(a, b))
            e["ret"] = ("n", 1.0 if eq else 0.0)
        return e
    if k == "create":
        if op[1] in tab.cols:
            return e                       # creating an existing feature writes nothing
        c = init_col(n, op[2], op[3])
        if c is None:
            return None
        e["cols"][op[1]] = c
        return e
    if k == "update":
        if op[1] not in tab.cols:
            return None
        c = init_col(n, op[2], op[3])
        if c is None:
            return None
        e["cols"][op[1]] = c
        return e
    if k == "setitem":
        c = init_col(n, op[2], op[3])
        if c is None:
            return None
        e["cols"][op[1]] = c
        return e
    if k == "remove":
        if op[1] not in tab.cols:
            return None
        e["drop"].add(op[1])
        return e
    if k == "setobs":
        name, i, v = op[1], op[2], fv(op[3])
        if i >= n:
            return None
        if name in ("x", "y", "z"):
            c = tab.read(name)
            c[i] = v
            e["coord"][name.upper()] = c
            return e
        if name not in tab.cols:
            return None
        c = list(tab.cols[name])
        c[i] = v
        e["cols"][name] = c
        return e
    if k == "addaf":
        name, alg = op[1], op[2]
        if name in RESERVED:
            return None
        cur = tab.read(name) if name in tab.cols else [0.0] * n      # read(): no expectation on a column holding a complex / an object
        if alg[0] == "const":
            c = [fv(alg[1])] * n
        elif alg[0] == "affine":
            c = [i * fv(alg[1]) + fv(alg[2]) for i in range(n)]
        elif alg[0] == "nextx":
            c = [(tab.X[i + 1] - tab.X[i]) if i + 1 < n else NAN for i in range(n)]
        elif alg[0] == "feat":
            src = cur if alg[1] == name else tab.read(alg[1])
            if src is None:
                return None
            c = [src[i] + fv(alg[2]) for i in range(n)]
        else:
            raise ValueError(alg)
        e["cols"][name] = c
        e["ret"] = ("c", c)
        return e
    if k == "aggf":
        a = tab.read(op[2])
        if a is None:
            return None
        e["ret"] = ("n", fn_agg(op[1], a))
        return e
    if k in ("sk", "ufn"):
        out = list(op_targets(op))[0]
        if out in RESERVED:
            return None
        a = [0.0] * n if (op[2] == out and out not in tab.cols and not (k == "ufn" and op[1] == "LOG")) else tab.read(op[2])
        if a is None:
            return None
        if k == "ufn":
            c = fn_void(op[1], a)
            e["ret"] = "-" if op[1] == "LOG" else ("c", c)      # Log.execute returns nothing
        else:
            kv = fv(op[3])
            if op[1] == "div":
                if kv == 0:
                    raise Exc()
                c = [_num(lambda p: p / kv)(p) for p in a]             # a single division (fixes 5676890 / 2dd86ce)
            elif op[1] == "rdiv":
                c = [_num(lambda p: kv / p)(p) for p in a]
            else:
                c = shift_col(a, kv if op[1] == "shift" else -kv)
            e["ret"] = ("c", c)
        e["cols"][out] = c
        return e
    if k == "seg":
        inp, out, thr = op[1], op[2], fv(op[3])
        if out in RESERVED:
            return None
        if inp == out:
            return None                    # the marker overwrites its own input while it is read: no expectation on values
        a = tab.read(inp)
        if a is None:
            return None
        e["cols"][out] = [0.0 if (v != v or v <= thr) else 1.0 for v in a]
        return e
    if k == "abscurv":
        if n == 0:
            return None
        if "ds" in tab.cols or "abs_curv" in tab.cols:
            return None                    # a feature with a built-in name exists: the helper reuses it, no expectation
        if not finite(tab.X) or not finite(tab.Y):
            return None
        c = [0.0] * n
        for i in range(1, n):
            c[i] = c[i - 1] + math.hypot(tab.X[i] - tab.X[i - 1], tab.Y[i] - tab.Y[i - 1])
        e["cols"]["abs_curv"] = c
        e["ret"] = ("c", c)
        return e
    if k == "estspeed":
        if n == 0:
            return None
        if "speed" in tab.cols:
            e["ret"] = ("c", tab.read("speed"))
            return e
        if not finite(tab.X) or not finite(tab.Y):
            return None

        def sp(i, j):
            dt = tab.T[i] - tab.T[j]
            return NAN if dt == 0 else math.hypot(tab.X[i] - tab.X[j], tab.Y[i] - tab.Y[j]) / dt
        if n == 1:
            c = [NAN]
        else:
            c = [sp(1, 0)] + [sp(i + 1, i - 1) for i in range(1, n - 1)] + [sp(n - 1, n - 2)]
        e["cols"]["speed"] = c
        e["ret"] = ("c", c)
        return e
    if k in ("uvoid", "bvoid", "svoid"):
        out = list(op_targets(op))[0]
        if out in RESERVED:
            return None

        def rd(name):
            if name == out and out not in tab.cols:
                return [0.0] * n           # the output is created (0.0) before the inputs are read
            return tab.read(name)
        if k == "uvoid":
            a = rd(op[2])
            if a is None:
                return None
            if op[1] == "int":
                c = [0.0] * n
                for i in range(1, n):
                    c[i] = c[i - 1] + a[i]
            else:
                c = [NAN] + [a[i] - a[i - 1] for i in range(1, n)]
        elif k == "bvoid":
            a, b = rd(op[2]), rd(op[3])
            if a is None or b is None:
                return None
            c = [BOPS[op[1]](p, q) for p, q in zip(a, b)]
        else:
            a = rd(op[2])
            if a is None:
                return None
            c = [SOPS[op[1]](p, fv(op[3])) for p in a]
        e["cols"][out] = c
        e["ret"] = ("c", c)
        return e
    if k == "sum":
        a = tab.read(op[1])
        if a is None:
            return None
        s = 0.0
        for v in a:
            if not is_nan(v):
                s += v
        e["ret"] = ("n", s)
        return e
    if k == "expr":
        lhs, ast = parse_expr(op[1])
        if any(nm.startswith("#") for nm in expr_names(op[1])):
            return None                    # '#' names belong to the evaluator
        if any(t in tab.cols for t in ast_nums(ast)):
            return None                    # a feature whose name is a number: the language is ambiguous there
        if any(nm.startswith("#") for nm in tab.cols) and "{" in op[1]:
            return None                    # a user feature named like a temporary: createAnalyticalFeature('#k', [value]*n) finds it and keeps its values
        v = eval_ast(tab, ast)
        if v is None:
            return None
        col = v[1] if v[0] == "c" else [v[1]] * n
        e["drop"] = {nm for nm in tab.cols if nm.startswith("#")}
        if lhs is None:
            e["ret"] = ("c", col)
            return e
        if lhs in ("x", "y", "z"):
            e["coord"][lhs.upper()] = col    # a number is written at every observation (fix 144a468)
            return e
        if lhs in RESERVED:
            return None
        if lhs.isdigit():
            return None
        e["cols"][lhs] = col
        return e
    raise ValueError(k)


def sim_names(case):
    """rough replay of the listed names (for tagging only): list of (op index, names before, names after)"""
    names, out = [], []
    for op in case["ops"]:
        before = list(names)
        k = op[0]
        tg = [t for t in op_targets(op) if t not in RESERVED]
        if k == "remove":
            names = [x for x in names if x != op[1]]
        elif k == "abscurv":
            names = [x for x in names if x != "ds"] + ([] if "abs_curv" in names else ["abs_curv"])
        elif k in ("create", "setitem", "addaf", "uvoid", "bvoid", "svoid", "conv", "fft", "apply", "shiftc", "rev", "sk", "ufn", "seg", "estspeed", "list"):
            for t in tg:
                if t not in names:
                    names.append(t)
        elif k == "expr":
            for t in tg:
                names = [x for x in names if x != t] + [t]
            names = [x for x in names if not x.startswith("#")]
        out.append((before, list(names)))
    return out


class P(Prop):
    id = "C01"
    design_ref = "DESIGN.md section 5, C01"
    theorems = [
        ("TracklibVerif.Props.C01", "TV.C01.inv_fresh", "a fresh track is aligned"),
        ("TracklibVerif.Props.C01", "TV.C01.inv_step", "every API call (returning or raising) keeps the table aligned: one value per listed name in every observation, distinct names, dict = enumeration of the names"),
        ("TracklibVerif.Props.C01", "TV.C01.step_refines", "on an aligned table every API call does exactly what it does on the name -> column specification table (same outcome, corresponding tables)"),
        ("TracklibVerif.Props.C01", "TV.C01.history_aligned", "every state along every finite history is aligned"),
        ("TracklibVerif.Props.C01", "TV.C01.history_refines", "along every finite history outcomes equal the specification's and the tables correspond after every call"),
        ("TracklibVerif.Props.C01", "TV.C01.run_refines", "the final state of every finite history is aligned and corresponds to the specification's"),
        ("TracklibVerif.Props.C01", "TV.C01.aligned_reads", "on an aligned table every row has one value per listed name, names are distinct, every listed name reads as a full column"),
        ("TracklibVerif.Props.C01", "TV.C01.read_after_create", "create of a new name returns; the name reads as the initial values (scalar broadcast / list); every other name reads as before"),
        ("TracklibVerif.Props.C01", "TV.C01.create_existing_noop", "creating an already listed name changes nothing"),
        ("TracklibVerif.Props.C01", "TV.C01.read_after_update", "update of a listed name returns; the name reads as the new values; every other name reads as before"),
        ("TracklibVerif.Props.C01", "TV.C01.read_after_setObs", "writing one cell changes that cell only"),
        ("TracklibVerif.Props.C01", "TV.C01.read_after_remove", "deleting a listed feature (any column position) unlists it and leaves what is read under every other name unchanged"),
        ("TracklibVerif.Props.C01", "TV.C01.prims_keep_coords", "create/update/remove/setObs on a feature name never touch X, Y, Z, T"),
        ("TracklibVerif.Props.C01", "TV.C01.step_frame", "no side effects: for every API call (operators, operate(str) on any RPN; returning or raising) a name it does not designate - feature, x, y, z, t or idx - reads as before and stays listed/unlisted"),
        ("TracklibVerif.Props.C01", "TV.C01.sum_keeps_table", "the non-void aggregate SUM leaves the whole table as it was"),
        ("TracklibVerif.Props.C01", "TV.C01.binaryVoid_read_back", "when ADDER/SUBSTRACTER/MULTIPLIER returns temp, the output feature reads exactly temp (created or overwritten, even if it is also an input)"),
        ("TracklibVerif.Props.C01", "TV.C01.scalarVoid_read_back", "the same for SCALAR_ADDER/SCALAR_SUBSTRACTER/SCALAR_REV_SUBSTRACTER/SCALAR_MULTIPLIER"),
        ("TracklibVerif.Props.C01", "TV.C01.unaryVoid_read_back", "the same for INTEGRATOR/DIFFERENTIATOR"),
        ("TracklibVerif.Props.C01", "TV.C01.no_temporaries", "after operate(str) no listed name starts with '#', for every table and token list (the empty string as a name included), whether evaluation returned or raised (an operator failing mid-way included)"),
        ("TracklibVerif.Props.C01", "TV.C01.short_list_refused", "createAnalyticalFeature(new name, list shorter than the track) raises IndexError and leaves the track exactly as it was"),
        ("TracklibVerif.Props.C01", "TV.C01.evaluate_no_new_name", "a name that is not listed, not a token of the expression and not a '#' name is not listed after the evaluation either"),
        ("TracklibVerif.Props.C01", "TV.C01.applyVoid_read_back", "when an APPLY-based operator (RECTIFIER SQRT DIODE SIGN EXP COS SIN TAN INVERSER ..., any cell function, which may raise mid-way) returns temp, the output feature reads exactly temp"),
        ("TracklibVerif.Props.C01", "TV.C01.scalarKind_read_back", "the same for SCALAR_DIVIDER, SCALAR_REV_DIVIDER (single divisions in the create / loop / addListToAF form, fixes 5676890 / 2dd86ce), SHIFT_CIRCULAR(_REV) and the twelve plain scalar operators"),
        ("TracklibVerif.Props.C01", "TV.C01.agg_keeps_table", "the value-returning aggregates SUM AVG MIN MAX ARGMIN ARGMAX leave the whole table as it was, returning or raising"),
        ("TracklibVerif.Props.C01", "TV.C01.cell_read_agrees", "every read path returns the same values: for ANY name (feature called X, E, N, the empty string ..., coordinate, t, idx) getObsAnalyticalFeature(m, i) is the i-th element of getAnalyticalFeature(m) and changes nothing"),
        ("TracklibVerif.Props.C01", "TV.C01.carried_table_aligned", "a track handed a table with distinct names and full columns (copy, extract, slice, +) is aligned and carries exactly that table: all theorems apply to histories starting from it"),
        ("TracklibVerif.Props.C01World", "TV.C01.heap_step_refines", "on a heap of Obs objects (tracks hold references; every loop of the API acts on the object found at each position, one after the other): for a track of pairwise distinct objects showing an aligned table every API call does exactly what it does on that table (same outcome, the track shows the resulting table), the track stays such a track, no object is added or dropped and every object outside the track is left as it was"),
        ("TracklibVerif.Props.C01World", "TV.C01.heap_step_spec", "the same against the name -> column specification: all theorems above hold for tracks living on a heap"),
        ("TracklibVerif.Props.C01World", "TV.C01.heap_history_refines", "along every finite history on such a track outcomes and shown tables are those of the history on the one-track table; every state is again such a track"),
        ("TracklibVerif.Props.C01World", "TV.C01.heap_history_frame", "a history of API calls touches no object outside the track it is addressed to"),
        ("TracklibVerif.Props.C01World", "TV.C01.other_track_unchanged", "a track that shares no object with the track a history is run on shows exactly the same table afterwards (names, every column and row, coordinates, timestamps), whatever the calls and their outcomes"),
        ("TracklibVerif.Props.C01World", "TV.C01.copies_are_fresh", "[o.copy() for o in positions of a track] (Obs.copy() = deepcopy: extractSpanTime) makes new objects, one per position: the track made of them has pairwise distinct objects none of which belongs to an existing track, shows the rows / coordinates copied under the transmitted dict, is aligned; old objects untouched"),
        ("TracklibVerif.Props.C01World", "TV.C01.span_track_independent", "the piece (extractSpanTime) and its parent are independent: any history on the piece leaves the table the parent shows as it was, any history on the parent leaves the table the piece shows as it was"),
        ("TracklibVerif.Props.C01World", "TV.C01.ring_track_good", "t.loop(add=True) / t.addObs(t[i].copy()) / t.insertObs(t[i].copy(), p): the track is again a track of pairwise distinct objects, one observation longer, aligned, showing the old table with row i repeated at p - every theorem about histories applies to the ring"),
        ("TracklibVerif.Props.C01World", "TV.C01.derive_span_is_copies", "the model of extractSpanTime (Sys.derive) builds its new track by copyEach over positions of the source with the source's dict (ties the driver's derivation to copies_are_fresh / span_track_independent)"),
        ("TracklibVerif.Props.C01World", "TV.C01.derive_addCopy_is_insert", "the model of addObs / insertObs of an Obs.copy() inserts the object allocCopy made with pyInsert (ties the driver's derivation to ring_track_good)"),
        ("TracklibVerif.Props.C01World", "TV.C01.derive_loopAdd_is_addCopy", "loop(add=True) is addObs(self[0].copy())"),
        ("TracklibVerif.Props.C01Call", "TV.C01.call_refines", "every call of the API in any form - single, list form of a void operator family (operate(op, [in..], .., [out..]): one execute per position, stopped by the first exception or not), refused list form of a value-returning operator - keeps the table aligned and does exactly what it does on the name -> column specification"),
        ("TracklibVerif.Props.C01Call", "TV.C01.heap_call_refines", "the same on a heap of Obs objects for a track of pairwise distinct objects; objects outside the track untouched"),
        ("TracklibVerif.Props.C01Call", "TV.C01.call_frame", "no side effects for a call in any form, returning or raising: a name none of its positions designates reads as before and stays listed / unlisted"),
        ("TracklibVerif.Props.C01Call", "TV.C01.list_form_is_history", "the list form is the history of its single calls cut after the first one that raises: same state, returns nothing when all return, else raises what that call raises"),
        ("TracklibVerif.Props.C01Call", "TV.C01.call_keeps_listed", "nothing disappears behind the caller's back: a call in any form that is not a deleting call (remove / '#DELETE', computeAbsCurv, operate(str)) unlists nothing, returning or raising - an operator failing mid-way with an existing output feature included (what the seeded change C01-9 broke)"),
        ("TracklibVerif.Props.C01Call", "TV.C01.call_unlists_only_designated", "the deleting calls delete only what they are meant to delete (completes call_keeps_listed to every call form): on a track of >= 1 observations a call in any form, returning or raising, unlists no name but the argument of removeAnalyticalFeature / '#DELETE', 'ds' for computeAbsCurv, names starting with '#' for operate(str) (reserved words, never listed by the API, excepted) - the left-hand side of a re-assignment a=<expr> (get / remove / create) is listed afterwards"),
        ("TracklibVerif.Props.C01Call", "TV.C01.expr_unlists_only_hash", "operate(str), returning or raising: every listed name that does not start with '#' stays listed, re-assigned left-hand sides included"),
        ("TracklibVerif.Props.C01Call", "TV.C01.absCurv_unlists_only_ds", "computeAbsCurv, returning or raising: every listed name but 'ds' stays listed (a user's abs_curv included)"),
        ("TracklibVerif.Props.C01Front", "TV.C01.createFront_is_create", "createAnalyticalFeature(name, v) hands v itself to the table primitive - the default 0.0 only when no second argument is given; name=None does nothing"),
        ("TracklibVerif.Props.C01Front", "TV.C01.createFront_reads_value", "createAnalyticalFeature(new name, v) for EVERY cell value v (any type V of values: None, bool, str, numpy scalars ... - what the seeded change C01-11 broke): the name reads v at every observation, every other name reads as before"),
        ("TracklibVerif.Props.C01Front", "TV.C01.bracket_reads_value", "track[name] = v for every value v other than '#DELETE', new name (create path) or listed name (update path) alike: the name reads exactly the values given, every other name reads as before"),
        ("TracklibVerif.Props.C01Front", "TV.C01.bracket_delete_is_remove", "track[name] = '#DELETE' is removeAnalyticalFeature(name)"),
        ("TracklibVerif.Props.C01Front", "TV.C01.fcall_refines", "a call that goes through the front ends (default argument, name=None, '#DELETE') keeps the table aligned and does what it does on the name -> column specification"),
        ("TracklibVerif.Props.C01World", "TV.C01.derive_copy_is_copies", "Track.copy() (deepcopy with its memo) of a track of pairwise distinct objects makes one new object per position, like the copies above"),
    ]
    partial = []
    open_statements = [
        "values: WHICH numbers an operator or an expression computes (a+b, a%b, running sums, NaN propagation, precedence) is not stated here - "
        "the theorems hold for every interpretation of the arithmetic (Ops: any + - * / ** % < cell functions, aggregates, any exception raised mid-way) and say "
        "where results are written and that nothing else moves; expression values are property C02's; here they are covered by the correspondence "
        "(model at Float with CPython's float_rem / float_pow / math functions) and by the oracle's direct recomputation",
        "read-back of the result of an '=' expression under its left-hand side is proved only through the refinement (the specification table runs the "
        "same stack machine), not as a closed formula: that a re-assignment `a=<expr>` leaves `a` LISTED is proved (call_unlists_only_designated), that it "
        "then reads the expression's value is not; call_unlists_only_designated needs a track of >= 1 observations (on a track emptied of its observations "
        "whose dict still lists features `a=b` removes `a` and the re-creation refuses the empty track) and, for operate(str), excepts the reserved words "
        "x y z t timestamp idx (never listed by the API - __controlName -, but the alignment invariant does not say so)",
        "assignment to 't' (timestamps replaced by floats), 'timestamp' as an operand, the FILTER operator '!' between two features, D2 and the order-statistic "
        "functions in expressions, a complex result of ** , and tables that are already misaligned are outside the model (the driver answers "
        "'unsupported' and the rest of that history is not compared)",
        "list forms of operate: modelled for the void families (one execute per position) and for the value-returning unary operators (TypeError from "
        "`range(output)` on a list, before anything is touched); NOT modelled: lists of different lengths (the `raise OperatorError` is in fact a NameError: "
        "the name is not imported in track.py - nothing is touched either way), the list form of the scalar non-void family (AGGREGATE), lists mixing None outputs",
        "tracks that SHARE Obs objects (extract / slice / + hand over the objects themselves; one object referenced at two positions of a track): the heap "
        "model (Model/FeaturesWorld.lean) runs them and the correspondence compares every track of the session, but the theorems need pairwise distinct "
        "objects within the track and, for 'the other track is unchanged', disjoint tracks - for shared objects alignment does fail (finding "
        "derived-track-shares-observations; Props/C01World.lean shows the failing states as examples)",
        "cell values of any type: the theorems are for every type V of values and every interpretation of the arithmetic, so they cover None, bool, str, "
        "numpy scalars ... as cell values; that the Python write paths really hand the object given to the table (no conversion, no sentinel: what the seeded "
        "change C01-11 broke) is checked by the correspondence at V := String (stream 'vals', calls that only move values) and by the oracle, and proved "
        "for the modelled front ends (Props/C01Front.lean); arithmetic ON non-numbers (None + 1 raises TypeError mid-way) is not run against the model - "
        "the theorems cover it as 'the cell function raises'; object values carried through copy / extract / + are not generated",
        "the copying derivations are proved at the level of the object references (Obs.copy() = a new object equal to the old one); that copy.deepcopy "
        "really copies the features list is what the seeded change C01-7 broke: it is checked by the correspondence with the heap model and by the oracle, not proved",
    ]
    modelled = ("Track.createAnalyticalFeature / updateAnalyticalFeature / removeAnalyticalFeature / getAnalyticalFeature / "
                "getObsAnalyticalFeature / setObsAnalyticalFeature / hasAnalyticalFeature / addAnalyticalFeature / __setitem__ / "
                "setX|Y|ZFromAnalyticalFeature / operate (operator objects and str, with the purge incl. af[0] on the empty name) / "
                "__applyOperation (= + - * / ^ % < > & $ @ ; '!' only its KeyError forms) / __evaluateRPN / "
                "__evaluate (on the RPN token list) of core/track.py; the list forms of operate for the void operator families and for the value-returning "
                "unary operators (Model/FeaturesCall.lean); utils.addListToAF; Integrator, Differentiator, Adder, "
                "Substracter, Multiplier, Divider, Power, Modulo, Above, Below, ScalarAdder, ScalarSubstracter, ScalarRevSubstracter, ScalarMuliplier, "
                "ScalarPower, ScalarRevPower, ScalarModulo, ScalarRevModulo, ScalarAbove, ScalarBelow, ScalarRevAbove, ScalarRevBelow, ScalarDivider, "
                "ScalarRevDivider, Inverser, ShiftCircular, ShiftCircularRev, Apply and Rectifier / Sqrt / Diode / Sign / Exp / Cos / Sin / Tan, Log, "
                "Sum, Averager, Min, Max, Argmin, Argmax, Reverser of core/operators.py; cinematics.computeAbsCurv, estimate_speed "
                "(analytics.ds, speed), segmentation.segmentation (one feature, one threshold); the table a track receives from copy / extract / slice / +; "
                "on a heap of Obs objects (Model/FeaturesWorld.lean: a track = references + dict, every primitive of the API as a loop over the objects found at the positions): "
                "Track.copy, extract, __getitem__(slice), __add__, extractSpanTime, loop(add=True), addObs / insertObs of Obs.copy(), Obs.copy; "
                "table effect only (values opaque) of Convolution, Filter_FFT, Square, Inverter, ShiftCircular (object form) and of the non-void "
                "Min, Argmax, Zeros, Median, Aggregate, Equal; "
                "the argument handling of createAnalyticalFeature (default val_init, name=None) and of __setitem__ ('#DELETE') (Model/FeaturesFront.lean), run at "
                "V := String (one token per Python object: None, bool, int, float, str, numpy scalars, complex, bytes) for the calls that only move values")
    trusted = ["operators with opaque values (CONVOLUTION, FILTER_FFT - numpy results -, SQUARE, INVERTER, SHIFT_CIRCULAR object form): the model is handed the list the "
               "implementation returned and models where it is written; the oracle recomputes the values from the operator's definition (direct sums, no FFT) "
               "and checks that every stored cell is one number",
               "the expression parser (string preprocessing + makeRPN) is property C02's: the model receives the RPN token list computed by "
               "the harness's own recursive-descent parser (operators other than + - * are always written parenthesised, so no precedence convention "
               "is involved), so a parser defect shows up here as a disagreement",
               "addAnalyticalFeature: the model writes through the name at every index (Python hoists the index lookup); the algorithms used are read-only",
               "Float instances of the arithmetic in the driver (Drv/C01.lean: exact fmod by integer arithmetic, CPython's float_rem / float_pow rules, libm functions)",
               "heap model (world sessions): in states where WHICH value a name reads depends on where the columns sit in the observations - a track that shares its "
               "observations with a derived track after calls on that track, the sum of two tracks whose listings differ only in order, a sum that starts misaligned "
               "(both inside the known-finding classes) - outcome, listed names, values per observation and coordinates are compared, not the column values",
               "stream 'vals' (model at V := String): a Python object is identified with its token - numbers by value (True = 1 = 1.0 = np.float64(1): the type of a "
               "number is not compared), NaN as one token, a str by its characters, any other object (None, complex, bytes) by type name and repr; `add sub mul` of that "
               "instance are never reached by the calls admitted there",
               "never generated: 'timestamp' as an operand, assignment to 't', '!' , NaN thresholds of segmentation, CONVOLUTION / FILTER_FFT in the same history as "
               "the operators whose Python arithmetic raises (numpy scalars stored by the former never raise)"]
    rule = ("histories of API calls on tracks of 0..5 observations, values small integers (as floats) and NaN; after EVERY call: listed names, every column, every "
            "read path (column, per observation in four forms, list forms, bracket), len(obs.features), X/Y/Z/T, outcome, returned value; after the last call each feature "
            "also read through an operator and through an expression. Streams: every history over a 33-call alphabet to depth 3 (thorough: 4) on a 2-observation track; "
            "random histories to depth 40 over a b c #0 #u (+ reserved and unknown names); 'names': pools of 3-5 names drawn from 33 special ones (coordinate aliases X Y Z E N U, "
            "capitals and near-misses of the reserved names, prefixes, digits, '#', non-ASCII, blanks, operator and separator characters, built-in names ds abs_curv speed, the "
            "empty string) used as user features through every write path; 'rich': operator objects of every family (binary / scalar / unary void incl. those whose arithmetic "
            "raises mid-way, value-returning aggregates, computeAbsCurv, estimate_speed, segmentation) and expressions with / ^ % < > >> << and function calls; 'carry': a track built "
            "by copy / extract / slice / + / extractSpanTime (bounds in either order or given as a track) / loop(add=True) / addObs or insertObs of an Obs.copy() (t[i], getObs, getFirstObs, getLastObs) "
            "from a track with 0..5 earlier calls, then a history on it, then (copy, extractSpanTime) a history on the source again, all tracks observed before and after and the whole session replayed on the heap model; 'short': a list initialiser shorter than the track in the middle of a history (refused / partial overwrite), also sprinkled in every stream; "
            "list forms of operate (1-3 positions, with / without output names, every void family; SUM / aggregates refused) sprinkled in every random stream; "
            "'vals': every history of length 2 (thorough: 3) over a 14-call alphabet and random histories to depth 25 of the calls that only MOVE values (create with / without "
            "second argument / name=None, update, bracket assignment, setObs in three forms, both deletes, a constant algorithm, REVERSER, the copy lhs=rhs) with cell values "
            "None, True/False, ints beyond 2**64, floats, NaN, inf, strings ('' '#0' 'x' '0.0' 'None' non-ASCII), numpy float64/float32/int32/bool_, complex, bytes - read back "
            "through every path and compared by VALUE (numbers: ==, so the number's type is free; other objects: type and repr); "
            "empty track. A call that raises although all its operands exist and it is well formed is a failure; a call the oracle has no expectation for "
            "(it raised, or its arithmetic is out of the oracle's scope) may have written or created its target, nothing else, and may not have unlisted it "
            "unless it is remove / '#DELETE' of that name, a '#' name under operate(str), or 'ds' under computeAbsCurv; an observation point that raises is a "
            "failure, an exception of the harness's own plumbing is a harness error; a derivation (copy / extract / + ...) that raises is not judged; "
            "non-trivial = the history deletes (remove, '#DELETE' or re-assignment by an expression) a column that is not the last one while other features are listed")

    # ---------------------------------------------------------------- setup
    def setup(self):
        from tracklib.core.obs import Obs
        from tracklib.core.obs_time import ObsTime
        from tracklib.core.obs_coords import ENUCoords
        from tracklib.core.track import Track
        from tracklib.core.operators import Operator
        self.Obs, self.ObsTime, self.ENU, self.Track, self.Operator = Obs, ObsTime, ENUCoords, Track, Operator
        self.UOPS = {"int": Operator.INTEGRATOR, "dif": Operator.DIFFERENTIATOR}
        O = Operator
        self.BOPS = {"add": O.ADDER, "sub": O.SUBSTRACTER, "mul": O.MULTIPLIER, "div": O.DIVIDER, "pow": O.POWER,
                     "mod": O.MODULO, "above": O.ABOVE, "below": O.BELOW}
        self.SOPS = {"add": O.SCALAR_ADDER, "sub": O.SCALAR_SUBSTRACTER, "rsub": O.SCALAR_REV_SUBSTRACTER,
                     "mul": O.SCALAR_MULTIPLIER, "pow": O.SCALAR_POWER, "rpow": O.SCALAR_REV_POWER,
                     "mod": O.SCALAR_MODULO, "rmod": O.SCALAR_REV_MODULO, "above": O.SCALAR_ABOVE,
                     "below": O.SCALAR_BELOW, "rabove": O.SCALAR_REV_ABOVE, "rbelow": O.SCALAR_REV_BELOW}
        self.SKOPS = {"div": O.SCALAR_DIVIDER, "rdiv": O.SCALAR_REV_DIVIDER, "shift": O.SHIFT_CIRCULAR,
                      "shiftr": O.SHIFT_CIRCULAR_REV}
        self.FNOPS = {"I": O.INTEGRATOR, "D": O.DIFFERENTIATOR, "LOG": O.LOG, "ABS": O.RECTIFIER, "SQRT": O.SQRT,
                      "DIODE": O.DIODE, "SIGN": O.SIGN, "EXP": O.EXP, "COS": O.COS, "SIN": O.SIN, "TAN": O.TAN}
        self.AGGOPS = {"SUM": O.SUM, "AVG": O.AVERAGER, "MIN": O.MIN, "MAX": O.MAX, "ARGMIN": O.ARGMIN, "ARGMAX": O.ARGMAX}
        from tracklib.algo.cinematics import computeAbsCurv, estimate_speed
        from tracklib.algo.segmentation import segmentation
        self.computeAbsCurv, self.estimate_speed, self.segmentation = computeAbsCurv, estimate_speed, segmentation

    # ---------------------------------------------------------------- generators
    ALPHABET = [
        ["create", "a", "s", 5], ["create", "a", "l", [1, 2]], ["create", "b", "s", 7], ["create", "#0", "s", 9],
        ["remove", "a", "m"], ["remove", "b", "b"], ["remove", "c", "m"],
        ["update", "a", "l", [3, 4]], ["setitem", "b", "l", [6, 8]], ["setitem", "c", "s", 2],
        ["setobs", "a", 1, -1, "m"], ["setobs", "x", 0, 99, "b"],
        ["uvoid", "dif", "a", None], ["uvoid", "int", "a", "b"],
        ["bvoid", "add", "a", "b", "c"], ["bvoid", "mul", "a", "b", None], ["svoid", "add", "a", 3, "#0"],
        ["sum", "a"],
        ["expr", "c=a+b", "m"], ["expr", "a=a*2", "m"], ["expr", "a+b", "g"], ["expr", "x=a", "m"], ["expr", "b=3", "m"],
        ["expr", "c=a*2+nosuch", "m"], ["expr", "a=b", "m"], ["expr", "c=a*2+b*3", "m"],
        ["addaf", "a", ["affine", 2, 1], "m"], ["create", "x", "s", 1],
        ["expr", "a=a", "m"], ["conv", "a", "b", "c"], ["fft", "a", 1, None], ["rev", "a", "b"],
        ["expr", "y=4", "m"],
    ]

    def exhaustive_scopes(self, tier):
        d = 4 if tier == "thorough" else 3
        dv = 3 if tier == "thorough" else 2
        return ["every history of length %d over the %d-call alphabet P.ALPHABET on a track of 2 observations (%d histories, observed after every call)"
                % (d, len(self.ALPHABET), len(self.ALPHABET) ** d),
                "every history of length %d over the %d-call alphabet P.VALPHABET (cell values None / bool / str / int / float, every write path) on a track "
                "of 2 observations (%d histories, observed after every call)" % (dv, len(self.VALPHABET), len(self.VALPHABET) ** dv)]

    NAMES = ["a", "b", "c", "#0", "#u"]
    # every name an accessor could treat specially, and names that stress the name -> column map and the protocol:
    # coordinate aliases of other methods (symmetrize: X/E, Y/N, Z/U), capitals of the virtual names, near-misses of the
    # reserved names, a name that is a prefix of another, digits, '#', non-ASCII, blanks, operator / separator
    # characters, the empty string; each is a legal feature name for createAnalyticalFeature
    SPECIAL = ["X", "Y", "Z", "T", "E", "N", "U", "A", "ab", "a1", "7", "idx2", "xx", "tt", "timestamp2", "IDX",
               "#", "#1", "a#", "\u00e9", "\u03b8v", "\u901f", " ", "a b", "a+b", "a:b", "a,b", "x ", "~a;|", "ds", "abs_curv", "speed"]
    EMPTY = ""
    pool = None          # names of the current case (None: the default small alphabet)
    rich = False         # wider operator alphabet (new operator kinds, expression operators / ^ % < > >> << F{})

    def rand_name(self, rng, out=False):
        if self.pool is not None:
            r = rng.random()
            if r < 0.88:
                return rng.choice(self.pool)
            if r < 0.95:
                return rng.choice(["x", "y", "z", "idx"] if not out else ["x", "y", "z", "t", "timestamp", "idx"])
            return "zz"
        r = rng.random()
        if r < 0.86:
            return rng.choice(self.NAMES[:3] if rng.random() < 0.75 else self.NAMES)
        if r < 0.94:
            return rng.choice(["x", "y", "z", "idx"] if not out else ["x", "y", "z", "t", "timestamp", "idx"])
        return "zz"

    def rand_in(self, rng):
        if self.pool is not None:
            r = rng.random()
            if r < 0.82:
                return rng.choice(self.pool)
            if r < 0.95:
                return rng.choice(["x", "y", "z", "t", "idx"])
            return "zz"
        r = rng.random()
        if r < 0.8:
            return rng.choice(self.NAMES[:3] if rng.random() < 0.8 else self.NAMES)
        if r < 0.95:
            return rng.choice(["x", "y", "z", "t", "idx"])
        return "zz"

    def rand_val(self, rng):
        return "nan" if rng.random() < 0.06 else rng.randrange(-9, 10)

    def rand_init(self, rng, n):
        if rng.random() < 0.5:
            return ["s", self.rand_val(rng)]
        extra = rng.choice([0, 0, 0, 1]) if (n == 0 or rng.random() < 0.95) else -rng.randrange(1, n + 1)   # sometimes too short
        return ["l", [self.rand_val(rng) for _ in range(n + extra)]]

    def expr_pool(self):
        if self.pool is None:
            return ["a", "b", "c"]
        l = [x for x in self.pool if expr_safe(x) and not x.startswith("#")]
        return l or ["a"]

    def rand_expr(self, rng):
        names = self.expr_pool()

        def operand():
            r = rng.random()
            if r < 0.62:
                return rng.choice(names)
            if r < 0.77:
                return str(rng.randrange(0, 5))
            if r < 0.95:
                return rng.choice(["x", "y", "z", "t", "idx"])
            return "nosuch"

        def rich_atom(depth=0):
            """a parenthesised use of one of the operators / ^ % < > >> << or a function call"""
            r = rng.random()
            if r < 0.30:
                return "(" + operand() + rng.choice(["/", "/", "%", "^", "<", ">"]) + operand() + ")"
            if r < 0.42:
                return "(" + rng.choice(names + ["x", "idx"]) + rng.choice([">>", "<<"]) + str(rng.randrange(0, 4)) + ")"
            if r < 0.50:
                return "(" + operand() + rng.choice([">>", "<<"]) + operand() + ")"
            inner = operand() if (depth > 0 or rng.random() < 0.6) else term(depth + 1)
            if r < 0.85:
                return rng.choice(VOID_FN[:8] if rng.random() < 0.9 else VOID_FN) + "{" + inner + "}"
            if r < 0.97:
                return rng.choice(AGG_FN) + "{" + inner + "}"
            return rng.choice(["D2", "MEDIAN", "NOFN"]) + "{" + inner + "}"

        def factor(depth=0):
            if self.rich and rng.random() < 0.38:
                return rich_atom(depth)
            return operand()

        def term(depth=0):
            r = rng.random()
            if r < 0.55:
                return factor(depth)
            if r < 0.85:
                return factor(depth) + rng.choice("**/" if self.rich else "*") + factor(depth)
            return "(" + factor(depth) + rng.choice("+-") + factor(depth) + ")*" + factor(depth)
        if rng.random() < 0.08:
            nm = rng.choice(names + ["x", "y", "z"])
            return nm + "=" + rng.choice([nm, nm + "+0", nm + "*1", "0+" + nm, "(" + nm + ")"])
        if rng.random() < 0.04:
            # a coordinate (or a feature) assigned a right-hand side that folds to a number
            k = str(rng.randrange(0, 5))
            return rng.choice(["x", "y", "z", "x", "y", "z", names[0], "t"]) + "=" + rng.choice([k, k + "+2", "2*" + k, "(" + k + "-1)*3"])
        k = rng.choice([1, 1, 2, 2, 3])
        s = term()
        for _ in range(k - 1):
            s += rng.choice("+-") + term()
        r = rng.random()
        if r < 0.7:
            lhs = rng.choice(names)
        elif r < 0.8:
            lhs = rng.choice(["x", "y", "z", "idx"])
        else:
            return s
        return lhs + "=" + s

    BKINDS = ["add", "sub", "mul"]
    BKINDS_RICH = ["add", "sub", "mul", "div", "pow", "mod", "above", "below"]
    SKINDS = ["add", "sub", "rsub", "mul"]
    SKINDS_RICH = ["add", "sub", "rsub", "mul", "pow", "rpow", "mod", "rmod", "above", "below", "rabove", "rbelow"]

    def rand_list_op(self, rng, n):
        """a list form of operate: lists of input / output names, one operator"""
        m = rng.choice([1, 2, 2, 3])
        fam = rng.choice(["uvoid", "bvoid", "svoid", "ufn", "sk", "sum", "aggf"] if self.rich else ["uvoid", "bvoid", "svoid", "sum"])
        with_out = rng.random() < 0.6
        out = (lambda: self.rand_name(rng, True)) if with_out else (lambda: None)
        if fam == "uvoid":
            kind = rng.choice(["int", "dif"])
            subs = [["uvoid", kind, self.rand_in(rng), out()] for _ in range(m)]
        elif fam == "bvoid":
            kind = rng.choice(self.BKINDS_RICH if self.rich else self.BKINDS)
            subs = [["bvoid", kind, self.rand_in(rng), self.rand_in(rng), out()] for _ in range(m)]
        elif fam == "svoid":
            kind, v = rng.choice(self.SKINDS_RICH if self.rich else self.SKINDS), self.rand_val(rng)
            subs = [["svoid", kind, self.rand_in(rng), v, out()] for _ in range(m)]
        elif fam == "ufn":
            f = rng.choice(VOID_FN)
            subs = [["ufn", f, self.rand_in(rng), out()] for _ in range(m)]
        elif fam == "sk":
            kind, v = rng.choice(["div", "rdiv", "shift", "shiftr"]), self.rand_val(rng)
            subs = [["sk", kind, self.rand_in(rng), v, out()] for _ in range(m)]
        elif fam == "sum":
            subs = [["sum", self.rand_in(rng)] for _ in range(m)]
        else:
            f = rng.choice(AGG_FN)
            subs = [["aggf", f, self.rand_in(rng)] for _ in range(m)]
        return ["list", subs]

    def rand_op(self, rng, n):
        if rng.random() < 0.035:
            return self.rand_list_op(rng, n)
        r = rng.random()
        if self.rich and r < 0.30:
            # the wider alphabet: operator objects of every family, helpers that create features
            q = rng.random()
            out = rng.choice([None, self.rand_name(rng, True), self.rand_name(rng, True)])
            if q < 0.22:
                return ["bvoid", rng.choice(self.BKINDS_RICH[3:]), self.rand_in(rng), self.rand_in(rng), out]
            if q < 0.44:
                return ["svoid", rng.choice(self.SKINDS_RICH[4:]), self.rand_in(rng), self.rand_val(rng), out]
            if q < 0.58:
                v = self.rand_val(rng) if rng.random() < 0.8 else rng.choice([0, 0.5, -1.5])
                return ["sk", rng.choice(["div", "rdiv", "shift", "shiftr"]), self.rand_in(rng), v, out]
            if q < 0.78:
                return ["ufn", rng.choice(VOID_FN), self.rand_in(rng), out]
            if q < 0.86:
                return ["aggf", rng.choice(AGG_FN), self.rand_in(rng)]
            if q < 0.91:
                return ["abscurv"]
            if q < 0.95:
                return ["estspeed", rng.choice("mf")]
            return ["seg", self.rand_in(rng), self.rand_name(rng, True), rng.randrange(-5, 6)]
        r = rng.random()
        if r < 0.16:
            return ["create", self.rand_name(rng, True)] + self.rand_init(rng, n)
        if r < 0.23:
            return ["update", self.rand_name(rng, True)] + self.rand_init(rng, n)
        if r < 0.33:
            return ["setitem", self.rand_name(rng, True)] + self.rand_init(rng, n)
        if r < 0.47:
            return ["remove", self.rand_name(rng, True), rng.choice("mb")]
        if r < 0.55:
            i = rng.randrange(0, n) if (n > 0 and rng.random() < 0.93) else n
            return ["setobs", self.rand_name(rng, True), i, self.rand_val(rng), rng.choice("mbr")]
        if r < 0.61:
            alg = rng.choice([["const", self.rand_val(rng)], ["affine", rng.randrange(-3, 4), rng.randrange(-3, 4)],
                              ["nextx"], ["feat", self.rand_in(rng), rng.randrange(-3, 4)]])
            name = self.rand_name(rng, True)
            return ["addaf", name, alg, "m" if name in ("x", "y", "z") else rng.choice("mb")]
        if r < 0.67:
            return ["uvoid", rng.choice(["int", "dif"]), self.rand_in(rng), rng.choice([None, self.rand_name(rng, True)])]
        if r < 0.74:
            return ["bvoid", rng.choice(self.BKINDS), self.rand_in(rng), self.rand_in(rng),
                    rng.choice([None, self.rand_name(rng, True), self.rand_name(rng, True)])]
        if r < 0.80:
            return ["svoid", rng.choice(self.SKINDS), self.rand_in(rng), self.rand_val(rng),
                    rng.choice([None, self.rand_name(rng, True), self.rand_name(rng, True)])]
        if r < 0.82:
            return ["sum", self.rand_in(rng)]
        if r < 0.875 and n > 0:
            q = rng.random()
            if self.rich:
                q = 0.45 + 0.55 * q        # CONVOLUTION / FILTER_FFT store numpy scalars, whose / ** % never raise: kept apart from the operators that do
            out = rng.choice([None, self.rand_name(rng, True), self.rand_name(rng, True)])
            if q < 0.25:
                return ["conv", self.rand_in(rng), self.rand_in(rng), out]
            if q < 0.45:
                return ["fft", self.rand_in(rng), 3 if (n >= 3 and rng.random() < 0.6) else 1, out]
            if q < 0.6:
                return ["apply", rng.choice(["square", "neg"]), self.rand_in(rng), out]
            if q < 0.7:
                return ["shiftc", self.rand_in(rng), rng.randrange(-2, 4), out]
            if q < 0.82:
                return ["rev", self.rand_in(rng), out]
            kind = rng.choice(["min", "argmax", "zeros", "median", "len", "equal"])
            if kind == "equal":
                return ["agg", kind, self.rand_in(rng), self.rand_in(rng)]
            return ["agg", kind, self.rand_in(rng)]
        s = self.rand_expr(rng)
        # track["…"] is routed to operate() only when the string contains one of + - / * ^ > < ( ) = ' {
        return ["expr", s, rng.choice("mmg") if any(ch in s for ch in "+-/*^><()={") else "m"]

    def rand_pool(self, rng):
        """the names of one history: two or three ordinary ones and two or three special ones, so that they collide"""
        k = rng.choice([2, 2, 3])
        sp = rng.sample(self.SPECIAL, k)
        if rng.random() < 0.07:
            sp[0] = self.EMPTY
        return rng.sample(["a", "b", "c"], rng.choice([1, 2])) + sp + (["#0"] if rng.random() < 0.15 else [])

    def gen_history(self, rng, n, depth, pool, rich):
        self.pool, self.rich = pool, rich
        try:
            return [self.rand_op(rng, n) for _ in range(depth)]
        finally:
            self.pool, self.rich = None, False

    # ---- the "vals" stream: histories of the calls that only MOVE values (create / update / bracket assignment / setObs / delete /
    # a constant algorithm / REVERSER / the copy `lhs=rhs`), the values being arbitrary Python objects (VAL_POOL)
    VNAMES = ["a", "b", "c", "d"]
    VALPHABET = [
        ["create", "a", "s", ["none"]], ["create", "b", "s", ["str", "s"]], ["create", "a", "d"], ["create", "c", "l", [["none"], ["bool", True]]],
        ["setitem", "a", "s", ["none"]], ["setitem", "b", "s", ["float", "0.1"]], ["setitem", "b", "l", [["int", "3"], ["none"]]],
        ["update", "a", "s", ["bool", False]], ["remove", "a", "m"], ["remove", "b", "b"],
        ["setobs", "a", 1, ["none"], "b"], ["addaf", "c", ["none"], "m"], ["rev", "b", None], ["expr", "c=a", "m"],
    ]

    def rand_vval(self, rng):
        return rng.choice(VAL_POOL)

    def rand_varg(self, rng, n):
        if rng.random() < 0.55:
            return ["s", self.rand_vval(rng)]
        extra = rng.choice([0, 0, 0, 1]) if (n == 0 or rng.random() < 0.93) else -rng.randrange(1, n + 1)   # sometimes too short
        return ["l", [self.rand_vval(rng) for _ in range(n + extra)]]

    def rand_vop(self, rng, n):
        def name(special=True):
            r = rng.random()
            if r < 0.9 or not special:
                return rng.choice(self.VNAMES if r < 0.8 else ["a", "zz"])
            return rng.choice(["x", "idx", "t", "timestamp"])
        r = rng.random()
        if r < 0.22:
            nm = None if rng.random() < 0.03 else name()
            if rng.random() < 0.1:
                return ["create", nm, "d"]
            return ["create", nm] + self.rand_varg(rng, n)
        if r < 0.42:
            return ["setitem", name()] + self.rand_varg(rng, n)
        if r < 0.53:
            return ["update", name()] + self.rand_varg(rng, n)
        if r < 0.65:
            return ["remove", name(), rng.choice("mb")]
        if r < 0.77:
            i = rng.randrange(0, n) if (n > 0 and rng.random() < 0.93) else n
            return ["setobs", name(False), i, self.rand_vval(rng), rng.choice("mbr")]
        if r < 0.84:
            return ["addaf", name(False), self.rand_vval(rng), rng.choice("mb")]
        if r < 0.91:
            return ["rev", name(False), rng.choice([None, None] + self.VNAMES)]
        lhs = rng.choice(self.VNAMES)
        rhs = rng.choice(self.VNAMES + self.VNAMES + [lhs, "3", "nosuch"])
        return ["expr", lhs + "=" + rhs, rng.choice("mmg")]

    def gen_vals(self, rng, n, depth):
        return {"kind": "vals", "n": n, "ops": [self.rand_vop(rng, n) for _ in range(depth)]}

    def cases(self, rng, tier):
        out = []
        A = self.ALPHABET
        d = 4 if tier == "thorough" else 3

        def rec(prefix, k):
            if k == 0:
                out.append({"kind": "exh", "n": 2, "ops": prefix})
                return
            for op in A:
                rec(prefix + [op], k - 1)
        rec([], d)
        q = tier == "quick"
        for _ in range(2500 if q else 30000):
            n = rng.choice([1, 2, 2, 3, 3, 4])
            depth = rng.choice([3, 6, 10, 20, 40])
            out.append({"kind": "rand", "n": n, "ops": self.gen_history(rng, n, depth, None, False)})
        # every special name as a user feature: all write paths and all read paths under it
        for _ in range(3500 if q else 20000):
            n = rng.choice([1, 2, 2, 3, 3, 4])
            depth = rng.choice([2, 4, 8, 14, 25])
            pool = self.rand_pool(rng)
            out.append({"kind": "names", "n": n, "pool": pool, "ops": self.gen_history(rng, n, depth, pool, rng.random() < 0.4)})
        # the wider operator alphabet on ordinary names (operators that raise mid-way included)
        for _ in range(3500 if q else 20000):
            n = rng.choice([1, 2, 2, 3, 3, 4, 5])
            depth = rng.choice([2, 4, 8, 14, 25])
            out.append({"kind": "rich", "n": n, "pool": ["a", "b", "c"], "ops": self.gen_history(rng, n, depth, ["a", "b", "c"], True)})
        # tracks that receive their table from another track: copy(), extract, slice, +
        for _ in range(1400 if q else 8000):
            out.append(self.gen_carry(rng))
        # a list initialiser shorter than the track in the middle of a history: refused (IndexError) before anything is
        # written when the name is new (fix 2976f2b), a partial overwrite of an existing feature otherwise
        for _ in range(300 if q else 3000):
            n = rng.choice([2, 3, 4])
            ops = self.gen_history(rng, n, rng.choice([0, 2, 5]), None, False)
            short = [self.rand_val(rng) for _ in range(rng.randrange(0, n))]
            ops.append([rng.choice(["create", "update", "setitem"]), rng.choice(["a", "b", "c"]), "l", short])
            ops += self.gen_history(rng, n, rng.choice([1, 3]), None, False)
            out.append({"kind": "short", "n": n, "ops": ops})
        # cell values that are arbitrary Python objects (None, bool, str, numpy scalars, big ints ...): every history of length 2
        # (thorough: 3) over P.VALPHABET, then random ones
        def recv(prefix, k):
            if k == 0:
                out.append({"kind": "vals", "n": 2, "ops": prefix})
                return
            for op in self.VALPHABET:
                recv(prefix + [op], k - 1)
        recv([], 2 if q else 3)
        for _ in range(1200 if q else 12000):
            out.append(self.gen_vals(rng, rng.choice([0, 1, 2, 2, 3, 3, 4]), rng.choice([2, 4, 8, 14, 25])))
        # empty track
        for _ in range(100 if q else 1000):
            out.append({"kind": "empty", "n": 0, "ops": self.gen_history(rng, 0, rng.choice([1, 3, 6]), None, rng.random() < 0.3)})
        return out

    # how a track receives its observations / its table from another one (the "carry" stream):
    #   copy / extract / slice / plus     Track.copy(), extract(i, j), t[i:j], t + t2
    #   span                              t.extractSpanTime(...): the observations are COPIES (Obs.copy()), the table is transmitted
    #   loop                              t.loop(add=True): the track itself, closed into a ring with a copy of its first observation
    #   addcopy                           t.addObs(o.copy()) / t.insertObs(o.copy(), pos) with o an observation of t: the same idiom by hand
    SAME_OBJECT = ("loop", "addcopy")     # the derived track is the source track itself, one observation longer
    INDEPENDENT = ("copy", "span")        # every observation of the derived track is a copy: the two tracks are independent afterwards

    @staticmethod
    def carry_selection(c, n):
        """indices of the source's observations that make the derived track, in order (the second operand of + comes after them)"""
        if c[0] in ("copy", "plus"):
            return list(range(n))
        if c[0] == "extract":
            return list(range(c[1], c[2] + 1))
        if c[0] == "slice":
            return list(range(c[1], c[2]))
        if c[0] == "span":
            return list(range(min(c[1], c[2]), max(c[1], c[2]) + 1))
        if c[0] == "loop":
            return list(range(n)) + [0]
        if c[0] == "addcopy":
            sel = list(range(n))
            sel.insert(n if c[2] is None else c[2], c[1])
            return sel
        raise ValueError(c)

    def rand_carry(self, rng, n, pre, pool, rich):
        """one way of making a track from a track of n observations that went through the calls `pre`"""
        r = rng.random()
        if r < 0.18:
            carry = ["copy"]
        elif r < 0.36:
            i = rng.randrange(0, n)
            carry = ["extract", i, rng.randrange(i, n)]
        elif r < 0.50:
            i = rng.randrange(0, n)
            carry = ["slice", i, rng.randrange(i + 1, n + 1)]
        elif r < 0.62:
            # the piece is made of copies of the observations; the bounds in either order, or given as a track
            i, j = rng.randrange(0, n), rng.randrange(0, n)
            carry = ["span", i, j, "trk" if (i <= j and rng.random() < 0.25) else "ts"]
        elif r < 0.70:
            carry = ["loop"]
        elif r < 0.80:
            how = rng.choice("ogfl")       # t[i], t.getObs(i), t.getFirstObs(), t.getLastObs()
            i = 0 if how == "f" else n - 1 if how == "l" else rng.randrange(0, n)
            carry = ["addcopy", i, None if rng.random() < 0.6 else rng.randrange(0, n + 1), how]
        else:
            # t + t2 where t2 went through the same calls (same feature list) or, rarely, through others
            m = rng.choice([1, 2, 3])

            def resize(op):
                if op[0] in ("create", "update", "setitem") and op[2] == "l":
                    return op[:3] + [(list(op[3]) * (m + 1) + [1] * (m + 1))[:m + max(0, len(op[3]) - n)]]
                if op[0] == "fft" and op[2] > m:
                    return ["fft", op[1], 1, op[3]]          # a kernel no longer than the second operand
                return op
            if rng.random() < 0.85:
                carry = ["plus", m, [resize(op) for op in pre], "same"]
            else:
                carry = ["plus", m, self.gen_history(rng, m, rng.choice([0, 1, 2]), pool, rich), "other"]
        return carry

    def gen_carry(self, rng):
        n = rng.choice([2, 3, 3, 4, 5])
        pool = ["a", "b", "c"] if rng.random() < 0.7 else self.rand_pool(rng)
        rich = rng.random() < 0.3          # one alphabet for the whole case: numpy-valued operators and raising arithmetic stay apart
        pre = self.gen_history(rng, n, rng.choice([0, 1, 2, 3, 5]), pool, rich)
        carry = self.rand_carry(rng, n, pre, pool, rich)
        dn = len(self.carry_selection(carry, n)) + (carry[1] if carry[0] == "plus" else 0)
        ops = self.gen_history(rng, dn, rng.choice([1, 2, 4, 8]), pool, rich)
        case = {"kind": "carry", "n": n, "pool": pool, "pre": pre, "carry": carry, "ops": ops}
        if carry[0] in self.INDEPENDENT and rng.random() < 0.6:
            # the source stays in use next to the derived track: calls on it afterwards
            case["post"] = self.gen_history(rng, n, rng.choice([1, 2, 4]), pool, rich)
        return case

    def describe(self, case):
        t = {"kind": case["kind"], "n": case["n"], "depth": len(case["ops"])}
        if case["kind"] == "carry":
            t["carry"] = case["carry"][0] + ("+post" if case.get("post") else "")
        if case["kind"] == "rand":
            for op in case["ops"][:1]:
                t["first_op"] = op[0]
        return t

    def nontrivial(self, case):
        for op, (before, after) in zip(case["ops"], sim_names(case)):
            gone = [x for x in before if x not in after]
            if op[0] == "expr":
                tg = [t for t in op_targets(op) if t in before]
                gone += tg
            for g in gone:
                if g in before and before.index(g) < len(before) - 1:
                    return True
        return False

    # ---------------------------------------------------------------- implementation
    def mk_track(self, n):
        t = self.Track([], 1)
        for i in range(n):
            t.addObs(self.Obs(self.ENU(10.0 + i, 20.0 + 2 * i, 30.0 + 3 * i), self.ObsTime.readUnixTime(1000 + i)))
        return t

    def mk_init(self, kind, val):
        return fv(val) if kind == "s" else fl(val)

    def mk_algo(self, alg):
        if alg[0] == "const":
            v = fv(alg[1])
            return lambda t, i: v
        if alg[0] == "affine":
            k, c = fv(alg[1]), fv(alg[2])
            return lambda t, i: i * k + c
        if alg[0] == "nextx":
            return lambda t, i: t.getObsAnalyticalFeature("x", i + 1) - t.getObsAnalyticalFeature("x", i)
        if alg[0] == "feat":
            src, k = alg[1], fv(alg[2])
            return lambda t, i: t.getObsAnalyticalFeature(src, i) + k
        raise ValueError(alg)

    def call(self, t, op):
        k = op[0]
        if k == "create":
            return t.createAnalyticalFeature(op[1], self.mk_init(op[2], op[3]))
        if k == "update":
            return t.updateAnalyticalFeature(op[1], self.mk_init(op[2], op[3]))
        if k == "setitem":
            t[op[1]] = self.mk_init(op[2], op[3])
            return None
        if k == "remove":
            if op[2] == "b":
                t[op[1]] = "#DELETE"
                return None
            return t.removeAnalyticalFeature(op[1])
        if k == "setobs":
            v = fv(op[3])
            if op[4] == "b":
                t[op[1], op[2]] = v
            elif op[4] == "r":
                t[op[2], op[1]] = v
            else:
                t.setObsAnalyticalFeature(op[1], op[2], v)
            return None
        if k == "addaf":
            f = self.mk_algo(op[2])
            if op[3] == "b":
                t[op[1]] = f
                return "-"
            return t.addAnalyticalFeature(f, op[1])
        if k == "uvoid":
            if op[3] is None:
                return t.operate(self.UOPS[op[1]], op[2])
            return t.operate(self.UOPS[op[1]], op[2], op[3])
        if k == "bvoid":
            if op[4] is None:
                return t.operate(self.BOPS[op[1]], op[2], op[3])
            return t.operate(self.BOPS[op[1]], op[2], op[3], op[4])
        if k == "svoid":
            if op[4] is None:
                return t.operate(self.SOPS[op[1]], op[2], fv(op[3]))
            return t.operate(self.SOPS[op[1]], op[2], fv(op[3]), op[4])
        if k == "sum":
            return t.operate(self.Operator.SUM, op[1])
        if k == "sk":
            if op[4] is None:
                return t.operate(self.SKOPS[op[1]], op[2], fv(op[3]))
            return t.operate(self.SKOPS[op[1]], op[2], fv(op[3]), op[4])
        if k == "ufn":
            if op[3] is None:
                return t.operate(self.FNOPS[op[1]], op[2])
            return t.operate(self.FNOPS[op[1]], op[2], op[3])
        if k == "aggf":
            return t.operate(self.AGGOPS[op[1]], op[2])
        if k == "abscurv":
            return self.computeAbsCurv(t)
        if k == "estspeed":
            return t.estimate_speed() if op[1] == "m" else self.estimate_speed(t)
        if k == "seg":
            return self.segmentation(t, op[1], op[2], fv(op[3]))
        O = self.Operator
        if k == "conv":
            return t.operate(O.CONVOLUTION, op[1], op[2]) if op[3] is None else t.operate(O.CONVOLUTION, op[1], op[2], op[3])
        if k == "fft":
            ker = list(FFT_KERNELS[op[2]])
            return t.operate(O.FILTER_FFT, op[1], ker) if op[3] is None else t.operate(O.FILTER_FFT, op[1], ker, op[3])
        if k == "apply":
            o = O.SQUARE if op[1] == "square" else O.INVERTER
            return t.operate(o, op[2]) if op[3] is None else t.operate(o, op[2], op[3])
        if k == "shiftc":
            return t.operate(O.SHIFT_CIRCULAR, op[1], op[2]) if op[3] is None else t.operate(O.SHIFT_CIRCULAR, op[1], op[2], op[3])
        if k == "rev":
            return t.operate(O.REVERSER, op[1]) if op[2] is None else t.operate(O.REVERSER, op[1], op[2])
        if k == "agg":
            kind = op[1]
            if kind == "len":
                return t.operate(O.AGGREGATE, op[2], len)
            if kind == "equal":
                return t.operate(O.EQUAL, op[2], op[3])
            return t.operate({"min": O.MIN, "argmax": O.ARGMAX, "zeros": O.ZEROS, "median": O.MEDIAN}[kind], op[2])
        if k == "expr":
            if op[2] == "g":
                return t[op[1]]
            return t.operate(op[1])
        if k == "list":
            subs = op[1]
            f = subs[0][0]
            if f == "sum":
                return t.operate(self.Operator.SUM, [x[1] for x in subs])
            if f == "aggf":
                return t.operate(self.AGGOPS[subs[0][1]], [x[2] for x in subs])
            oper = {"uvoid": self.UOPS, "bvoid": self.BOPS, "svoid": self.SOPS, "ufn": self.FNOPS, "sk": self.SKOPS}[f][subs[0][1]]
            ins = [x[2] for x in subs]
            outs = [x[-1] for x in subs]
            tail = [] if outs[0] is None else [outs]
            if f in ("uvoid", "ufn"):
                return t.operate(oper, ins, *tail)
            if f == "bvoid":
                return t.operate(oper, ins, [x[3] for x in subs], *tail)
            return t.operate(oper, ins, fv(subs[0][3]), *tail)
        raise ValueError(k)

    @staticmethod
    def err_of(e):
        nm = type(e).__name__
        msg = str(e)
        if nm == "AnalyticalFeatureError":
            if "is not available" in msg:
                return "err:reserved"
            if "no observation" in msg:
                return "err:empty"
            if "does not contain" in msg:
                return "err:unknown"
            return "err:af"
        return {"KeyError": "err:key", "IndexError": "err:index", "ValueError": "err:value", "TypeError": "err:type",
                "SystemExit": "err:exit", "ZeroDivisionError": "err:value", "OverflowError": "err:value"}.get(nm, "err:" + nm)

    ROUTED = set("+-/*^><()='{")       # '{' since fix 396f8f9

    def observe(self, t):
        """the observation points of the property (listed names, every read path, len(obs.features), X/Y/Z/T). One of them
        raising is recorded in the observation (`observe_err`) and judged by the oracle as what it is - the track cannot be
        read -, it does not abort the run of the history"""
        try:
            return self.observe_(t)
        except BaseException as e:
            if isinstance(e, KeyboardInterrupt):
                raise
            return {"names": [], "cols": {}, "rowlens": [], "bad_cells": [], "X": [], "Y": [], "Z": [], "T": [], "cells_ok": True,
                    "observe_err": "%s (%s)" % (self.err_of(e), str(e)[:120])}

    def observe_(self, t):
        names = list(t.getListAnalyticalFeatures())
        cols = {}
        cells_ok = True
        for nm in names:
            try:
                c = [canon(v) for v in t.getAnalyticalFeature(nm)]
                cols[nm] = c
                for i in range(len(c)):
                    # every per-observation read path: method, track[name, i], track[i, name], list form
                    if not (close(canon(t.getObsAnalyticalFeature(nm, i)), c[i]) and close(canon(t[nm, i]), c[i])
                            and close(canon(t[i, nm]), c[i]) and close(canon(t.getObsAnalyticalFeatures([nm], i)[0]), c[i])):
                        cells_ok = "cell %d of %r: column read %r, per-observation reads %r %r %r" % (
                            i, nm, c[i], canon(t.getObsAnalyticalFeature(nm, i)), canon(t[nm, i]), canon(t[i, nm]))
                        break
                # whole-column read paths: list form, and the bracket when the string is not routed to the evaluator
                if not close([canon(v) for v in t.getAnalyticalFeatures([nm])[0]], c):
                    cells_ok = "getAnalyticalFeatures([%r]) differs from getAnalyticalFeature" % nm
                if nm and nm == nm.strip() and not (set(nm) & self.ROUTED):
                    if not close([canon(v) for v in t[nm]], c):
                        cells_ok = "track[%r] differs from getAnalyticalFeature" % nm
                if not t.hasAnalyticalFeature(nm):
                    cells_ok = "hasAnalyticalFeature(%r) is False for a listed name" % nm
            except BaseException as e:
                cols[nm] = self.err_of(e)
        bad = []
        for i, o in enumerate(t.getObsList()):
            for j, v in enumerate(o.features):
                if not is_scalar(v) and len(bad) < 3:
                    bad.append([i, j, type(v).__name__])
        return {"names": names, "cols": cols, "rowlens": [len(o.features) for o in t.getObsList()], "bad_cells": bad,
                "X": [canon(v) for v in t.getX()], "Y": [canon(v) for v in t.getY()], "Z": [canon(v) for v in t.getZ()],
                "T": [canon(v) for v in t.getT()],
                "cells_ok": cells_ok}

    def final_reads(self, t):
        """read every listed feature through an operator and through an expression (these paths write
        temporaries, so they are taken once, after the last call of the history)"""
        out = {}
        names = list(t.getListAnalyticalFeatures())
        for nm in names:
            rec = {}
            try:
                rec["agg"] = [canon(v) for v in t.operate(self.Operator.AGGREGATE, nm, list)]
            except BaseException as e:
                rec["agg"] = self.err_of(e)
            if expr_safe(nm) and not nm.startswith("#") and not any(x.startswith("#") for x in names):
                try:
                    rec["expr"] = [canon(v) for v in t.operate("0+" + nm)]
                except BaseException as e:
                    rec["expr"] = self.err_of(e)
            out[nm] = rec
        return out

    def run_ops(self, t, ops):
        steps = []
        for op in ops:
            try:
                r = self.call(t, op)
                out = "ok"
                if r is None or isinstance(r, str):
                    ret = "-"
                elif isinstance(r, (list, tuple, np.ndarray)):
                    ret = ["c", [canon(v) for v in r]]
                else:
                    ret = ["n", canon(r)]
            except BaseException as e:
                if isinstance(e, KeyboardInterrupt):
                    raise
                out, ret = self.err_of(e), "-"
            ob = self.observe(t)
            ob["out"], ob["ret"] = out, ret
            steps.append(ob)
        return steps

    def derive(self, case, t):
        c = case["carry"]
        if c[0] == "copy":
            return t.copy()
        if c[0] == "extract":
            return t.extract(c[1], c[2])
        if c[0] == "slice":
            return t[c[1]:c[2]]
        if c[0] == "span":
            if c[3] == "trk":
                return t.extractSpanTime(t[c[1]:c[2] + 1])
            return t.extractSpanTime(t[c[1]].timestamp, t[c[2]].timestamp)
        if c[0] == "loop":
            t.loop(add=True)
            return t
        if c[0] == "addcopy":
            o = {"o": lambda: t[c[1]], "g": lambda: t.getObs(c[1]), "f": t.getFirstObs, "l": t.getLastObs}[c[3]]()
            if c[2] is None:
                t.addObs(o.copy())
            else:
                t.insertObs(o.copy(), c[2])
            return t
        t2 = self.Track([], 1)
        for i in range(c[1]):
            t2.addObs(self.Obs(self.ENU(50.0 + i, 60.0 + 2 * i, 70.0 + 3 * i), self.ObsTime.readUnixTime(2000 + i)))
        self._t2_steps = self.run_ops(t2, c[2])
        self._t2 = t2
        return t + t2

    # ---- the vals stream on the implementation
    def call_v(self, t, op):
        k = op[0]
        if k == "create":
            if op[2] == "d":
                return t.createAnalyticalFeature(op[1])
            return t.createAnalyticalFeature(op[1], self.mk_varg(op[2], op[3]))
        if k == "update":
            return t.updateAnalyticalFeature(op[1], self.mk_varg(op[2], op[3]))
        if k == "setitem":
            t[op[1]] = self.mk_varg(op[2], op[3])
            return None
        if k == "remove":
            if op[2] == "b":
                t[op[1]] = "#DELETE"
                return None
            return t.removeAnalyticalFeature(op[1])
        if k == "setobs":
            v = mk_val(op[3])
            if op[4] == "b":
                t[op[1], op[2]] = v
            elif op[4] == "r":
                t[op[2], op[1]] = v
            else:
                t.setObsAnalyticalFeature(op[1], op[2], v)
            return None
        if k == "addaf":
            v = mk_val(op[2])
            f = lambda trk, i: v
            if op[3] == "b":
                t[op[1]] = f
                return "-"
            return t.addAnalyticalFeature(f, op[1])
        if k == "rev":
            O = self.Operator
            return t.operate(O.REVERSER, op[1]) if op[2] is None else t.operate(O.REVERSER, op[1], op[2])
        if k == "expr":
            if op[2] == "g":
                return t[op[1]]
            return t.operate(op[1])
        raise ValueError(k)

    @staticmethod
    def mk_varg(kind, val):
        return mk_val(val) if kind == "s" else [mk_val(v) for v in val]

    def observe_v(self, t):
        """the observation points of the property with every value as a token (vtok): any Python object is a legitimate cell value"""
        try:
            names = list(t.getListAnalyticalFeatures())
            cols = {}
            cells_ok = True
            for nm in names:
                try:
                    c = [vtok(v) for v in t.getAnalyticalFeature(nm)]
                    cols[nm] = c
                    for i in range(len(c)):
                        got = [vtok(t.getObsAnalyticalFeature(nm, i)), vtok(t[nm, i]), vtok(t[i, nm]), vtok(t.getObsAnalyticalFeatures([nm], i)[0])]
                        if any(g != c[i] for g in got):
                            cells_ok = "cell %d of %r: column read %r, per-observation reads %r" % (i, nm, c[i], got)
                            break
                    if [vtok(v) for v in t.getAnalyticalFeatures([nm])[0]] != c:
                        cells_ok = "getAnalyticalFeatures([%r]) differs from getAnalyticalFeature" % nm
                    if nm and nm == nm.strip() and not (set(nm) & self.ROUTED):
                        if [vtok(v) for v in t[nm]] != c:
                            cells_ok = "track[%r] differs from getAnalyticalFeature" % nm
                    if not t.hasAnalyticalFeature(nm):
                        cells_ok = "hasAnalyticalFeature(%r) is False for a listed name" % nm
                except BaseException as e:
                    cols[nm] = self.err_of(e)
            return {"names": names, "cols": cols, "rowlens": [len(o.features) for o in t.getObsList()], "bad_cells": [],
                    "X": [vtok(v) for v in t.getX()], "Y": [vtok(v) for v in t.getY()], "Z": [vtok(v) for v in t.getZ()],
                    "T": [vtok(v) for v in t.getT()], "cells_ok": cells_ok}
        except BaseException as e:
            if isinstance(e, KeyboardInterrupt):
                raise
            return {"names": [], "cols": {}, "rowlens": [], "bad_cells": [], "X": [], "Y": [], "Z": [], "T": [], "cells_ok": True,
                    "observe_err": "%s (%s)" % (self.err_of(e), str(e)[:120])}

    def run_vops(self, t, ops):
        steps = []
        for op in ops:
            self.vop_token(op)             # a malformed case (value spec, op layout) raises HERE: a harness error, not an exception of the call
            try:
                r = self.call_v(t, op)
                out = "ok"
                if r is None or isinstance(r, str):
                    ret = "-"
                elif isinstance(r, (list, tuple, np.ndarray)):
                    ret = ["c", [vtok(v) for v in r]]
                else:
                    ret = ["n", vtok(r)]
            except BaseException as e:
                if isinstance(e, KeyboardInterrupt):
                    raise
                out, ret = self.err_of(e), "-"
            ob = self.observe_v(t)
            ob["out"], ob["ret"] = out, ret
            steps.append(ob)
        return steps

    def vop_token(self, op):
        k = op[0]
        o = lambda x: enc(x) if x is not None else ""
        arg = lambda kind, val: "%s:%s" % (kind, vtok(mk_val(val)) if kind == "s" else (",".join(vtok(mk_val(v)) for v in val) or "_"))
        if k == "create":
            nm = "!" if op[1] is None else enc(op[1])
            return "create:%s:d" % nm if op[2] == "d" else "create:%s:%s" % (nm, arg(op[2], op[3]))
        if k in ("update", "setitem"):
            return "%s:%s:%s" % (k, enc(op[1]), arg(op[2], op[3]))
        if k == "remove":
            # the bracket form `t[name] = "#DELETE"` goes through the model's front end of __setitem__
            return "remove:%s" % enc(op[1]) if op[2] == "m" else "setitem:%s:s:%s" % (enc(op[1]), DELETE_TOK)
        if k == "setobs":
            return "setobs:%s:%d:%s" % (enc(op[1]), op[2], vtok(mk_val(op[3])))
        if k == "addaf":
            return "addaf:%s:const:%s" % (enc(op[1]), vtok(mk_val(op[2])))
        if k == "rev":
            return "rev:%s:%s" % (enc(op[1]), o(op[2]))
        if k == "expr":
            return "expr:" + ",".join(t if (t == "=" or t.isdigit() and t.isascii()) else enc(t) for t in expr_rpn(op[1]))
        raise ValueError(k)

    @staticmethod
    def parse_block_v(b):
        f = b.split("~")
        if len(f) != 9:
            raise ValueError("bad block %r" % b[:80])

        def toks(s):
            return [] if s == "_" else s.split(",")
        names = [] if f[2] == "_" else [dec(x) for x in f[2].split(",")]
        colstr = [] if f[3] == "_" else f[3].split(";")
        if len(names) == 1 and f[3] == "_":
            colstr = ["_"]
        cols = {}
        for nm, cs in zip(names, colstr):
            cols[nm] = cs if cs.startswith("err") or cs == "unsupported" else toks(cs)
        ret = "-" if f[1] == "-" else ["n", f[1][1:]] if f[1][0] == "n" else ["c", toks(f[1][1:])]
        return {"out": f[0], "ret": ret, "names": names, "cols": cols,
                "rowlens": [] if f[4] == "_" else [int(x) for x in f[4].split(",")],
                "X": toks(f[5]), "Y": toks(f[6]), "Z": toks(f[7]), "T": toks(f[8])}

    def impl(self, case):
        t = self.mk_track(case["n"])
        if case["kind"] == "vals":
            return {"steps": self.run_vops(t, case["ops"])}
        if case["kind"] == "carry":
            pre = self.run_ops(t, case["pre"])
            self._t2 = None
            src_pre = self.observe(t)          # the source as it is when the derivation is made
            try:
                d = self.derive(case, t)
            except BaseException as e:
                if isinstance(e, KeyboardInterrupt):
                    raise
                return {"pre": pre, "src_pre": src_pre, "carry_err": self.err_of(e), "steps": []}
            same = d is t
            src0 = self.observe(t)
            other0 = self.observe(self._t2) if self._t2 is not None else None
            first = self.observe(d)
            steps = self.run_ops(d, case["ops"])
            res = {"pre": pre, "src_pre": src_pre, "first": first, "steps": steps, "src_before": src0, "src_after": self.observe(t),
                   "other_before": other0, "other_after": self.observe(self._t2) if self._t2 is not None else None,
                   "final": self.final_reads(d), "same_object": same}
            if self._t2 is not None:
                res["other_pre"] = self._t2_steps
            if case.get("post"):
                # the source is used again while the derived track is alive
                res["derived_before_post"] = self.observe(d)
                res["post"] = self.run_ops(t, case["post"])
                res["derived_after_post"] = self.observe(d)
            self._t2 = None
            if len(self._impl_cache) > 2000:
                self._impl_cache.clear()
            self._impl_cache[self.ckey(case)] = res
            return res
        steps = self.run_ops(t, case["ops"])
        res = {"steps": steps}
        if case["kind"] in ("names", "rich", "corpus"):
            res["final"] = self.final_reads(t)
        if any(op[0] in self.OPAQUE for op in case["ops"]):
            if len(self._impl_cache) > 2000:
                self._impl_cache.clear()
            self._impl_cache[self.ckey(case)] = res
        return res

    # operators whose values the model does not compute: the values written are taken from what the implementation returned
    OPAQUE = ("conv", "fft", "apply", "shiftc")
    _impl_cache = {}

    @staticmethod
    def ckey(case):
        return hashlib.sha1(json.dumps(case, sort_keys=True).encode()).hexdigest()

    @staticmethod
    def phase_ops(case, which):
        """the calls of one phase of a case: pre / ops / post, or other_pre = the calls made on the second operand of +"""
        if which == "other_pre":
            return case["carry"][2] if case["carry"][0] == "plus" else []
        return case.get(which) or []

    def opaque_vals(self, case, which="ops"):
        """per step: the list returned by the implementation for an opaque operator ([] when it raised / returned junk)"""
        key = self.ckey(case)
        res = self._impl_cache.get(key)
        if res is None:
            from engine import _Silence
            with _Silence():
                res = self.impl(case)
            self._impl_cache[key] = res
        out = {}
        steps = res.get({"ops": "steps"}.get(which, which)) or []
        for k, (op, st) in enumerate(zip(self.phase_ops(case, which), steps)):
            if op[0] in self.OPAQUE:
                r = st["ret"]
                ok = st["out"] == "ok" and r != "-" and r[0] == "c" and all(isinstance(v, float) for v in r[1])
                out[k] = r[1] if ok else []
        return out

    # ---------------------------------------------------------------- model
    def op_token(self, op, vals=None):
        k = op[0]
        if k == "list":
            if op[1][0][0] in LIST_REFUSED:
                return "refused"
            return "seq;" + ";".join(self.op_token(sub) for sub in op[1])
        o = lambda x: enc(x) if x is not None else ""
        if k in self.OPAQUE:
            out = list(op_targets(op))[0]
            cols = {"conv": [op[1], op[2]], "fft": [op[1]]}.get(k, [])
            cells = {"apply": [op[2]], "shiftc": [op[1]]}.get(k, [])
            return "opq:%s:%s:%s:%s" % (enc_list(cols), enc_list(cells), enc(out),
                                        ",".join(fbits(v) for v in vals) if vals else "_")
        if k == "rev":
            return "rev:%s:%s" % (enc(op[1]), o(op[2]))
        if k == "agg":
            if op[1] == "median":
                return "probe:%s:_" % enc(op[2])
            return "probe:_:%s" % enc_list(op[2:])
        if k in ("create", "update", "setitem"):
            return "%s:%s:%s:%s" % (k, enc(op[1]), op[2], tokf(op[3]) if op[2] == "s" else tokl(op[3]))
        if k == "remove":
            return "remove:%s" % enc(op[1])
        if k == "setobs":
            return "setobs:%s:%d:%s" % (enc(op[1]), op[2], tokf(op[3]))
        if k == "addaf":
            alg = op[2]
            if alg[0] == "const":
                return "addaf:%s:const:%s" % (enc(op[1]), tokf(alg[1]))
            if alg[0] == "affine":
                return "addaf:%s:affine:%s:%s" % (enc(op[1]), tokf(alg[1]), tokf(alg[2]))
            if alg[0] == "nextx":
                return "addaf:%s:nextx" % enc(op[1])
            return "addaf:%s:feat:%s:%s" % (enc(op[1]), enc(alg[1]), tokf(alg[2]))
        if k == "uvoid":
            return "uvoid:%s:%s:%s" % (op[1], enc(op[2]), o(op[3]))
        if k == "bvoid":
            return "bvoid:%s:%s:%s:%s" % (op[1], enc(op[2]), enc(op[3]), o(op[4]))
        if k in ("svoid", "sk"):
            return "%s:%s:%s:%s:%s" % (k, op[1], enc(op[2]), tokf(op[3]), o(op[4]))
        if k == "ufn":
            return "ufn:%s:%s:%s" % (op[1], enc(op[2]), o(op[3]))
        if k == "aggf":
            return "aggf:%s:%s" % (op[1], enc(op[2]))
        if k == "sum":
            return "sum:%s" % enc(op[1])
        if k == "abscurv":
            return "abscurv"
        if k == "estspeed":
            return "estspeed"
        if k == "seg":
            return "seg:%s:%s:%s" % (enc(op[1]), enc(op[2]), tokf(op[3]))
        if k == "expr":
            return "expr:" + ",".join(t if (t in "=+-*/^@&$<>%!" or t.isdigit() and t.isascii()) else enc(t) for t in expr_rpn(op[1]))
        raise ValueError(k)

    def cached_impl(self, case):
        key = self.ckey(case)
        res = self._impl_cache.get(key)
        if res is None:
            from engine import _Silence
            with _Silence():
                res = self.impl(case)
            if len(self._impl_cache) > 2000:
                self._impl_cache.clear()
            self._impl_cache[key] = res
        return res

    def body(self, case, which):
        ops = self.phase_ops(case, which)
        ov = self.opaque_vals(case, which) if any(op[0] in self.OPAQUE for op in ops) else {}
        return " ".join(self.op_token(op, ov.get(k)) for k, op in enumerate(ops))

    @staticmethod
    def carried_table(first):
        """the table the derived track starts with, as the implementation shows it - None when it is not a table
        (misaligned, unreadable): then there is nothing for the model to start from"""
        names = first["names"]
        if len(set(names)) != len(names) or any(l != len(names) for l in first["rowlens"]):
            return None
        for nm in names:
            c = first["cols"].get(nm)
            if not isinstance(c, list) or not all(isinstance(v, float) for v in c) or len(c) != len(first["X"]):
                return None
        for cn in "XYZT":
            if not all(isinstance(v, float) for v in first[cn]):
                return None
        return names

    def requests(self, case):
        if case["kind"] == "vals":
            if not case["ops"]:
                return []
            vt = VTab(case["n"])
            head = " ".join(",".join(c) or "_" for c in (vt.X, vt.Y, vt.Z, vt.T))
            body = " ".join(self.vop_token(op) for op in case["ops"])
            return ["C01.vrun %s %s" % (head, body), "C01.varun %s %s" % (head, body)]
        tb = Tab(case["n"])
        head = " ".join(tokl(c) for c in (tb.X, tb.Y, tb.Z, tb.T))
        if case["kind"] == "carry":
            res = self.cached_impl(case)
            out = []
            if case["pre"]:
                b = self.body(case, "pre")
                out += ["C01.run %s %s" % (head, b), "C01.arun %s %s" % (head, b)]
            # the model runs a history from the table the implementation shows when the history starts
            for which, start in (("ops", "first"), ("post", "src_after")):
                f = res.get(start)
                if f is not None and case.get(which) and f["X"]:
                    names = self.carried_table(f)
                    if names is not None:
                        h2 = " ".join(tokl(f[c]) for c in "XYZT")
                        tbl = "%s %s" % (enc_list(names), ";".join(tokl(f["cols"][nm]) for nm in names) if names else "_")
                        b = self.body(case, which)
                        out += ["C01.runi %s %s %s" % (h2, tbl, b), "C01.aruni %s %s %s" % (h2, tbl, b)]
            out.append(self.world_request(case, res))
            return out
        if not case["ops"]:
            return []
        body = self.body(case, "ops")
        return ["C01.run %s %s" % (head, body), "C01.arun %s %s" % (head, body)]

    # ---- the whole case on the model of the heap (Model/FeaturesWorld.lean): the source track, the second operand of +, the
    # derivation itself, the calls on the derived track and the calls on the source afterwards, every track observed after every step
    @staticmethod
    def carry_token(c):
        if c[0] in ("copy", "loop"):
            return "d:" + c[0]
        if c[0] in ("extract", "slice", "span"):
            return "d:%s:%d:%d" % (c[0], c[1], c[2])
        if c[0] == "addcopy":
            return "d:addcopy:%d:%s" % (c[1], "" if c[2] is None else c[2])
        return "d:plus:1"

    def world_plan(self, case, res):
        """[(token, what the reply group is compared with)]: ('pre', k) ('other_pre', k) ('derive',) ('ops', k) ('post', k), None for `on:K`"""
        c = case["carry"]
        tb = Tab(case["n"])
        plan = [("new:" + ":".join(tokl(col) for col in (tb.X, tb.Y, tb.Z, tb.T)), None)]
        for k, tok in enumerate(self.body(case, "pre").split(" ") if case["pre"] else []):
            plan.append((tok, ("pre", k)))
        derived = 0 if c[0] in self.SAME_OBJECT else 1
        if c[0] == "plus":
            m = c[1]
            plan.append(("new:" + ":".join(tokl(col) for col in ([50.0 + i for i in range(m)], [60.0 + 2 * i for i in range(m)],
                                                                    [70.0 + 3 * i for i in range(m)], [2000.0 + i for i in range(m)])), None))
            if c[2] and "other_pre" in res:
                plan.append(("on:1", None))
                for k, tok in enumerate(self.body(case, "other_pre").split(" ")):
                    plan.append((tok, ("other_pre", k)))
                plan.append(("on:0", None))
            elif c[2]:
                return plan, derived       # the implementation raised while the second operand was made: nothing further to compare
            derived = 2
        plan.append((self.carry_token(c), ("derive",)))
        if "carry_err" in res:
            return plan, derived
        if case["ops"]:
            plan.append(("on:%d" % derived, None))
            for k, tok in enumerate(self.body(case, "ops").split(" ")):
                plan.append((tok, ("ops", k)))
        if case.get("post") and "post" in res:
            plan.append(("on:0", None))
            for k, tok in enumerate(self.body(case, "post").split(" ")):
                plan.append((tok, ("post", k)))
        return plan, derived

    def world_request(self, case, res):
        plan, _ = self.world_plan(case, res)
        return "C01.world " + " ".join(tok for tok, _ in plan)

    @staticmethod
    def parse_block(b):
        f = b.split("~")
        if len(f) != 9:
            raise ValueError("bad block %r" % b[:80])

        def floats(s):
            return [] if s == "_" else [bitsf(x) for x in s.split(",")]
        names = [] if f[2] == "_" else [dec(x) for x in f[2].split(",")]
        colstr = [] if f[3] == "_" else f[3].split(";")
        if len(names) == 1 and f[3] == "_":
            colstr = ["_"]
        cols = {}
        for nm, cs in zip(names, colstr):
            cols[nm] = cs if cs.startswith("err") or cs == "unsupported" else floats(cs)
        if f[1] == "-":
            ret = "-"
        elif f[1][0] == "n":
            ret = ["n", bitsf(f[1][1:])]
        else:
            ret = ["c", floats(f[1][1:])]
        return {"out": f[0], "ret": ret, "names": names, "cols": cols,
                "rowlens": [] if f[4] == "_" else [int(x) for x in f[4].split(",")],
                "X": floats(f[5]), "Y": floats(f[6]), "Z": floats(f[7]), "T": floats(f[8])}

    def decode(self, case, replies):
        for r in replies:
            if r == "bad-request":
                raise ValueError("driver refused the request")
        if case["kind"] == "vals":
            if not case["ops"]:
                return {"steps": [], "asteps": []}
            blocks = [[self.parse_block_v(b) for b in r.split(" ")] for r in replies]
            return {"steps": blocks[0], "asteps": blocks[1]}
        world = None
        if case["kind"] == "carry":
            world = [[self.parse_block(b) for b in g.split("^")] for g in replies[-1].split(" ")]
            replies = replies[:-1]
        blocks = [[self.parse_block(b) for b in r.split(" ")] for r in replies]
        if case["kind"] == "carry":
            out = {"pre": None, "apre": None, "steps": None, "asteps": None, "post": None, "apost": None, "world": world}
            k = 0
            if case["pre"]:
                out["pre"], out["apre"] = blocks[0], blocks[1]
                k = 2
            # which of the two later phases were requested is decided as in requests(), from the implementation's output
            res = self.cached_impl(case)
            for which, start, key in (("ops", "first", "steps"), ("post", "src_after", "post")):
                f = res.get(start)
                if f is not None and case.get(which) and f["X"] and self.carried_table(f) is not None and len(blocks) > k + 1:
                    out[key], out["a" + key] = blocks[k], blocks[k + 1]
                    k += 2
            return out
        if not case["ops"]:
            return {"steps": [], "asteps": []}
        return {"steps": blocks[0], "asteps": blocks[1]}

    @staticmethod
    def same_ret(op, a, b):
        """a = implementation's, b = model's; '-' = None / nothing returned"""
        if op[0] == "addaf" and op[3] == "b":
            return True                    # bracket assignment returns nothing
        if op[0] == "agg":
            return True                    # value of a non-void operator: outside the model, checked by the oracle
        if a == "-" or b == "-":
            return a == b
        return a[0] == b[0] and close(a[1], b[1])

    def diff_step(self, op, si, sm, with_rows=True):
        if si.get("observe_err"):
            return "the implementation's track cannot be observed: %s" % si["observe_err"]
        if si["out"] != sm["out"]:
            # an operator with opaque values that raises inside its numeric part (FILTER_FFT with a kernel longer than the track:
            # ValueError from numpy): the model, which is handed no values, raises IndexError at the write - the kind is not
            # compared, the table left behind is
            if not (op[0] in self.OPAQUE and si["out"].startswith("err") and sm["out"].startswith("err")):
                return "outcome impl=%s model=%s" % (si["out"], sm["out"])
        if si["out"] == "ok" and not self.same_ret(op, si["ret"], sm["ret"]):
            return "returned value impl=%s model=%s" % (si["ret"], sm["ret"])
        if sorted(si["names"]) != sorted(sm["names"]):
            return "names impl=%s model=%s" % (si["names"], sm["names"])
        for nm in si["names"]:
            if not close(si["cols"][nm], sm["cols"][nm]):
                return "column %s impl=%s model=%s" % (nm, si["cols"][nm], sm["cols"][nm])
        if with_rows and si["rowlens"] != sm["rowlens"]:
            return "len(features) impl=%s model=%s" % (si["rowlens"], sm["rowlens"])
        for c in "XYZT":
            if not close(si[c], sm[c]):
                return "%s impl=%s model=%s" % (c, si[c], sm[c])
        return None

    @classmethod
    def bracket_routed(cls, name):
        """track[name] does not read the feature `name`: the string is stripped, and routed to the evaluator when it
        contains one of + - / * ^ > < ( ) = ' {"""
        return name != name.strip() or bool(set(name) & cls.ROUTED)

    def compare_ops(self, ops, isteps, msteps, asteps, label=""):
        if not (len(isteps) == len(msteps) == len(asteps) == len(ops)):
            return "number of steps differs%s" % label
        for k, op in enumerate(ops):
            if msteps[k]["out"] == "unsupported" or asteps[k]["out"] == "unsupported":
                return None                # the call is outside the model (complex power, FILTER, D2 ...): the rest of the history is not compared
            d = self.diff_step(op, isteps[k], msteps[k])
            if d:
                return "%sstep %d %s: %s" % (label, k, op, d)
            d = self.diff_step(op, isteps[k], asteps[k], with_rows=True)
            if d:
                return "%sstep %d %s (specification table): %s" % (label, k, op, d)
        return None

    def diff_state(self, si, sm, values=True):
        """two observations of one track (the implementation's, the model's), without outcome"""
        if si.get("observe_err"):
            return "the implementation's track cannot be observed: %s" % si["observe_err"]
        if sorted(si["names"]) != sorted(sm["names"]):
            return "names impl=%s model=%s" % (si["names"], sm["names"])
        for nm in si["names"] if values else []:
            if not close(si["cols"][nm], sm["cols"][nm]):
                return "column %s impl=%s model=%s" % (nm, si["cols"][nm], sm["cols"][nm])
        if si["rowlens"] != sm["rowlens"]:
            return "len(features) impl=%s model=%s" % (si["rowlens"], sm["rowlens"])
        for c in "XYZT":
            if not close(si[c], sm[c]):
                return "%s impl=%s model=%s" % (c, si[c], sm[c])
        return None

    def compare_world(self, case, impl_out, world):
        """the model of the heap against the implementation: the track a step is addressed to after every step, and every
        track (the source, the second operand of +, the derived track) wherever the implementation was observed"""
        plan, derived = self.world_plan(case, impl_out)
        groups = [what for _, what in plan if what is not None]
        # reply groups exist for every step but `on:K`; the `new` steps have no counterpart on the implementation's side
        steps = [what for tok, what in plan if not tok.startswith("on:")]
        if world is None or len(world) != len(steps):
            return "heap model: %d reply groups for %d steps" % (len(world or []), len(steps))
        c = case["carry"]
        last_ops = len(case["ops"]) - 1
        # States in which WHICH value a name reads depends on where the columns sit in the observations (the property leaves that
        # free: a swap-remove is as good as a shift): the sum of two tracks whose listings differ only in their order (`+` compares
        # them position by position), and a derived track that starts misaligned (finding sum-of-different-feature-lists: no name
        # listed, values carried). There the outcome, the listed names, the number of values per observation and the coordinates
        # are compared, not the column values.
        loose = False
        if c[0] == "plus" and "first" in impl_out:
            a, b = impl_out["src_before"]["names"], (impl_out.get("other_before") or {}).get("names")
            if b is not None and a != b and sorted(a) == sorted(b):
                return None
            loose = self.carried_table(impl_out["first"]) is None
        for what, g in zip(steps, world):
            if what is None:
                continue
            if any(b["out"] == "unsupported" for b in g):
                return None                # outside the model: the rest of the session is not compared
            ph = what[0]
            label = "heap model, %s: " % (what,)
            if ph == "derive":
                if "carry_err" in impl_out:
                    return None if g[0]["out"] == impl_out["carry_err"] else label + "outcome impl=%s model=%s" % (impl_out["carry_err"], g[0]["out"])
                if g[0]["out"] != "ok":
                    return label + "outcome impl=ok model=%s" % g[0]["out"]
                pairs = [(0, impl_out["src_before"], "source"), (derived, impl_out["first"], "derived track")]
                if c[0] == "plus":
                    pairs.append((1, impl_out["other_before"], "second operand"))
                for k, si, nm in pairs:
                    d = self.diff_state(si, g[k]) if k < len(g) else "no such track in the model"
                    if d:
                        return label + nm + ": " + d
                continue
            k = what[1]
            trk = {"pre": 0, "other_pre": 1, "ops": derived, "post": 0}[ph]
            si = impl_out[{"ops": "steps"}.get(ph, ph)][k]
            op = self.phase_ops(case, ph)[k]
            if trk >= len(g):
                d = "no such track in the model"
            elif loose and ph == "ops":
                d = ("outcome impl=%s model=%s" % (si["out"], g[trk]["out"])) if si["out"] != g[trk]["out"] else self.diff_state(si, g[trk], values=False)
            else:
                d = self.diff_step(op, si, g[trk])
            if d:
                return label + "%s: %s" % (op, d)
            if ph == "ops" and k == last_ops:
                pairs = [] if c[0] in self.SAME_OBJECT else [(0, impl_out["src_after"], "source afterwards")]
                if c[0] == "plus":
                    pairs.append((1, impl_out["other_after"], "second operand afterwards"))
                # a track that SHARES its observations with the derived one (extract / slice / +) has been written to through
                # column positions of the derived track: which of its names reads what then depends on where the columns sit, which
                # the property leaves free (a swap-remove is as good as a shift) - compared there: listed names, values per
                # observation, coordinates; for the independent forms everything
                for j, sj, nm in pairs:
                    d = self.diff_state(sj, g[j], values=c[0] in self.INDEPENDENT)
                    if d:
                        return label + nm + ": " + d
            if ph == "post" and k == len(case["post"]) - 1:
                d = self.diff_state(impl_out["derived_after_post"], g[derived])
                if d:
                    return label + "derived track afterwards: " + d
        return None

    def compare(self, case, impl_out, model_out):
        if "err" in impl_out:
            return "implementation harness raised %s" % impl_out
        if case["kind"] == "carry":
            if case["pre"]:
                d = self.compare_ops(case["pre"], impl_out["pre"], model_out["pre"], model_out["apre"], "source track, ")
                if d:
                    return d
                if any(st["out"] == "unsupported" for st in model_out["pre"]):
                    return None
            if model_out["steps"] is not None:     # else: nothing carried that the model could start from (reported by the oracle if it is a defect)
                d = self.compare_ops(case["ops"], impl_out["steps"], model_out["steps"], model_out["asteps"], "derived track, ")
                if d:
                    return d
            if model_out.get("post") is not None:
                d = self.compare_ops(case["post"], impl_out["post"], model_out["post"], model_out["apost"], "source track after the derivation, ")
                if d:
                    return d
            return self.compare_world(case, impl_out, model_out["world"])
        return self.compare_ops(case["ops"], impl_out["steps"], model_out["steps"], model_out["asteps"])

    # ---------------------------------------------------------------- oracle (transfer)
    def spec(self, case, out):
        return self.spec_(case, out)

    @staticmethod
    def may_delete(op, nm):
        """is unlisting the feature `nm` part of the documented meaning of the call?"""
        k = op[0]
        if k == "remove":
            return nm == op[1]
        if k == "expr":
            return nm.startswith("#")
        if k == "abscurv":
            return nm == "ds"
        return False

    def spec_ops(self, tab, ops, steps, label="", exp=None):
        n = tab.n
        exp = exp or expected
        for k, op in enumerate(ops):
            ob = steps[k]
            where = "%safter call %d %s (%s): " % (label, k, op, ob["out"])
            if ob.get("observe_err"):
                return where + "the track can no longer be read (getListAnalyticalFeatures / len(obs.features) / getX..getT): %s" % ob["observe_err"]
            names = ob["names"]
            # every observation carries exactly one value per listed name
            if len(set(names)) != len(names):
                return where + "a name is listed twice: %s" % names
            if any(l != len(names) for l in ob["rowlens"]):
                return where + "%d names listed %s but the observations carry %s values" % (len(names), names, ob["rowlens"])
            for nm in names:
                c = ob["cols"][nm]
                if isinstance(c, str):
                    return where + "reading the listed feature %r raises %s" % (nm, c)
                if len(c) != n:
                    return where + "feature %r reads %d values on a track of %d" % (nm, len(c), n)
            if ob["cells_ok"] is not True:
                return where + "a read path does not return what the column read returns: %s" % (ob["cells_ok"],)
            if op[0] == "expr" and any(nm.startswith("#") for nm in names):
                return where + "evaluator temporaries remain listed: %s" % [nm for nm in names if nm.startswith("#")]
            if ob["bad_cells"]:
                i, j, ty = ob["bad_cells"][0]
                return where + "observation %d stores a %s in feature column %d: not one value per listed feature" % (i, ty, j)
            tg = op_targets(op)
            hashy = op[0] == "expr"
            e = exp(tab, op)
            if e is not None and ob["out"] != "ok":
                lost = [nm for nm in tg if nm in tab.cols and nm not in names]
                return where + "the call raised although every operand exists and the call is well formed (expected to write %s)%s" % (
                    {k_: v for k_, v in list(e["cols"].items()) + list(e["coord"].items())} or "nothing",
                    "; feature %s is no longer listed: its values are lost" % lost if lost else "")
            if e is not None:
                for nm, c in e["cols"].items():
                    if e["scaled"]:
                        got = ob["cols"].get(nm)
                        if not isinstance(got, list) or not close_scaled(got, c):
                            return where + "feature %r reads %s, the operator's definition gives %s" % (nm, got, c)
                        c = got            # keep the stored (rounded) values for the next calls
                    tab.cols[nm] = c
                for nm in e["drop"]:
                    tab.cols.pop(nm, None)
                for cn, c in e["coord"].items():
                    setattr(tab, cn, c)
                if e["ret"] != "-":
                    r = ob["ret"]
                    if not (op[0] == "addaf" and op[3] == "b"):
                        good = r != "-" and r[0] == e["ret"][0] and (
                            close_scaled(r[1], e["ret"][1]) if e["scaled"] else close(r[1], e["ret"][1]))
                        if not good:
                            return where + "returned %s, expected %s" % (r, e["ret"])
            else:
                # failed call, or a call the oracle has no expectation for: only its target may have changed
                free = set(tg)
                if hashy:
                    for nm in list(tab.cols):
                        if nm.startswith("#"):
                            del tab.cols[nm]
                for nm in free:
                    if nm in ("x", "y", "z"):
                        setattr(tab, nm.upper(), ob[nm.upper()])
                    elif nm in names:
                        tab.cols[nm] = ob["cols"][nm]
                    else:
                        # The call may have (partly) written its target or created it - it may not have DELETED it: a feature that
                        # was written and whose deletion nobody asked for still reads (its last written values, or what this call
                        # wrote), whether the call returned or raised. Deletions that ARE the call's documented meaning: remove /
                        # '#DELETE' of that name, the '#' names (they belong to the evaluator: purged by every operate(str)), and
                        # the built-in intermediate 'ds' of computeAbsCurv.
                        if nm in tab.cols and not self.may_delete(op, nm):
                            return where + "feature %r (last written %s) is no longer listed: the call %s and no deletion of %r was requested" % (
                                nm, tab.cols[nm], "returned" if ob["out"] == "ok" else "raised " + ob["out"], nm)
                        tab.cols.pop(nm, None)
            # reading a name returns what was last written under it; nothing else changed
            if sorted(names) != sorted(tab.cols):
                return where + "listed names %s, expected %s" % (sorted(names), sorted(tab.cols))
            for nm in names:
                if not close(ob["cols"][nm], tab.cols[nm]):
                    return where + "feature %r reads %s, last written %s" % (nm, ob["cols"][nm], tab.cols[nm])
            for cn in "XYZT":
                if not close(ob[cn], getattr(tab, cn)):
                    return where + "%s is %s, expected %s" % (cn, ob[cn], getattr(tab, cn))
        return None

    def spec_final(self, tab, out, label=""):
        """the read paths through an operator and through an expression return the column too"""
        for nm, rec in (out.get("final") or {}).items():
            want = tab.cols.get(nm)
            if want is None or not all(isinstance(v, float) for v in want):
                continue
            for path, what in (("agg", "operate(AGGREGATE, %r, list)" % nm), ("expr", "operate('0+%s')" % nm)):
                if path in rec:
                    got = rec[path]
                    if path == "expr" and not finite([v for v in want if v == v]):
                        continue
                    if not close(got, want):
                        return "%safter the last call: %s reads %s, feature %r was last written %s" % (label, what, got, nm, want)
        return None

    @staticmethod
    def same_obs(a, b):
        return (a["names"] == b["names"] and a["rowlens"] == b["rowlens"] and close(a["cols"], b["cols"])
                and all(close(a[c], b[c]) for c in "XYZT"))

    def spec_(self, case, out):
        if "err" in out:
            # impl() guards every API call of the history and every observation: what is left is the harness's own plumbing
            # (building the fresh track, bookkeeping) - a harness error (the engine reports an oracle crash), never a violation
            raise RuntimeError("harness could not run the history: %s" % out)
        n = case["n"]
        if case["kind"] == "vals":
            msg = self.spec_ops(VTab(n), case["ops"], out["steps"], exp=expected_v)
            return untok_text(msg) if msg else None
        tab = Tab(n)
        if case["kind"] != "carry":
            msg = self.spec_ops(tab, case["ops"], out["steps"])
            if msg:
                return msg
            return self.spec_final(tab, out)
        # ---- a track that receives its table from another one
        msg = self.spec_ops(tab, case["pre"], out["pre"], "source track, ")
        if msg:
            return msg
        c = case["carry"]
        if "carry_err" in out:
            # the derivation itself raised: no track was made, so there is no table the property could speak about (that copy /
            # extract / + must succeed is not part of the statement); the correspondence with the heap model compares the outcome
            return None
        src, first = out["src_pre"], out["first"]
        for what, ob in (("source track", src), ("track derived by %s" % (c[:2],), first)):
            if ob.get("observe_err"):
                return "%s: the track cannot be read (getListAnalyticalFeatures / len(obs.features) / getX..getT): %s" % (what, ob["observe_err"])
        same = c[0] in self.SAME_OBJECT
        sel = self.carry_selection(c, n)
        m = c[1] if c[0] == "plus" else 0
        dt = Tab(len(sel) + m)
        oth = out["other_before"]
        if m and (oth is None or oth["names"] != src["names"]):
            # the operands do not list the same features: the sum lists none, and then its observations must not carry any
            where = "%s of tracks listing %s and %s: " % (c[:2], src["names"], oth["names"] if oth else None)
            if first["names"]:
                return where + "the sum lists %s" % first["names"]
            if any(first["rowlens"]):
                return where + "the sum lists no feature but its observations carry %s values" % first["rowlens"]
            want_names = []
        else:
            want_names = list(src["names"])
        for cn in "XYZT":
            col = [getattr(tab, cn)[k] for k in sel] + ((oth[cn] if oth else []) if m else [])
            setattr(dt, cn, col)
        for nm in want_names:
            if m and not isinstance(oth["cols"].get(nm), list):
                return "second operand of %s: reading its listed feature %r raises %s" % (c[:2], nm, oth["cols"].get(nm))
            dt.cols[nm] = [tab.cols[nm][k] for k in sel] + (oth["cols"][nm] if m else [])
        where = "track derived by %s: " % (c[:2] if c[0] == "plus" else c,)
        if sorted(first["names"]) != sorted(want_names):
            return where + "lists %s, the source lists %s" % (first["names"], want_names)
        if any(l != len(want_names) for l in first["rowlens"]):
            return where + "%d names listed but the observations carry %s values" % (len(want_names), first["rowlens"])
        if len(first["rowlens"]) != dt.n:
            return where + "%d observations, expected %d" % (len(first["rowlens"]), dt.n)
        for nm in want_names:
            if not close(first["cols"][nm], dt.cols[nm]):
                return where + "feature %r reads %s, the source holds %s there" % (nm, first["cols"][nm], dt.cols[nm])
        if first["cells_ok"] is not True:
            return where + "a read path does not return what the column read returns: %s" % (first["cells_ok"],)
        for cn in "XYZT":
            if not close(first[cn], getattr(dt, cn)):
                return where + "%s is %s, expected %s" % (cn, first[cn], getattr(dt, cn))
        msg = self.spec_ops(dt, case["ops"], out["steps"], "derived track, ")
        if msg:
            return msg
        msg = self.spec_final(dt, out, "derived track, ")
        if msg:
            return msg
        if same:
            return None                    # the derived track IS the source track (closed into a ring / one observation appended)
        # feature calls on the derived track are calls on THAT track: the tables of the tracks it was made from stay as they were
        # (coordinates of shared observations may move: that sharing is documented behaviour of slices)
        for label, b4, af in (("source", out["src_before"], out["src_after"]), ("second operand", out["other_before"], out["other_after"])):
            if b4 is None:
                continue
            if label == "source" and not self.same_obs(out["src_pre"], b4):
                return "making the derived track by %s changed the source track: %s -> %s" % (c, out["src_pre"], b4)
            if af["names"] != b4["names"] or any(l != len(af["names"]) for l in af["rowlens"]):
                return "after the calls on the derived track the %s track lists %s and its observations carry %s values (before: %s, %s)" % (
                    label, af["names"], af["rowlens"], b4["names"], b4["rowlens"])
            if c[0] in self.INDEPENDENT and not self.same_obs(b4, af):
                return "after the calls on the track made by %s (its observations are copies) the %s track changed: %s -> %s" % (c[0], label, b4, af)
        if case.get("post") and "post" in out:
            # the source is used again: its own table evolves as if the derived track did not exist, and the derived track does not move
            msg = self.spec_ops(tab, case["post"], out["post"], "source track after %s, " % c[0])
            if msg:
                return msg
            if not self.same_obs(out["derived_before_post"], out["derived_after_post"]):
                return "after the calls on the source track the track made from it by %s (its observations are copies) changed: %s -> %s" % (
                    c[0], out["derived_before_post"], out["derived_after_post"])
        return None

    def classify(self, case, impl_out, msg):
        """two classes, both about tracks that share their Obs objects (known_findings.json): see DESIGN.md Part 0"""
        kind = case.get("kind")
        msg = msg or ""
        if kind == "carry" and case["carry"][0] in ("extract", "slice", "plus") and \
                ("after the calls on the derived track the" in msg):
            return "derived-track-shares-observations"
        if kind == "carry" and case["carry"][0] == "plus" and "the sum lists no feature but" in msg:
            return "sum-of-different-feature-lists"
        return None

    # ---------------------------------------------------------------- shrinking / search
    def shrink(self, case):
        kind = "rand" if case["kind"] == "exh" else case["kind"]
        if case.get("post"):
            yield {k: v for k, v in case.items() if k != "post"}
        for key in (("ops", "pre", "post") if kind == "carry" else ("ops",)):
            ops = case.get(key)
            if ops is None:
                continue
            lo = 0 if (kind == "carry") else 1
            for k in range(len(ops) - 1, lo - 1, -1):
                yield dict(case, kind=kind, **{key: ops[:k]})
            for k in range(len(ops)):
                yield dict(case, kind=kind, **{key: ops[:k] + ops[k + 1:]})

    def mutate(self, case, rng):
        ops = case["ops"]
        if not ops:
            return
        n = case["n"]
        kind = "rand" if case["kind"] == "exh" else case["kind"]
        pool, rich = case.get("pool"), case["kind"] in ("rich", "names")
        if kind == "vals":
            for _ in range(20):
                k = rng.randrange(len(ops))
                yield dict(case, ops=ops[:k] + [self.rand_vop(rng, n)] + ops[k:])
                yield dict(case, ops=ops + [self.rand_vop(rng, n) for _ in range(3)])
            return
        for _ in range(20):
            k = rng.randrange(len(ops))
            yield dict(case, kind=kind, ops=ops[:k] + self.gen_history(rng, n, 1, pool, rich) + ops[k:])
            yield dict(case, kind=kind, ops=ops + self.gen_history(rng, n, 3, pool, rich))
        if kind == "carry" and n >= 1:
            # the same calls on a track made in another way, and the source used again afterwards
            for _ in range(10):
                c2 = self.rand_carry(rng, n, case["pre"], pool or ["a", "b", "c"], False)
                m = {k_: v for k_, v in case.items() if k_ != "post"}
                m["carry"] = c2
                if c2[0] in self.INDEPENDENT:
                    m["post"] = self.gen_history(rng, n, rng.choice([1, 2, 4]), pool, False)
                yield m
