"""C01 — the feature table stays aligned with the observations under any operation history
(tracklib/core/track.py analytical-feature methods, __setitem__, operate; operators.py; utils.addListToAF).

A case is a history of API calls on a fresh track of n observations. After EVERY call the harness
observes the listed names, every column (read through the name), len(obs.features) of every
observation, X/Y/Z/T, the outcome (ok / exception kind) and the returned value, on the real code,
on the Lean model of the code (dict + rows) and on the Lean specification (name -> column).
The oracle (`spec`) keeps, independently of both, "what was last written under each name"."""
import re, json, hashlib, math
import numpy as np
from engine import Prop, fbits, bitsf, close

NAN = float("nan")
RESERVED = ["x", "y", "z", "t", "timestamp", "idx"]


def fv(v):
    """case value -> python float ("nan" encodes NaN)"""
    return NAN if v == "nan" else float(v)


def fl(l):
    return [fv(v) for v in l]


def tokf(v):
    return fbits(fv(v))


def tokl(l):
    return ",".join(tokf(v) for v in l) if l else "_"


def is_nan(v):
    return isinstance(v, float) and v != v


def is_scalar(v):
    """a real scalar: Python int / float / bool or a 0-dimensional numpy number - not a container"""
    return isinstance(v, (int, float, bool, np.integer, np.floating, np.bool_)) and np.ndim(v) == 0


def canon(v):
    """value stored in a feature -> float (or a marker string for something that is not one real scalar)"""
    if not is_scalar(v):
        return "obj:%s" % type(v).__name__
    return float(v)


def finite(l):
    return all(isinstance(v, float) and math.isfinite(v) for v in l)


def close_scaled(a, b):
    """vectors computed through an FFT: tolerance relative to the largest magnitude"""
    if len(a) != len(b) or any(isinstance(v, str) for v in a):
        return False
    if not finite(b):
        return True                        # non-finite inputs: values out of scope (IEEE inf/nan algebra of the FFT)
    m = max([1.0] + [abs(v) for v in b])
    return all(isinstance(x, float) and abs(x - y) <= 1e-9 * m * max(1, len(b)) for x, y in zip(a, b))


# ------------------------------------------------------------------------------------------
# expressions: the harness's own parser (recursive descent, ordinary precedence) -> AST, RPN
# ------------------------------------------------------------------------------------------
TOK = re.compile(r"\s*([A-Za-z#][A-Za-z0-9#]*|\d+|[-+*()=])")


def tokenize(s):
    out, p = [], 0
    s = s.strip()
    while p < len(s):
        m = TOK.match(s, p)
        if not m:
            raise ValueError("bad expression %r" % s)
        out.append(m.group(1))
        p = m.end()
    return out


def parse_expr(s):
    """-> (lhs or None, ast) with ast = ('name', n) | ('num', k) | (op, l, r)"""
    toks = tokenize(s)
    lhs = None
    if "=" in toks:
        assert toks[1] == "=" and toks.count("=") == 1
        lhs, toks = toks[0], toks[2:]
    pos = [0]

    def peek():
        return toks[pos[0]] if pos[0] < len(toks) else None

    def take():
        pos[0] += 1
        return toks[pos[0] - 1]

    def atom():
        t = take()
        if t == "(":
            e = addsub()
            assert take() == ")"
            return e
        if t.isdigit():
            return ("num", int(t))
        return ("name", t)

    def mul():
        e = atom()
        while peek() == "*":
            take()
            e = ("*", e, atom())
        return e

    def addsub():
        e = mul()
        while peek() in ("+", "-"):
            o = take()
            e = (o, e, mul())
        return e
    ast = addsub()
    assert pos[0] == len(toks)
    return lhs, ast


def rpn_of(ast):
    if ast[0] in ("name", "num"):
        return [str(ast[1])]
    return rpn_of(ast[1]) + rpn_of(ast[2]) + [ast[0]]


def expr_rpn(s):
    lhs, ast = parse_expr(s)
    r = rpn_of(ast)
    return ([lhs] + r + ["="]) if lhs is not None else r


def expr_names(s):
    return [t for t in tokenize(s) if not t.isdigit() and t not in "+-*()="]


# ------------------------------------------------------------------------------------------
# the oracle's table: name -> list of floats, plus coordinates
# ------------------------------------------------------------------------------------------
class Tab:
    def __init__(self, n):
        self.n = n
        self.cols = {}
        self.X = [10.0 + i for i in range(n)]
        self.Y = [20.0 + 2 * i for i in range(n)]
        self.Z = [30.0 + 3 * i for i in range(n)]
        self.T = [1000.0 + i for i in range(n)]

    def read(self, name):
        """column read under a name as the documentation defines it (None = no such thing)"""
        if name == "x":
            return list(self.X)
        if name == "y":
            return list(self.Y)
        if name == "z":
            return list(self.Z)
        if name == "t":
            return list(self.T)
        if name == "idx":
            return [float(i) for i in range(self.n)]
        if name in self.cols:
            return list(self.cols[name])
        return None


def init_col(n, kind, val):
    if kind == "s":
        return [fv(val)] * n
    l = fl(val)
    return l[:n] if len(l) >= n else None


def py_add(a, b):
    return a + b


def py_sub(a, b):
    return a - b


def py_mul(a, b):
    return a * b


BOPS = {"add": py_add, "sub": py_sub, "mul": py_mul, "+": py_add, "-": py_sub, "*": py_mul}
SOPS = {"add": py_add, "sub": py_sub, "rsub": lambda a, k: k - a, "mul": py_mul}


def eval_ast(tab, ast):
    """-> ('s', float) | ('c', [floats]) | None when a name is unknown"""
    if ast[0] == "num":
        return ("s", float(ast[1]))
    if ast[0] == "name":
        c = tab.read(ast[1])
        return None if c is None else ("c", c)
    l, r = eval_ast(tab, ast[1]), eval_ast(tab, ast[2])
    if l is None or r is None:
        return None
    f = BOPS[ast[0]]
    if l[0] == "s" and r[0] == "s":
        return ("s", f(l[1], r[1]))
    if l[0] == "c" and r[0] == "c":
        return ("c", [f(a, b) for a, b in zip(l[1], r[1])])
    if l[0] == "c":
        return ("c", [f(a, r[1]) for a in l[1]])
    return ("c", [f(l[1], b) for b in r[1]])


def op_targets(op):
    k = op[0]
    if k in ("create", "update", "setitem", "remove", "setobs", "addaf"):
        return {op[1]}
    if k == "uvoid":
        return {op[3] if op[3] is not None else op[2]}
    if k == "bvoid":
        return {op[4] if op[4] is not None else op[2]}
    if k == "svoid":
        return {op[4] if op[4] is not None else op[2]}
    if k in ("sum", "agg"):
        return set()
    if k == "conv":
        return {op[3] if op[3] is not None else op[1]}
    if k in ("fft", "apply", "shiftc"):
        return {op[3] if op[3] is not None else op[1 if k == "fft" else 2 if k == "apply" else 1]}
    if k == "rev":
        return {op[2] if op[2] is not None else op[1]}
    if k == "expr":
        lhs, _ = parse_expr(op[1])
        return {lhs} if lhs is not None else set()
    raise ValueError(k)


FFT_KERNELS = {1: [2.0], 3: [1.0, 2.0, 1.0]}


def oracle_conv(a, b):
    """|circular cross-correlation|, by the definition (no FFT)"""
    n = len(a)
    return [abs(sum(a[(j + k) % n] * b[j] for j in range(n))) for k in range(n)]


def oracle_fft_filter(g, klen):
    """Filter_FFT with a list kernel, by the definition (no FFT): correlate, flip, roll by D"""
    n = len(g)
    ker = FFT_KERNELS[klen]
    tot = sum(ker)
    h = [v / tot for v in ker] + [0.0] * (n - klen)
    r = [sum(h[(j + k) % n] * g[j] for j in range(n)) for k in range(n)]
    f = r[::-1]
    D = klen // 2
    return [f[(i - D) % n] for i in range(n)]


def expected(tab, op):
    """What a *successful* call must have done, computed directly from the documentation's meaning of the
    call on the name -> column table. Returns None when the oracle has no expectation (unknown input name,
    write to something that is not a feature ...), else a dict with
      cols: {name: column} to write, drop: names to delete, coord: {X|Y|Z: column}, ret: expected return value
    ('-' = not checked)."""
    n = tab.n
    k = op[0]
    e = {"cols": {}, "drop": set(), "coord": {}, "ret": "-", "scaled": False}
    if n == 0:
        return None                        # no observation: nothing can be written
    if k in ("create", "setitem") and op[1] in RESERVED:
        return None
    if k in ("conv", "fft", "apply", "shiftc"):
        out = list(op_targets(op))[0]
        if out in RESERVED:
            return None

        def rd2(name):
            if name == out and out not in tab.cols:
                return [0.0] * n
            return tab.read(name)
        if k == "conv":
            a, b = rd2(op[1]), rd2(op[2])
            if a is None or b is None:
                return None
            c = oracle_conv(a, b) if finite(a) and finite(b) else [NAN] * n
            e["scaled"] = True
        elif k == "fft":
            a = rd2(op[1])
            if a is None or op[2] > n:
                return None
            c = oracle_fft_filter(a, op[2]) if finite(a) else [NAN] * n
            e["scaled"] = True
        elif k == "apply":
            a = rd2(op[2])
            if a is None:
                return None
            c = [v * v for v in a] if op[1] == "square" else [-v for v in a]
        else:
            a = rd2(op[1])
            if a is None:
                return None
            c = [a[(i - op[2]) % n] for i in range(n)]
        e["cols"][out] = c
        e["ret"] = ("c", c)
        return e
    if k == "rev":
        out = list(op_targets(op))[0]
        a = tab.read(op[1])
        if a is None or out in RESERVED:
            return None
        e["cols"][out] = a[::-1]
        return e
    if k == "agg":
        a = tab.read(op[2])
        if a is None:
            return None
        kind = op[1]
        if kind == "min":
            m = 1e300
            for v in a:
                if v < m:
                    m = v
            e["ret"] = ("n", m)
        elif kind == "argmax":
            m, im = -1e300, 0
            for i, v in enumerate(a):
                if v > m:
                    m, im = v, i
            e["ret"] = ("n", float(im))
        elif kind == "zeros":
            e["ret"] = ("c", [float(i) for i, v in enumerate(a) if abs(v) == 0])
        elif kind == "median":
            if finite(a):
                srt = sorted(a)
                e["ret"] = ("n", srt[n // 2] if n % 2 else 0.5 * (srt[n // 2 - 1] + srt[n // 2]))
        elif kind == "len":
            e["ret"] = ("n", float(n))
        elif kind == "equal":
            b = tab.read(op[3])
            if b is None:
                return None
            eq = all((is_nan(p) and is_nan(q)) or p == q for p, q in zip(a, b))
            e["ret"] = ("n", 1.0 if eq else 0.0)
        return e
    if k == "create":
        if op[1] in tab.cols:
            return e                       # creating an existing feature writes nothing
        c = init_col(n, op[2], op[3])
        if c is None:
            return None
        e["cols"][op[1]] = c
        return e
    if k == "update":
        if op[1] not in tab.cols:
            return None
        c = init_col(n, op[2], op[3])
        if c is None:
            return None
        e["cols"][op[1]] = c
        return e
    if k == "setitem":
        c = init_col(n, op[2], op[3])
        if c is None:
            return None
        e["cols"][op[1]] = c
        return e
    if k == "remove":
        if op[1] not in tab.cols:
            return None
        e["drop"].add(op[1])
        return e
    if k == "setobs":
        name, i, v = op[1], op[2], fv(op[3])
        if i >= n:
            return None
        if name in ("x", "y", "z"):
            c = tab.read(name)
            c[i] = v
            e["coord"][name.upper()] = c
            return e
        if name not in tab.cols:
            return None
        c = list(tab.cols[name])
        c[i] = v
        e["cols"][name] = c
        return e
    if k == "addaf":
        name, alg = op[1], op[2]
        if name in RESERVED:
            return None
        cur = list(tab.cols[name]) if name in tab.cols else [0.0] * n
        if alg[0] == "const":
            c = [fv(alg[1])] * n
        elif alg[0] == "affine":
            c = [i * fv(alg[1]) + fv(alg[2]) for i in range(n)]
        elif alg[0] == "nextx":
            c = [(tab.X[i + 1] - tab.X[i]) if i + 1 < n else NAN for i in range(n)]
        elif alg[0] == "feat":
            src = cur if alg[1] == name else tab.read(alg[1])
            if src is None:
                return None
            c = [src[i] + fv(alg[2]) for i in range(n)]
        else:
            raise ValueError(alg)
        e["cols"][name] = c
        e["ret"] = ("c", c)
        return e
    if k in ("uvoid", "bvoid", "svoid"):
        out = list(op_targets(op))[0]
        if out in RESERVED:
            return None

        def rd(name):
            if name == out and out not in tab.cols:
                return [0.0] * n           # the output is created (0.0) before the inputs are read
            return tab.read(name)
        if k == "uvoid":
            a = rd(op[2])
            if a is None:
                return None
            if op[1] == "int":
                c = [0.0] * n
                for i in range(1, n):
                    c[i] = c[i - 1] + a[i]
            else:
                c = [NAN] + [a[i] - a[i - 1] for i in range(1, n)]
        elif k == "bvoid":
            a, b = rd(op[2]), rd(op[3])
            if a is None or b is None:
                return None
            c = [BOPS[op[1]](p, q) for p, q in zip(a, b)]
        else:
            a = rd(op[2])
            if a is None:
                return None
            c = [SOPS[op[1]](p, fv(op[3])) for p in a]
        e["cols"][out] = c
        e["ret"] = ("c", c)
        return e
    if k == "sum":
        a = tab.read(op[1])
        if a is None:
            return None
        s = 0.0
        for v in a:
            if not is_nan(v):
                s += v
        e["ret"] = ("n", s)
        return e
    if k == "expr":
        lhs, ast = parse_expr(op[1])
        if any(nm.startswith("#") for nm in expr_names(op[1])):
            return None                    # '#' names belong to the evaluator
        v = eval_ast(tab, ast)
        if v is None:
            return None
        col = v[1] if v[0] == "c" else [v[1]] * n
        e["drop"] = {nm for nm in tab.cols if nm.startswith("#")}
        if lhs is None:
            e["ret"] = ("c", col)
            return e
        if lhs in ("x", "y", "z"):
            e["coord"][lhs.upper()] = col    # a number is written at every observation (fix 144a468)
            return e
        if lhs in RESERVED:
            return None
        e["cols"][lhs] = col
        return e
    raise ValueError(k)


def sim_names(case):
    """rough replay of the listed names (for tagging only): list of (op index, names before, names after)"""
    names, out = [], []
    for op in case["ops"]:
        before = list(names)
        k = op[0]
        tg = [t for t in op_targets(op) if t not in RESERVED]
        if k == "remove":
            names = [x for x in names if x != op[1]]
        elif k in ("create", "setitem", "addaf", "uvoid", "bvoid", "svoid", "conv", "fft", "apply", "shiftc", "rev"):
            for t in tg:
                if t not in names:
                    names.append(t)
        elif k == "expr":
            for t in tg:
                names = [x for x in names if x != t] + [t]
            names = [x for x in names if not x.startswith("#")]
        out.append((before, list(names)))
    return out


class P(Prop):
    id = "C01"
    design_ref = "DESIGN.md section 5, C01"
    theorems = [
        ("TracklibVerif.Props.C01", "TV.C01.inv_fresh", "a fresh track is aligned"),
        ("TracklibVerif.Props.C01", "TV.C01.inv_step", "every API call (returning or raising) keeps the table aligned: one value per listed name in every observation, distinct names, dict = enumeration of the names"),
        ("TracklibVerif.Props.C01", "TV.C01.step_refines", "on an aligned table every API call does exactly what it does on the name -> column specification table (same outcome, corresponding tables)"),
        ("TracklibVerif.Props.C01", "TV.C01.history_aligned", "every state along every finite history is aligned"),
        ("TracklibVerif.Props.C01", "TV.C01.history_refines", "along every finite history outcomes equal the specification's and the tables correspond after every call"),
        ("TracklibVerif.Props.C01", "TV.C01.run_refines", "the final state of every finite history is aligned and corresponds to the specification's"),
        ("TracklibVerif.Props.C01", "TV.C01.aligned_reads", "on an aligned table every row has one value per listed name, names are distinct, every listed name reads as a full column"),
        ("TracklibVerif.Props.C01", "TV.C01.read_after_create", "create of a new name returns; the name reads as the initial values (scalar broadcast / list); every other name reads as before"),
        ("TracklibVerif.Props.C01", "TV.C01.create_existing_noop", "creating an already listed name changes nothing"),
        ("TracklibVerif.Props.C01", "TV.C01.read_after_update", "update of a listed name returns; the name reads as the new values; every other name reads as before"),
        ("TracklibVerif.Props.C01", "TV.C01.read_after_setObs", "writing one cell changes that cell only"),
        ("TracklibVerif.Props.C01", "TV.C01.read_after_remove", "deleting a listed feature (any column position) unlists it and leaves what is read under every other name unchanged"),
        ("TracklibVerif.Props.C01", "TV.C01.prims_keep_coords", "create/update/remove/setObs on a feature name never touch X, Y, Z, T"),
        ("TracklibVerif.Props.C01", "TV.C01.step_frame", "no side effects: for every API call (operators, operate(str) on any RPN; returning or raising) a name it does not designate - feature, x, y, z, t or idx - reads as before and stays listed/unlisted"),
        ("TracklibVerif.Props.C01", "TV.C01.sum_keeps_table", "the non-void aggregate SUM leaves the whole table as it was"),
        ("TracklibVerif.Props.C01", "TV.C01.binaryVoid_read_back", "when ADDER/SUBSTRACTER/MULTIPLIER returns temp, the output feature reads exactly temp (created or overwritten, even if it is also an input)"),
        ("TracklibVerif.Props.C01", "TV.C01.scalarVoid_read_back", "the same for SCALAR_ADDER/SCALAR_SUBSTRACTER/SCALAR_REV_SUBSTRACTER/SCALAR_MULTIPLIER"),
        ("TracklibVerif.Props.C01", "TV.C01.unaryVoid_read_back", "the same for INTEGRATOR/DIFFERENTIATOR"),
        ("TracklibVerif.Props.C01", "TV.C01.no_temporaries", "after operate(str) no listed name starts with '#', whether evaluation returned or raised"),
    ]
    partial = []
    open_statements = [
        "values: WHICH numbers an operator or an expression computes (a+b, running sums, NaN propagation, precedence) is not stated here - "
        "the theorems say where they are written and that nothing else moves; expression values are property C02's; here they are covered by the "
        "correspondence (model at Float = same IEEE operations) and by the oracle's direct recomputation",
        "read-back of the result of an '=' expression under its left-hand side is proved only through the refinement (the specification table runs the "
        "same stack machine), not as a closed formula",
        "list initialisers shorter than the track (Python raises IndexError mid-way and leaves a misaligned table) are outside OpOK: "
        "mirrored by the model, compared in the 'malformed' stream, not covered by the theorems or the oracle",
        "assignment to 't', 'timestamp' as an operand, operators / ^ @ & $ < > % ! in expressions, and tables that are already misaligned are outside the model",
    ]
    # Python leaves a misaligned table when a list initialiser is shorter than the track. DESIGN.md section 5 C01 declares
    # this out of the property's domain; set to True to have the oracle report it (class "short-list-initialiser").
    SHORT_LIST_IS_FINDING = False
    modelled = ("Track.createAnalyticalFeature / updateAnalyticalFeature / removeAnalyticalFeature / getAnalyticalFeature / "
                "getObsAnalyticalFeature / setObsAnalyticalFeature / hasAnalyticalFeature / addAnalyticalFeature / __setitem__ / "
                "setX|Y|ZFromAnalyticalFeature / operate (operator objects and str) / __applyOperation (= + - *) / __evaluateRPN / "
                "__evaluate (on the RPN token list) of core/track.py; utils.addListToAF; Integrator, Differentiator, Adder, "
                "Substracter, Multiplier, ScalarAdder, ScalarSubstracter, ScalarRevSubstracter, ScalarMuliplier, Sum, Reverser of core/operators.py; "
                "table effect only (values opaque) of Convolution, Filter_FFT, Apply / Square / Inverter, ShiftCircular and of the non-void "
                "Min, Argmax, Zeros, Median, Aggregate, Equal")
    trusted = ["operators with opaque values (CONVOLUTION, FILTER_FFT - numpy results -, SQUARE, INVERTER, SHIFT_CIRCULAR): the model is handed the list the "
               "implementation returned and models where it is written; the oracle recomputes the values from the operator's definition (direct sums, no FFT) "
               "and checks that every stored cell is one real scalar",
               "the expression parser (string preprocessing + makeRPN) is property C02's: the model receives the RPN token list computed by "
               "the harness's own recursive-descent parser, so a parser defect shows up here as a disagreement",
               "addAnalyticalFeature: the model writes through the name at every index (Python hoists the index lookup); the algorithms used are read-only",
               "out of the model (never generated): 'timestamp' as an operand, assignment to 't', operators other than = + - * in expressions, empty names"]
    rule = ("histories of API calls over the names a b c #0 #u (+ reserved and unknown names) on tracks of 1..4 observations, values small integers (as floats) and NaN; "
            "every history over a 33-call alphabet to depth 3 (thorough: 4) on a 2-observation track, random histories to depth 40; "
            "operator objects of every family (unary / binary / scalar void incl. numpy-valued results, bracket-writing REVERSER, non-void aggregates), "
            "expressions incl. self-assignment (n=n, n=n+0, x=x) and a number assigned to a coordinate (y=4, x=1+2); a call that raises although all its operands exist and it is well formed is a failure; "
            "non-trivial = the history deletes (remove, '#DELETE' or re-assignment by an expression) a column that is not the last one while other features are listed")

    # ---------------------------------------------------------------- setup
    def setup(self):
        from tracklib.core.obs import Obs
        from tracklib.core.obs_time import ObsTime
        from tracklib.core.obs_coords import ENUCoords
        from tracklib.core.track import Track
        from tracklib.core.operators import Operator
        self.Obs, self.ObsTime, self.ENU, self.Track, self.Operator = Obs, ObsTime, ENUCoords, Track, Operator
        self.UOPS = {"int": Operator.INTEGRATOR, "dif": Operator.DIFFERENTIATOR}
        self.BOPS = {"add": Operator.ADDER, "sub": Operator.SUBSTRACTER, "mul": Operator.MULTIPLIER}
        self.SOPS = {"add": Operator.SCALAR_ADDER, "sub": Operator.SCALAR_SUBSTRACTER,
                     "rsub": Operator.SCALAR_REV_SUBSTRACTER, "mul": Operator.SCALAR_MULTIPLIER}

    # ---------------------------------------------------------------- generators
    ALPHABET = [
        ["create", "a", "s", 5], ["create", "a", "l", [1, 2]], ["create", "b", "s", 7], ["create", "#0", "s", 9],
        ["remove", "a", "m"], ["remove", "b", "b"], ["remove", "c", "m"],
        ["update", "a", "l", [3, 4]], ["setitem", "b", "l", [6, 8]], ["setitem", "c", "s", 2],
        ["setobs", "a", 1, -1, "m"], ["setobs", "x", 0, 99, "b"],
        ["uvoid", "dif", "a", None], ["uvoid", "int", "a", "b"],
        ["bvoid", "add", "a", "b", "c"], ["bvoid", "mul", "a", "b", None], ["svoid", "add", "a", 3, "#0"],
        ["sum", "a"],
        ["expr", "c=a+b", "m"], ["expr", "a=a*2", "m"], ["expr", "a+b", "g"], ["expr", "x=a", "m"], ["expr", "b=3", "m"],
        ["expr", "c=a*2+nosuch", "m"], ["expr", "a=b", "m"], ["expr", "c=a*2+b*3", "m"],
        ["addaf", "a", ["affine", 2, 1], "m"], ["create", "x", "s", 1],
        ["expr", "a=a", "m"], ["conv", "a", "b", "c"], ["fft", "a", 1, None], ["rev", "a", "b"],
        ["expr", "y=4", "m"],
    ]

    def exhaustive_scopes(self, tier):
        d = 4 if tier == "thorough" else 3
        return ["every history of length %d over the %d-call alphabet P.ALPHABET on a track of 2 observations (%d histories, observed after every call)"
                % (d, len(self.ALPHABET), len(self.ALPHABET) ** d)]

    NAMES = ["a", "b", "c", "#0", "#u"]

    def rand_name(self, rng, out=False):
        r = rng.random()
        if r < 0.86:
            return rng.choice(self.NAMES[:3] if rng.random() < 0.75 else self.NAMES)
        if r < 0.94:
            return rng.choice(["x", "y", "z", "idx"] if not out else ["x", "y", "z", "t", "timestamp", "idx"])
        return "zz"

    def rand_in(self, rng):
        r = rng.random()
        if r < 0.8:
            return rng.choice(self.NAMES[:3] if rng.random() < 0.8 else self.NAMES)
        if r < 0.95:
            return rng.choice(["x", "y", "z", "t", "idx"])
        return "zz"

    def rand_val(self, rng):
        return "nan" if rng.random() < 0.06 else rng.randrange(-9, 10)

    def rand_init(self, rng, n):
        if rng.random() < 0.5:
            return ["s", self.rand_val(rng)]
        extra = rng.choice([0, 0, 0, 1])
        return ["l", [self.rand_val(rng) for _ in range(n + extra)]]

    def rand_expr(self, rng):
        def operand():
            r = rng.random()
            if r < 0.62:
                return rng.choice(["a", "b", "c"])
            if r < 0.77:
                return str(rng.randrange(0, 5))
            if r < 0.92:
                return rng.choice(["x", "y", "z", "t", "idx"])
            return "nosuch"

        def term():
            r = rng.random()
            if r < 0.55:
                return operand()
            if r < 0.85:
                return operand() + "*" + operand()
            return "(" + operand() + rng.choice("+-") + operand() + ")*" + operand()
        if rng.random() < 0.08:
            nm = rng.choice(["a", "b", "c", "x", "y", "z"])
            return nm + "=" + rng.choice([nm, nm + "+0", nm + "*1", "0+" + nm, "(" + nm + ")"])
        if rng.random() < 0.04:
            # a coordinate (or a feature) assigned a right-hand side that folds to a number
            k = str(rng.randrange(0, 5))
            return rng.choice(["x", "y", "z", "x", "y", "z", "a", "t"]) + "=" + rng.choice([k, k + "+2", "2*" + k, "(" + k + "-1)*3"])
        k = rng.choice([1, 1, 2, 2, 3])
        s = term()
        for _ in range(k - 1):
            s += rng.choice("+-") + term()
        r = rng.random()
        if r < 0.7:
            lhs = rng.choice(["a", "b", "c"])
        elif r < 0.8:
            lhs = rng.choice(["x", "y", "z", "idx"])
        else:
            return s
        return lhs + "=" + s

    def rand_op(self, rng, n):
        r = rng.random()
        if r < 0.16:
            return ["create", self.rand_name(rng, True)] + self.rand_init(rng, n)
        if r < 0.23:
            return ["update", self.rand_name(rng, True)] + self.rand_init(rng, n)
        if r < 0.33:
            return ["setitem", self.rand_name(rng, True)] + self.rand_init(rng, n)
        if r < 0.47:
            return ["remove", self.rand_name(rng, True), rng.choice("mb")]
        if r < 0.55:
            i = rng.randrange(0, n) if (n > 0 and rng.random() < 0.93) else n
            return ["setobs", self.rand_name(rng, True), i, self.rand_val(rng), rng.choice("mbr")]
        if r < 0.61:
            alg = rng.choice([["const", self.rand_val(rng)], ["affine", rng.randrange(-3, 4), rng.randrange(-3, 4)],
                              ["nextx"], ["feat", self.rand_in(rng), rng.randrange(-3, 4)]])
            name = self.rand_name(rng, True)
            return ["addaf", name, alg, "m" if name in ("x", "y", "z") else rng.choice("mb")]
        if r < 0.67:
            return ["uvoid", rng.choice(["int", "dif"]), self.rand_in(rng), rng.choice([None, self.rand_name(rng, True)])]
        if r < 0.74:
            return ["bvoid", rng.choice(["add", "sub", "mul"]), self.rand_in(rng), self.rand_in(rng),
                    rng.choice([None, self.rand_name(rng, True), self.rand_name(rng, True)])]
        if r < 0.80:
            return ["svoid", rng.choice(["add", "sub", "rsub", "mul"]), self.rand_in(rng), self.rand_val(rng),
                    rng.choice([None, self.rand_name(rng, True), self.rand_name(rng, True)])]
        if r < 0.82:
            return ["sum", self.rand_in(rng)]
        if r < 0.875 and n > 0:
            q = rng.random()
            out = rng.choice([None, self.rand_name(rng, True), self.rand_name(rng, True)])
            if q < 0.25:
                return ["conv", self.rand_in(rng), self.rand_in(rng), out]
            if q < 0.45:
                return ["fft", self.rand_in(rng), 3 if (n >= 3 and rng.random() < 0.6) else 1, out]
            if q < 0.6:
                return ["apply", rng.choice(["square", "neg"]), self.rand_in(rng), out]
            if q < 0.7:
                return ["shiftc", self.rand_in(rng), rng.randrange(-2, 4), out]
            if q < 0.82:
                return ["rev", self.rand_in(rng), out]
            kind = rng.choice(["min", "argmax", "zeros", "median", "len", "equal"])
            if kind == "equal":
                return ["agg", kind, self.rand_in(rng), self.rand_in(rng)]
            return ["agg", kind, self.rand_in(rng)]
        s = self.rand_expr(rng)
        # track["…"] is routed to operate() only when the string contains an operator character
        return ["expr", s, rng.choice("mmg") if any(ch in s for ch in "+-*()=") else "m"]

    def cases(self, rng, tier):
        out = []
        A = self.ALPHABET
        d = 4 if tier == "thorough" else 3

        def rec(prefix, k):
            if k == 0:
                out.append({"kind": "exh", "n": 2, "ops": prefix})
                return
            for op in A:
                rec(prefix + [op], k - 1)
        rec([], d)
        nrand = 4000 if tier == "quick" else 60000
        for _ in range(nrand):
            n = rng.choice([1, 2, 2, 3, 3, 4])
            depth = rng.choice([3, 6, 10, 20, 40])
            out.append({"kind": "rand", "n": n, "ops": [self.rand_op(rng, n) for _ in range(depth)]})
        # malformed stream: a list initialiser shorter than the track, as the LAST call (Python raises mid-way
        # and leaves a misaligned table: outside the property's domain, correspondence only)
        for _ in range(300 if tier == "quick" else 3000):
            n = rng.choice([2, 3, 4])
            depth = rng.choice([0, 2, 5])
            ops = [self.rand_op(rng, n) for _ in range(depth)]
            short = [self.rand_val(rng) for _ in range(rng.randrange(0, n))]
            ops.append([rng.choice(["create", "update", "setitem"]), rng.choice(["a", "b", "c"]), "l", short])
            out.append({"kind": "malformed", "n": n, "ops": ops})
        # empty track
        for _ in range(100 if tier == "quick" else 1000):
            out.append({"kind": "empty", "n": 0, "ops": [self.rand_op(rng, 0) for _ in range(rng.choice([1, 3, 6]))]})
        return out

    def describe(self, case):
        t = {"kind": case["kind"], "n": case["n"], "depth": len(case["ops"])}
        if case["kind"] == "rand":
            for op in case["ops"][:1]:
                t["first_op"] = op[0]
        return t

    def nontrivial(self, case):
        for op, (before, after) in zip(case["ops"], sim_names(case)):
            gone = [x for x in before if x not in after]
            if op[0] == "expr":
                tg = [t for t in op_targets(op) if t in before]
                gone += tg
            for g in gone:
                if g in before and before.index(g) < len(before) - 1:
                    return True
        return False

    # ---------------------------------------------------------------- implementation
    def mk_track(self, n):
        t = self.Track([], 1)
        for i in range(n):
            t.addObs(self.Obs(self.ENU(10.0 + i, 20.0 + 2 * i, 30.0 + 3 * i), self.ObsTime.readUnixTime(1000 + i)))
        return t

    def mk_init(self, kind, val):
        return fv(val) if kind == "s" else fl(val)

    def mk_algo(self, alg):
        if alg[0] == "const":
            v = fv(alg[1])
            return lambda t, i: v
        if alg[0] == "affine":
            k, c = fv(alg[1]), fv(alg[2])
            return lambda t, i: i * k + c
        if alg[0] == "nextx":
            return lambda t, i: t.getObsAnalyticalFeature("x", i + 1) - t.getObsAnalyticalFeature("x", i)
        if alg[0] == "feat":
            src, k = alg[1], fv(alg[2])
            return lambda t, i: t.getObsAnalyticalFeature(src, i) + k
        raise ValueError(alg)

    def call(self, t, op):
        k = op[0]
        if k == "create":
            return t.createAnalyticalFeature(op[1], self.mk_init(op[2], op[3]))
        if k == "update":
            return t.updateAnalyticalFeature(op[1], self.mk_init(op[2], op[3]))
        if k == "setitem":
            t[op[1]] = self.mk_init(op[2], op[3])
            return None
        if k == "remove":
            if op[2] == "b":
                t[op[1]] = "#DELETE"
                return None
            return t.removeAnalyticalFeature(op[1])
        if k == "setobs":
            v = fv(op[3])
            if op[4] == "b":
                t[op[1], op[2]] = v
            elif op[4] == "r":
                t[op[2], op[1]] = v
            else:
                t.setObsAnalyticalFeature(op[1], op[2], v)
            return None
        if k == "addaf":
            f = self.mk_algo(op[2])
            if op[3] == "b":
                t[op[1]] = f
                return "-"
            return t.addAnalyticalFeature(f, op[1])
        if k == "uvoid":
            if op[3] is None:
                return t.operate(self.UOPS[op[1]], op[2])
            return t.operate(self.UOPS[op[1]], op[2], op[3])
        if k == "bvoid":
            if op[4] is None:
                return t.operate(self.BOPS[op[1]], op[2], op[3])
            return t.operate(self.BOPS[op[1]], op[2], op[3], op[4])
        if k == "svoid":
            if op[4] is None:
                return t.operate(self.SOPS[op[1]], op[2], fv(op[3]))
            return t.operate(self.SOPS[op[1]], op[2], fv(op[3]), op[4])
        if k == "sum":
            return t.operate(self.Operator.SUM, op[1])
        O = self.Operator
        if k == "conv":
            return t.operate(O.CONVOLUTION, op[1], op[2]) if op[3] is None else t.operate(O.CONVOLUTION, op[1], op[2], op[3])
        if k == "fft":
            ker = list(FFT_KERNELS[op[2]])
            return t.operate(O.FILTER_FFT, op[1], ker) if op[3] is None else t.operate(O.FILTER_FFT, op[1], ker, op[3])
        if k == "apply":
            o = O.SQUARE if op[1] == "square" else O.INVERTER
            return t.operate(o, op[2]) if op[3] is None else t.operate(o, op[2], op[3])
        if k == "shiftc":
            return t.operate(O.SHIFT_CIRCULAR, op[1], op[2]) if op[3] is None else t.operate(O.SHIFT_CIRCULAR, op[1], op[2], op[3])
        if k == "rev":
            return t.operate(O.REVERSER, op[1]) if op[2] is None else t.operate(O.REVERSER, op[1], op[2])
        if k == "agg":
            kind = op[1]
            if kind == "len":
                return t.operate(O.AGGREGATE, op[2], len)
            if kind == "equal":
                return t.operate(O.EQUAL, op[2], op[3])
            return t.operate({"min": O.MIN, "argmax": O.ARGMAX, "zeros": O.ZEROS, "median": O.MEDIAN}[kind], op[2])
        if k == "expr":
            if op[2] == "g":
                return t[op[1]]
            return t.operate(op[1])
        raise ValueError(k)

    @staticmethod
    def err_of(e):
        nm = type(e).__name__
        msg = str(e)
        if nm == "AnalyticalFeatureError":
            if "is not available" in msg:
                return "err:reserved"
            if "no observation" in msg:
                return "err:empty"
            if "does not contain" in msg:
                return "err:unknown"
            return "err:af"
        return {"KeyError": "err:key", "IndexError": "err:index", "ValueError": "err:value", "TypeError": "err:type",
                "SystemExit": "err:exit"}.get(nm, "err:" + nm)

    def observe(self, t):
        names = list(t.getListAnalyticalFeatures())
        cols = {}
        cells_ok = True
        for nm in names:
            try:
                c = [canon(v) for v in t.getAnalyticalFeature(nm)]
                cols[nm] = c
                for i in range(len(c)):
                    if not close(canon(t.getObsAnalyticalFeature(nm, i)), c[i]) or not close(canon(t[nm, i]), c[i]):
                        cells_ok = False
            except BaseException as e:
                cols[nm] = self.err_of(e)
        bad = []
        for i, o in enumerate(t.getObsList()):
            for j, v in enumerate(o.features):
                if not is_scalar(v) and len(bad) < 3:
                    bad.append([i, j, type(v).__name__])
        return {"names": names, "cols": cols, "rowlens": [len(o.features) for o in t.getObsList()], "bad_cells": bad,
                "X": [canon(v) for v in t.getX()], "Y": [canon(v) for v in t.getY()], "Z": [canon(v) for v in t.getZ()],
                "T": [canon(v) for v in t.getT()], "cells_ok": cells_ok}

    def impl(self, case):
        t = self.mk_track(case["n"])
        steps = []
        for op in case["ops"]:
            try:
                r = self.call(t, op)
                out = "ok"
                if r is None or isinstance(r, str):
                    ret = "-"
                elif isinstance(r, (list, tuple, np.ndarray)):
                    ret = ["c", [canon(v) for v in r]]
                else:
                    ret = ["n", canon(r)]
            except BaseException as e:
                if isinstance(e, KeyboardInterrupt):
                    raise
                out, ret = self.err_of(e), "-"
            ob = self.observe(t)
            ob["out"], ob["ret"] = out, ret
            steps.append(ob)
        res = {"steps": steps}
        if any(op[0] in self.OPAQUE for op in case["ops"]):
            if len(self._impl_cache) > 2000:
                self._impl_cache.clear()
            self._impl_cache[self.ckey(case)] = res
        return res

    # operators whose values the model does not compute: the values written are taken from what the implementation returned
    OPAQUE = ("conv", "fft", "apply", "shiftc")
    _impl_cache = {}

    @staticmethod
    def ckey(case):
        return hashlib.sha1(json.dumps(case, sort_keys=True).encode()).hexdigest()

    def opaque_vals(self, case):
        """per step: the list returned by the implementation for an opaque operator ([] when it raised / returned junk)"""
        key = self.ckey(case)
        res = self._impl_cache.get(key)
        if res is None:
            from engine import _Silence
            with _Silence():
                res = self.impl(case)
        out = {}
        for k, (op, st) in enumerate(zip(case["ops"], res["steps"])):
            if op[0] in self.OPAQUE:
                r = st["ret"]
                ok = st["out"] == "ok" and r != "-" and r[0] == "c" and all(isinstance(v, float) for v in r[1])
                out[k] = r[1] if ok else []
        return out

    # ---------------------------------------------------------------- model
    def op_token(self, op, vals=None):
        k = op[0]
        if k in self.OPAQUE:
            out = list(op_targets(op))[0]
            cols = {"conv": [op[1], op[2]], "fft": [op[1]]}.get(k, [])
            cells = {"apply": [op[2]], "shiftc": [op[1]]}.get(k, [])
            return "opq:%s:%s:%s:%s" % (",".join(cols) or "_", ",".join(cells) or "_", out,
                                        ",".join(fbits(v) for v in vals) if vals else "_")
        if k == "rev":
            return "rev:%s:%s" % (op[1], op[2] or "")
        if k == "agg":
            if op[1] == "median":
                return "probe:%s:_" % op[2]
            return "probe:_:%s" % ",".join(op[2:])
        if k in ("create", "update", "setitem"):
            return "%s:%s:%s:%s" % (k, op[1], op[2], tokf(op[3]) if op[2] == "s" else tokl(op[3]))
        if k == "remove":
            return "remove:%s" % op[1]
        if k == "setobs":
            return "setobs:%s:%d:%s" % (op[1], op[2], tokf(op[3]))
        if k == "addaf":
            alg = op[2]
            if alg[0] == "const":
                return "addaf:%s:const:%s" % (op[1], tokf(alg[1]))
            if alg[0] == "affine":
                return "addaf:%s:affine:%s:%s" % (op[1], tokf(alg[1]), tokf(alg[2]))
            if alg[0] == "nextx":
                return "addaf:%s:nextx" % op[1]
            return "addaf:%s:feat:%s:%s" % (op[1], alg[1], tokf(alg[2]))
        if k == "uvoid":
            return "uvoid:%s:%s:%s" % (op[1], op[2], op[3] or "")
        if k == "bvoid":
            return "bvoid:%s:%s:%s:%s" % (op[1], op[2], op[3], op[4] or "")
        if k == "svoid":
            return "svoid:%s:%s:%s:%s" % (op[1], op[2], tokf(op[3]), op[4] or "")
        if k == "sum":
            return "sum:%s" % op[1]
        if k == "expr":
            return "expr:" + ",".join(expr_rpn(op[1]))
        raise ValueError(k)

    def requests(self, case):
        if not case["ops"]:
            return []
        tb = Tab(case["n"])
        head = " ".join(tokl(c) for c in (tb.X, tb.Y, tb.Z, tb.T))
        ov = self.opaque_vals(case) if any(op[0] in self.OPAQUE for op in case["ops"]) else {}
        body = " ".join(self.op_token(op, ov.get(k)) for k, op in enumerate(case["ops"]))
        return ["C01.run %s %s" % (head, body), "C01.arun %s %s" % (head, body)]

    @staticmethod
    def parse_block(b):
        f = b.split("~")
        if len(f) != 9:
            raise ValueError("bad block %r" % b[:80])

        def floats(s):
            return [] if s == "_" else [bitsf(x) for x in s.split(",")]
        names = [] if f[2] == "_" else f[2].split(",")
        colstr = [] if f[3] == "_" else f[3].split(";")
        if len(names) == 1 and f[3] == "_":
            colstr = ["_"]
        cols = {}
        for nm, cs in zip(names, colstr):
            cols[nm] = cs if cs.startswith("err") or cs == "unsupported" else floats(cs)
        if f[1] == "-":
            ret = "-"
        elif f[1][0] == "n":
            ret = ["n", bitsf(f[1][1:])]
        else:
            ret = ["c", floats(f[1][1:])]
        return {"out": f[0], "ret": ret, "names": names, "cols": cols,
                "rowlens": [] if f[4] == "_" else [int(x) for x in f[4].split(",")],
                "X": floats(f[5]), "Y": floats(f[6]), "Z": floats(f[7]), "T": floats(f[8])}

    def decode(self, case, replies):
        if not case["ops"]:
            return {"steps": [], "asteps": []}
        for r in replies:
            if r == "bad-request":
                raise ValueError("driver refused the request")
        return {"steps": [self.parse_block(b) for b in replies[0].split(" ")],
                "asteps": [self.parse_block(b) for b in replies[1].split(" ")]}

    @staticmethod
    def same_ret(op, a, b):
        """a = implementation's, b = model's; '-' = None / nothing returned"""
        if op[0] == "addaf" and op[3] == "b":
            return True                    # bracket assignment returns nothing
        if op[0] == "agg":
            return True                    # value of a non-void operator: outside the model, checked by the oracle
        if a == "-" or b == "-":
            return a == b
        return a[0] == b[0] and close(a[1], b[1])

    def diff_step(self, op, si, sm, with_rows=True):
        if si["out"] != sm["out"]:
            return "outcome impl=%s model=%s" % (si["out"], sm["out"])
        if si["out"] == "ok" and not self.same_ret(op, si["ret"], sm["ret"]):
            return "returned value impl=%s model=%s" % (si["ret"], sm["ret"])
        if sorted(si["names"]) != sorted(sm["names"]):
            return "names impl=%s model=%s" % (si["names"], sm["names"])
        for nm in si["names"]:
            if not close(si["cols"][nm], sm["cols"][nm]):
                return "column %s impl=%s model=%s" % (nm, si["cols"][nm], sm["cols"][nm])
        if with_rows and si["rowlens"] != sm["rowlens"]:
            return "len(features) impl=%s model=%s" % (si["rowlens"], sm["rowlens"])
        for c in "XYZT":
            if not close(si[c], sm[c]):
                return "%s impl=%s model=%s" % (c, si[c], sm[c])
        return None

    def compare(self, case, impl_out, model_out):
        if "err" in impl_out:
            return "implementation harness raised %s" % impl_out
        ops = case["ops"]
        if not (len(impl_out["steps"]) == len(model_out["steps"]) == len(model_out["asteps"]) == len(ops)):
            return "number of steps differs"
        for k, op in enumerate(ops):
            d = self.diff_step(op, impl_out["steps"][k], model_out["steps"][k])
            if d:
                return "step %d %s: %s" % (k, op, d)
            if case["kind"] == "malformed" and k == len(ops) - 1:
                continue                   # the specification table does not describe a misaligned table
            d = self.diff_step(op, impl_out["steps"][k], model_out["asteps"][k], with_rows=True)
            if d:
                return "step %d %s (specification table): %s" % (k, op, d)
        return None

    # ---------------------------------------------------------------- oracle (transfer)
    def spec(self, case, out):
        if "err" in out:
            return "harness could not run the history: %s" % out
        n = case["n"]
        tab = Tab(n)
        ops = case["ops"]
        for k, op in enumerate(ops):
            if case["kind"] == "malformed" and k == len(ops) - 1:
                if self.SHORT_LIST_IS_FINDING:
                    ob = out["steps"][k]
                    if any(l != len(ob["names"]) for l in ob["rowlens"]):
                        return "after call %d %s (%s): %d names listed but the observations carry %s values" % (
                            k, op, ob["out"], len(ob["names"]), ob["rowlens"])
                return None                # list initialiser shorter than the track: outside the property's domain
            ob = out["steps"][k]
            where = "after call %d %s (%s): " % (k, op, ob["out"])
            names = ob["names"]
            # every observation carries exactly one value per listed name
            if len(set(names)) != len(names):
                return where + "a name is listed twice: %s" % names
            if any(l != len(names) for l in ob["rowlens"]):
                return where + "%d names listed %s but the observations carry %s values" % (len(names), names, ob["rowlens"])
            for nm in names:
                c = ob["cols"][nm]
                if isinstance(c, str):
                    return where + "reading the listed feature %r raises %s" % (nm, c)
                if len(c) != n:
                    return where + "feature %r reads %d values on a track of %d" % (nm, len(c), n)
            if not ob["cells_ok"]:
                return where + "reading a feature cell by cell differs from reading the column"
            if op[0] == "expr" and any(nm.startswith("#") for nm in names):
                return where + "evaluator temporaries remain listed: %s" % [nm for nm in names if nm.startswith("#")]
            if ob["bad_cells"]:
                i, j, ty = ob["bad_cells"][0]
                return where + "observation %d stores a %s in feature column %d: not one value per listed feature" % (i, ty, j)
            tg = op_targets(op)
            hashy = op[0] == "expr"
            e = expected(tab, op)
            if e is not None and ob["out"] != "ok":
                lost = [nm for nm in tg if nm in tab.cols and nm not in names]
                return where + "the call raised although every operand exists and the call is well formed (expected to write %s)%s" % (
                    {k_: v for k_, v in list(e["cols"].items()) + list(e["coord"].items())} or "nothing",
                    "; feature %s is no longer listed: its values are lost" % lost if lost else "")
            if e is not None:
                for nm, c in e["cols"].items():
                    if e["scaled"]:
                        got = ob["cols"].get(nm)
                        if not isinstance(got, list) or not close_scaled(got, c):
                            return where + "feature %r reads %s, the operator's definition gives %s" % (nm, got, c)
                        c = got            # keep the stored (rounded) values for the next calls
                    tab.cols[nm] = c
                for nm in e["drop"]:
                    tab.cols.pop(nm, None)
                for cn, c in e["coord"].items():
                    setattr(tab, cn, c)
                if e["ret"] != "-":
                    r = ob["ret"]
                    if not (op[0] == "addaf" and op[3] == "b"):
                        good = r != "-" and r[0] == e["ret"][0] and (
                            close_scaled(r[1], e["ret"][1]) if e["scaled"] else close(r[1], e["ret"][1]))
                        if not good:
                            return where + "returned %s, expected %s" % (r, e["ret"])
                free = set()
            else:
                # failed call, or a call the oracle has no expectation for: only its target may have changed
                free = set(tg)
                if hashy:
                    for nm in list(tab.cols):
                        if nm.startswith("#"):
                            del tab.cols[nm]
                for nm in free:
                    if nm in ("x", "y", "z"):
                        setattr(tab, nm.upper(), ob[nm.upper()])
                    elif nm in names:
                        tab.cols[nm] = ob["cols"][nm]
                    else:
                        tab.cols.pop(nm, None)
            # reading a name returns what was last written under it; nothing else changed
            if sorted(names) != sorted(tab.cols):
                return where + "listed names %s, expected %s" % (sorted(names), sorted(tab.cols))
            for nm in names:
                if not close(ob["cols"][nm], tab.cols[nm]):
                    return where + "feature %r reads %s, last written %s" % (nm, ob["cols"][nm], tab.cols[nm])
            for cn in "XYZT":
                if not close(ob[cn], getattr(tab, cn)):
                    return where + "%s is %s, expected %s" % (cn, ob[cn], getattr(tab, cn))
        return None

    def classify(self, case, impl_out, msg):
        """the only class: the failing call is create/update/bracket assignment with a list shorter than the track"""
        ops = case.get("ops") or []
        if case.get("kind") == "malformed" and ops and ops[-1][0] in ("create", "update", "setitem") \
                and ops[-1][2] == "l" and len(ops[-1][3]) < case["n"]:
            return "short-list-initialiser"
        return None

    # ---------------------------------------------------------------- shrinking / search
    def shrink(self, case):
        ops = case["ops"]
        if case["kind"] == "malformed":
            return
        for k in range(len(ops) - 1, 0, -1):
            yield dict(case, kind="rand", ops=ops[:k])
        for k in range(len(ops)):
            yield dict(case, kind="rand", ops=ops[:k] + ops[k + 1:])

    def mutate(self, case, rng):
        ops = case["ops"]
        if case["kind"] == "malformed" or not ops:
            return
        n = case["n"]
        for _ in range(20):
            k = rng.randrange(len(ops))
            yield dict(case, kind="rand", ops=ops[:k] + [self.rand_op(rng, n)] + ops[k:])
            yield dict(case, kind="rand", ops=ops + [self.rand_op(rng, n) for _ in range(3)])
